import numpy as np, itertools
from phyclone.tree import Tree, FSCRPDistribution, TreeJointDistribution
from phyclone.data.base import DataPoint
from phyclone.utils.math import log_normalize
rs=np.random.default_rng(3); G=11
def dp(i): return DataPoint(i, rs.normal(size=(1,G))*2, name="m%d"%i, outlier_prob=np.log(0.2), outlier_prob_not=np.log(0.8))
data=[dp(0),dp(1),dp(2)]
td=TreeJointDistribution(FSCRPDistribution(1.3))
def build(assign):
    t=Tree((1,G))
    n0=t.create_root_node([], [data[i] for i in range(3) if assign[i]==0])
    n1=t.create_root_node([n0], [data[i] for i in range(3) if assign[i]==1])
    for i in range(3):
        if assign[i]==-1: t.add_data_point_to_outliers(data[i])
    return t
S=[a for a in itertools.product([0,1,-1],repeat=3) if 0 in a and 1 in a]
T=[build(a) for a in S]
pi=np.array([td.log_p_one(t) for t in T]); pi=np.exp(pi-pi.max()); pi/=pi.sum()
# kernel for dp 0 per DataPointSampler logic
P=np.zeros((len(S),len(S)))
for a,(s,t) in enumerate(zip(S,T)):
    old=s[0]
    if t.get_data_len(old)>1:
        cands=[(0,)+s[1:], (1,)+s[1:], (-1,)+s[1:]]
        lq=log_normalize(np.array([td.log_p_one(build(c)) for c in cands])); q=np.exp(lq)
        for c,qq in zip(cands,q): P[a,S.index(c)]+=qq
    else: P[a,a]=1
print(S); print(np.abs(pi@P-pi).max())
