import numpy as np
from phyclone.tree import Tree, FSCRPDistribution, TreeJointDistribution
from phyclone.data.base import DataPoint
from phyclone.mcmc import ParticleGibbsTreeSampler
from phyclone.smc.kernels import SemiAdaptedKernel
G=11
data=[DataPoint(0, np.zeros((1,G)), name="m0")]
td=TreeJointDistribution(FSCRPDistribution(1.0)); rng=np.random.default_rng(1)
k=SemiAdaptedKernel(td, rng, outlier_proposal_prob=0)
for thr in (0.5, 1.0):
    s=ParticleGibbsTreeSampler(k, rng, num_particles=4, resample_threshold=thr)
    try: print(thr, s.sample_tree(Tree.get_single_node_tree(data)).labels)
    except Exception as e: print(thr, "EXC", repr(e))
