import numpy as np, sys
from collections import Counter
from phyclone.tree import Tree, FSCRPDistribution, TreeJointDistribution
from phyclone.data.base import DataPoint
from phyclone.run import setup_kernel, setup_samplers
G=11; rs=np.random.default_rng(7)
o=0.3
data=[DataPoint(i, rs.normal(size=(1,G))*1.5, name="m%d"%i, outlier_prob=np.log(o), outlier_prob_not=np.log1p(-o)) for i in range(2)]
td=TreeJointDistribution(FSCRPDistribution(1.4))
def key(t): return (t.get_clades(), frozenset(d.idx for d in t.outliers))
states={}
def add(t): states[key(t)]=float(td.log_p_one(t))
a,b=data
t=Tree((1,G)); t.create_root_node([], [a,b]); add(t)
t=Tree((1,G)); t.create_root_node([], [a]); t.create_root_node([], [b]); add(t)
t=Tree((1,G)); n=t.create_root_node([], [a]); t.create_root_node([n], [b]); add(t)
t=Tree((1,G)); n=t.create_root_node([], [b]); t.create_root_node([n], [a]); add(t)
for x,y in ((a,b),(b,a)):
    t=Tree((1,G)); t.create_root_node([], [x]); t.add_data_point_to_outliers(y); add(t)
t=Tree((1,G)); t.add_data_point_to_outliers(a); t.add_data_point_to_outliers(b); add(t)
ks=list(states); lp=np.array([states[k] for k in ks]); pi=np.exp(lp-lp.max()); pi/=pi.sum()
N=int(sys.argv[1])
for prop in ("bootstrap","semi-adapted","fully-adapted"):
    rng=np.random.default_rng(11)
    k=setup_kernel(o, prop, rng, td); s=setup_samplers(k, 6, o, 0.5, rng, td).tree_sampler
    t=Tree.get_single_node_tree(data); c=Counter()
    for i in range(N):
        t=s.sample_tree(t); c[key(t)]+=1
    f=np.array([c[k_]/N for k_ in ks])
    print(prop, "maxdiff", round(float(np.abs(f-pi).max()),4)); print("  pi ", np.round(pi,3)); print("  mc ", np.round(f,3))
