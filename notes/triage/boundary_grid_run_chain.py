import numpy as np, itertools, io, contextlib, traceback, collections
from phyclone.data.base import DataPoint
from phyclone.run import run_phyclone_chain
G=11
def mk(n, o):
    rs=np.random.default_rng(5)
    return [DataPoint(i, rs.normal(size=(2,G))*2, name="m%d"%i, outlier_prob=(np.log(o) if o>0 else 0), outlier_prob_not=(np.log1p(-o) if o>0 else 0.0)) for i in range(n)]
fails=collections.Counter(); ex={}
tot=0
for n, o, prop, N, thr, sub, conc in itertools.product([1,2,3],[0,0.3],["bootstrap","semi-adapted","fully-adapted"],[1,2,5],[0.0,0.5,1.0],[0.0,1.0],[True,False]):
    data=mk(n,o)
    for seed in range(2):
        rng=np.random.default_rng(seed); tot+=1
        try:
            with contextlib.redirect_stdout(io.StringIO()):
                r=run_phyclone_chain(2, conc, 1.0, data, float("inf"), 6, N, 1, 1, o, 100, prop, thr, rng, ["a","b"], 1, 0, sub)
            for e in r["trace"]:
                assert np.isfinite(e["log_p_one"]), "nonfinite"
        except Exception as e:
            tb=traceback.extract_tb(e.__traceback__)[-1]
            key=(type(e).__name__, str(e)[:60], tb.filename.split("/")[-1], tb.name)
            fails[key]+=1; ex.setdefault(key,(n,o,prop,N,thr,sub,conc,seed))
print(tot)
for k,v in fails.most_common(): print(v,k,ex[k])
