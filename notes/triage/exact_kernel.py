import itertools, math
import numpy as np
from phyclone.data.base import DataPoint
from phyclone.tree import Tree, TreeJointDistribution, FSCRPDistribution


class PathRNG:
    """Replays a scripted sequence of decisions; records (n_options, prob) at each decision."""

    def __init__(self, script):
        self.script = list(script)
        self.pos = 0
        self.trace = []  # list of (chosen, options list of (idx, prob))

    def _decide(self, probs):
        opts = [(i, float(p)) for i, p in enumerate(probs) if p > 0]
        if self.pos < len(self.script):
            k = self.script[self.pos]
        else:
            k = 0
        self.pos += 1
        self.trace.append((k, opts))
        return opts[k][0]

    def shuffle(self, x):
        n = len(x)
        perms = list(itertools.permutations(range(n)))
        i = self._decide([1.0 / len(perms)] * len(perms))
        x[:] = [x[j] for j in perms[i]]

    def choice(self, a):
        a = list(a)
        i = self._decide([1.0 / len(a)] * len(a))
        return a[i]

    def multinomial(self, n, p):
        assert n == 1
        p = np.asarray(p, dtype=float)
        i = self._decide(p / p.sum())
        out = np.zeros(len(p), dtype=int)
        out[i] = 1
        return out

    def random(self):
        raise NotImplementedError


def enumerate_outcomes(fn):
    """fn(rng) -> result. yields (prob, result) over all decision paths."""
    script = []
    while True:
        rng = PathRNG(script)
        res = fn(rng)
        prob = 1.0
        for k, opts in rng.trace:
            prob *= opts[k][1]
        yield prob, res
        # backtrack
        tr = rng.trace
        j = len(tr) - 1
        while j >= 0 and tr[j][0] == len(tr[j][1]) - 1:
            j -= 1
        if j < 0:
            return
        script = [t[0] for t in tr[:j]] + [tr[j][0] + 1]


def key(tree):
    return (tree.get_clades(), frozenset(d.idx for d in tree.outliers))


def transition_matrix(step, start_trees):
    """step(tree, rng)->tree. BFS closure."""
    states = {}
    order = []
    queue = []
    for t in start_trees:
        k = key(t)
        if k not in states:
            states[k] = t
            order.append(k)
            queue.append(k)
    rows = {}
    while queue:
        k = queue.pop(0)
        row = {}
        for prob, res in enumerate_outcomes(lambda rng: step(states[k].copy(), rng)):
            k2 = key(res)
            if k2 not in states:
                states[k2] = res
                order.append(k2)
                queue.append(k2)
            row[k2] = row.get(k2, 0.0) + prob
        rows[k] = row
    n = len(order)
    idx = {k: i for i, k in enumerate(order)}
    P = np.zeros((n, n))
    for k, row in rows.items():
        for k2, p in row.items():
            P[idx[k], idx[k2]] = p
    return order, states, P


def stationary_defect(order, states, P, tree_dist):
    lp = np.array([tree_dist.log_p_one(states[k]) for k in order])
    pi = np.exp(lp - lp.max())
    pi /= pi.sum()
    return np.abs(pi @ P - pi).sum(), pi
