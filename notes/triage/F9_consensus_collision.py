import numpy as np
from phyclone.tree import Tree
from phyclone.data.base import DataPoint
from phyclone.process_trace.consensus import get_consensus_tree
from phyclone.process_trace.process_trace import get_tree_from_consensus_graph
G=11
data=[DataPoint(i, np.zeros((1,G)), name="m%d"%i) for i in range(6)]
def T1(o):  # B={o}, C={o+1,o+2} as two roots
    return [("r",[o]),("r",[o+1,o+2])]
def build(specs):
    t=Tree((1,G))
    for s in specs: s(t)
    return t
def t1(t,o):
    t.create_root_node([], [data[o]]); t.create_root_node([], [data[o+1],data[o+2]])
def t2(t,o):  # A owns {o+1}, children {o},{o+2}
    a=t.create_root_node([], [data[o]]); b=t.create_root_node([], [data[o+2]]); t.create_root_node([a,b],[data[o+1]])
def t3(t,o):  # A owns {o}, child C={o+1,o+2}
    c=t.create_root_node([], [data[o+1],data[o+2]]); t.create_root_node([c],[data[o]])
trees=[]
for f in (t1,t2,t3):
    t=Tree((1,G)); f(t,0); f(t,3); trees.append(t)
g=get_consensus_tree(trees, data=data, threshold=0.5)
print(g.nodes(data=True)); print(list(g.edges))
tree=get_tree_from_consensus_graph(data,g)
print(sorted(map(sorted,tree.get_clades())))
