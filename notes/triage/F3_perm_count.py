import numpy as np, itertools, math
from phyclone.tree import Tree
from phyclone.data.base import DataPoint
from phyclone.smc.utils import RootPermutationDistribution as R
def dp(i): return DataPoint(i, np.zeros((1,11)), outlier_prob=np.log(0.1), outlier_prob_not=np.log(0.9))
t = Tree((1,11))
n = t.create_root_node([], [dp(0)])
t.add_data_point_to_outliers(dp(1)); t.add_data_point_to_outliers(dp(2))
rng=np.random.default_rng(0)
seen=set()
for _ in range(2000):
    seen.add(tuple(d.idx for d in R.sample(t, rng)))
print(len(seen), math.exp(R.log_count(t)))
