import numpy as np
from phyclone.tree import Tree, FSCRPDistribution, TreeJointDistribution
from phyclone.data.base import DataPoint
from phyclone.smc.kernels import BootstrapKernel
from phyclone.smc.swarm import Particle
G=11
def dp(i): return DataPoint(i, np.zeros((1,G)), name="m%d"%i, outlier_prob=np.log(0.3), outlier_prob_not=np.log(0.7))
td=TreeJointDistribution(FSCRPDistribution(1.0)); rng=np.random.default_rng(0)
k=BootstrapKernel(td, rng, outlier_proposal_prob=0.1)
t=Tree((1,G)); t.add_data_point_to_outliers(dp(0))
pp=Particle(0,None,t,td,None)
d=k.get_proposal_distribution(dp(1), pp)
from collections import Counter
c=Counter(); lp={}
for _ in range(4000):
    x=d.sample(); key=x.labels[1]; c[key]+=1; lp[key]=float(np.exp(d.log_p(x)))
print({k_:(v/4000, lp[k_]) for k_,v in c.items()}, sum(lp.values()))
