import numpy as np, sys
from collections import Counter
from phyclone.tree import Tree, FSCRPDistribution, TreeJointDistribution
from phyclone.data.base import DataPoint
from phyclone.mcmc import ParticleGibbsTreeSampler
from phyclone.smc.kernels import FullyAdaptedKernel
from phyclone.smc.utils import RootPermutationDistribution as R
from phyclone.tree.utils import get_clades
from phyclone.tests.exact_posterior import get_exact_posterior
import math
G=11
data=[DataPoint(i, np.zeros((1,G)), name="m%d"%i) for i in range(2)]
td=TreeJointDistribution(FSCRPDistribution(1.0))
exact=get_exact_posterior(data, td)
for perm in (None, R()):
    rng=np.random.default_rng(1)
    k=FullyAdaptedKernel(td, rng, outlier_proposal_prob=0, perm_dist=perm)
    s=ParticleGibbsTreeSampler(k, rng, num_particles=5)
    t=Tree.get_single_node_tree(data); c=Counter()
    N=int(sys.argv[1])
    for i in range(N):
        t=s.sample_tree(t); c[get_clades(t)]+=1
    print("perm", perm)
    for cl,p in exact.items(): print("  ", sorted(map(sorted,cl)), round(p,4), round(c[cl]/N,4))
