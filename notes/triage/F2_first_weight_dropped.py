import numpy as np
from phyclone.tree import Tree, FSCRPDistribution, TreeJointDistribution
from phyclone.data.base import DataPoint
from phyclone.mcmc import ParticleGibbsTreeSampler
from phyclone.smc.kernels import BootstrapKernel, FullyAdaptedKernel
from phyclone.smc.utils import RootPermutationDistribution as R
G=11; rs=np.random.default_rng(0)
data=[DataPoint(0, rs.normal(size=(1,G))*3, name="m0", outlier_prob=np.log(0.3), outlier_prob_not=np.log(0.7))]
td=TreeJointDistribution(FSCRPDistribution(1.0))
rng=np.random.default_rng(1)
k=BootstrapKernel(td, rng, outlier_proposal_prob=0.1, perm_dist=R())
s=ParticleGibbsTreeSampler(k, rng, num_particles=8)
t=Tree.get_single_node_tree(data)
sw=s.sample_swarm(t)
for p,w in zip(sw.particles, sw.unnormalized_log_weights): print(p.tree.labels, round(float(p.log_p_one),3), round(float(p.log_w),3), round(w,3))
