import numpy as np, itertools
from phyclone.tree import Tree, FSCRPDistribution, TreeJointDistribution
from phyclone.data.base import DataPoint
from phyclone.mcmc.gibbs_mh import PruneRegraphSampler
from phyclone.utils.math import exp_normalize
rs=np.random.default_rng(3)
G=11
def dp(i):
    return DataPoint(i, rs.normal(size=(1,G))*2, name="m%d"%i)
data=[dp(0),dp(1),dp(2)]
td=TreeJointDistribution(FSCRPDistribution(1.7))
# enumerate labelled forests on 3 nodes via parent pointers
def build(par):
    # par[i] in {-1,0,1,2}; build tree bottom-up
    t=Tree((1,G)); made={}
    def make(i):
        if i in made: return made[i]
        ch=[make(j) for j in range(3) if par[j]==i]
        n=t.create_root_node(children=ch, data=[data[i]]); made[i]=n; return n
    # check acyclic
    for i in range(3):
        seen=set(); j=i
        while j!=-1:
            if j in seen: return None
            seen.add(j); j=par[j]
    # create in an order where children first
    order=sorted(range(3), key=lambda i: -depth(par,i))
    for i in order: make(i)
    return t
def depth(par,i):
    d=0
    while par[i]!=-1: i=par[i]; d+=1
    return d
states={}
for par in itertools.product([-1,0,1,2],repeat=3):
    if any(par[i]==i for i in range(3)): continue
    t=build(par)
    if t is None: continue
    states[t]=t
S=list(states); print(len(S))
pi=np.array([td.log_p_one(t) for t in S]); pi=np.exp(pi-pi.max()); pi/=pi.sum()
def kernel(extra):
    P=np.zeros((len(S),len(S)))
    for a,t in enumerate(S):
        nodes=t.nodes
        for r in nodes:
            pr=t.copy(); sub=pr.get_subtree(r); pr.remove_subtree(sub); rem=pr.nodes
            if len(rem)==0: P[a,a]+=1/len(nodes); continue
            trees=PruneRegraphSampler._create_sampled_trees_array(rem, pr, sub)
            lp=np.array([(np.log(n+1) if extra else 0)+td.log_p_one(x) for n,x in trees])
            p,_=exp_normalize(lp)
            for q,(n,x) in zip(p,trees):
                P[a,S.index(x)]+=q/len(nodes)
    return P
for extra in (True,False):
    P=kernel(extra); print(extra, np.abs(pi@P-pi).max(), P.sum(1).min())
