"""Triage of C04 (subtree particle-Gibbs move): exact transition matrix on the unmodified library.

Every random decision of ParticleGibbsSubtreeSampler.sample_tree (choice of the data point that selects the
subtree, data order, proposals, final selection; no resampling: threshold 0) is enumerated, giving the exact
kernel P on the closure of reachable trees; pi is proportional to exp(log_p_one).  For comparison the same is done
for the whole-tree move.  Run: /venv/bin/python notes/triage/F11_subtree_move_kernel.py
"""
import sys, os
sys.path.insert(0, os.path.dirname(os.path.abspath(__file__)))
import numpy as np
import scipy.stats as stats
from exact_kernel import transition_matrix, stationary_defect
from phyclone.data.base import DataPoint
from phyclone.mcmc.particle_gibbs import ParticleGibbsSubtreeSampler, ParticleGibbsTreeSampler
from phyclone.smc.kernels import FullyAdaptedKernel
from phyclone.smc.utils import RootPermutationDistribution
from phyclone.tree import FSCRPDistribution, Tree, TreeJointDistribution

G = 11
grid = np.linspace(1e-10, 1 - 1e-10, G)
data = [DataPoint(i, np.atleast_2d(stats.binom.logpmf(x, 20, grid))) for i, x in enumerate([16, 9, 5])]
td = TreeJointDistribution(FSCRPDistribution(1.0))


def step(cls):
    def f(tree, rng):
        k = FullyAdaptedKernel(td, rng, outlier_proposal_prob=0, perm_dist=RootPermutationDistribution())
        return cls(k, rng, num_particles=2, resample_threshold=0.0).sample_tree(tree)
    return f


start = Tree.get_single_node_tree(data)
for name, cls in (("whole-tree", ParticleGibbsTreeSampler), ("subtree", ParticleGibbsSubtreeSampler)):
    order, states, P = transition_matrix(step(cls), [start])
    defect, pi = stationary_defect(order, states, P, td)
    print("%-10s move: %d states, rows sum to %.12f, |pi P - pi|_1 = %.3e" % (name, len(order), P.sum(1).min(), defect))
