import numpy as np, traceback
from phyclone.tree import Tree, FSCRPDistribution, TreeJointDistribution
from phyclone.data.base import DataPoint
from phyclone.process_trace.process_trace import get_clone_table
from phyclone.mcmc import ParticleGibbsSubtreeSampler, ParticleGibbsTreeSampler, DataPointSampler, PruneRegraphSampler
from phyclone.smc.kernels import SemiAdaptedKernel, BootstrapKernel, FullyAdaptedKernel
def dp(i): return DataPoint(i, np.zeros((1,11)), name="m%d"%i, outlier_prob=np.log(0.1), outlier_prob_not=np.log(0.9))
data=[dp(0),dp(1)]
t = Tree((1,11))
for d in data: t.add_data_point_to_outliers(d)
try:
    print(get_clone_table(data, ["s"], t))
except Exception: traceback.print_exc()
rng=np.random.default_rng(0)
td=TreeJointDistribution(FSCRPDistribution(1.0))
for K in (SemiAdaptedKernel, BootstrapKernel, FullyAdaptedKernel):
    k=K(td, rng, outlier_proposal_prob=0.1)
    for S in (ParticleGibbsTreeSampler, ParticleGibbsSubtreeSampler):
        try:
            r=S(k, rng, num_particles=3).sample_tree(t.copy()); print(K.__name__, S.__name__, "ok", r.labels)
        except Exception as e: print(K.__name__, S.__name__, "EXC", repr(e))
try: print(DataPointSampler(td, rng, outliers=True).sample_tree(t.copy()).labels)
except Exception as e: print("dp EXC", repr(e))
try: print(PruneRegraphSampler(td, rng).sample_tree(t.copy()).labels)
except Exception as e: print("prg EXC", repr(e))
