"""F12 (C19): the concentration update can return exactly 0 on a tree without clones.

GammaPriorConcentrationSampler.sample clamps the mixture draw (`max(new_value, 1e-10)  # Catch numerical error`)
but not the draw from the prior in the `num_clusters == 0` branch.  run.py builds the sampler with shape 0.01,
for which a Gamma draw underflows to 0.0 about 6 times in 10 000.  With alpha = 0 the prior's log_alpha is -inf,
`num_nodes * log_alpha` = 0 * -inf = nan on the all-outlier tree, and the recorded log_p_one is not finite
(C19: "every recorded entry ... with a finite log_p_one").  Run:  PYTHONPATH=/repo /venv/bin/python notes/F12_alpha_zero.py
"""
import warnings

import numpy as np

from phyclone.data.base import DataPoint
from phyclone.mcmc.concentration import GammaPriorConcentrationSampler
from phyclone.run import update_concentration_value
from phyclone.tree import FSCRPDistribution, Tree, TreeJointDistribution

warnings.simplefilter("ignore")
grid = (1, 11)
data = [DataPoint(i, np.log(np.full(grid, 1.0 / 11)), outlier_prob=0.5) for i in range(2)]
tree = Tree.get_single_node_tree(data)
# move both points to the outlier set: a tree without clones
for dp in data:
    tree.remove_data_point_from_node(dp, 0)
    tree.add_data_point_to_outliers(dp)
tree.remove_subtree(tree.get_subtree(0)) if 0 in tree.nodes else None
assert len(tree.nodes) == 0 and len(tree.outliers) == 2, (tree.nodes, tree.outliers)

bad = None
for seed in range(20000):
    tree_dist = TreeJointDistribution(FSCRPDistribution(1.0))
    sampler = GammaPriorConcentrationSampler(0.01, 0.01, rng=np.random.default_rng(seed))  # as in run.setup_samplers
    update_concentration_value(sampler, tree, tree_dist)
    lp = tree_dist.log_p_one(tree)
    if not (tree_dist.prior.alpha > 0) or not np.isfinite(lp):
        bad = (seed, tree_dist.prior.alpha, lp)
        break
print("first failing seed:", bad)
assert bad is None, "seed %d: concentration updated to %r on an all-outlier tree, log_p_one = %r" % bad
