"""Self-test of the rules: every rule must fire on its breaking variants and stay silent on benign ones.

A variant is one textual edit (`old` must occur exactly once in `file`) applied to a scratch copy of
the package made under $(mktemp -d) (outside /repo and /verif, removed immediately).  The scratch copy
is only parsed (and byte-compiled with compile(), never executed or imported).  Variants whose `old`
text no longer occurs (the repository moved on) are reported as `stale` and do not fail the run unless
more than half of a property's variants are stale.

    python -m pcstatic.selftest C01 [C02 …]      # run the catalogue, print a table
"""
import importlib
import json
import os
import shutil
import subprocess
import sys
import tempfile
from concurrent.futures import ThreadPoolExecutor

from . import model
from .model import AnalysisError

VERIF = os.path.dirname(os.path.dirname(os.path.abspath(__file__)))


def variants_for(pid):
    mod = importlib.import_module("pcstatic.props." + pid)
    return list(getattr(mod, "SELFTEST", []))


def _run_variant(pid, v, repo):
    d = tempfile.mkdtemp(prefix="pcst_")
    try:
        shutil.copytree(os.path.join(repo, "phyclone"), os.path.join(d, "phyclone"), ignore=shutil.ignore_patterns("__pycache__", "tests"))
        edits = v.get("edits") or [{"file": v["file"], "old": v["old"], "new": v["new"]}]
        for e in edits:
            path = os.path.join(d, e["file"])
            with open(path, encoding="utf-8") as fh:
                src = fh.read()
            if src.count(e["old"]) != 1:
                return {"name": v["name"], "status": "stale", "detail": "edit text occurs %d times in %s" % (src.count(e["old"]), e["file"])}
            src = src.replace(e["old"], e["new"])
            try:
                compile(src, path, "exec")
            except SyntaxError as ex:
                return {"name": v["name"], "status": "broken-variant", "detail": "variant does not compile: %s" % ex}
            with open(path, "w", encoding="utf-8") as fh:
                fh.write(src)
        env = dict(os.environ, PCSTATIC_EVIDENCE_DIR=os.path.join(d, "ev"))
        p = subprocess.run(
            [sys.executable, "-B", "-m", "pcstatic.main", pid, "--repo", d, "--tier", "quick", "--quiet"],
            cwd=VERIF, env=env, capture_output=True, text=True, timeout=300,
        )
        out = p.stdout + p.stderr
        fired = [l for l in out.splitlines() if "  rule=" in l]
        rules = sorted({l.split("rule=")[1].split()[0] for l in fired})
        res = {"name": v["name"], "kind": v["kind"], "exit": p.returncode, "rules_fired": rules}
        if v["kind"] == "break":
            want = v.get("rule")
            okrule = want is None or any(r == want or r in (want if isinstance(want, (list, tuple)) else [want]) for r in rules)
            if p.returncode == 1 and okrule:
                res["status"] = "ok"
            elif p.returncode == 1:
                res["status"] = "ok-other-rule"
                res["detail"] = "fired %s, expected %s" % (rules, want)
            elif p.returncode == 2:
                res["status"] = "analysis-error"
                res["detail"] = [l for l in out.splitlines() if "ANALYSIS-ERROR" in l][:1]
            else:
                res["status"] = "MISSED"
        else:
            if p.returncode == 0:
                res["status"] = "ok"
            elif p.returncode == 2:
                res["status"] = "analysis-error"
                res["detail"] = [l for l in out.splitlines() if "ANALYSIS-ERROR" in l][:1]
            else:
                res["status"] = "FALSE-ALARM"
                res["detail"] = fired[:2]
        return res
    finally:
        shutil.rmtree(d, ignore_errors=True)


def run_catalogue(pid, repo=None, jobs=16):
    repo = repo or model.REPO
    vs = variants_for(pid)
    with ThreadPoolExecutor(max_workers=jobs) as ex:
        return list(ex.map(lambda v: _run_variant(pid, v, repo), vs))


def _run_seeded(pid, sdir, repo):
    """One seeded change (seeded/<pid>-<k>/patch.diff, written by an independent agent and confirmed to break
    the property at import): applied to a scratch copy, the check must report a violation."""
    name = os.path.basename(sdir)
    d = tempfile.mkdtemp(prefix="pcsd_")
    try:
        shutil.copytree(os.path.join(repo, "phyclone"), os.path.join(d, "phyclone"), ignore=shutil.ignore_patterns("__pycache__"))
        a = subprocess.run(["patch", "-p1", "-s", "--no-backup-if-mismatch", "-i", os.path.join(sdir, "patch.diff")], cwd=d, capture_output=True, text=True)
        if a.returncode != 0:
            return {"name": "seeded:" + name, "kind": "break", "status": "stale", "detail": "patch no longer applies"}
        env = dict(os.environ, PCSTATIC_EVIDENCE_DIR=os.path.join(d, "ev"))
        p = subprocess.run([sys.executable, "-B", "-m", "pcstatic.main", pid, "--repo", d, "--tier", "quick", "--quiet"], cwd=VERIF, env=env, capture_output=True, text=True, timeout=300)
        out = p.stdout + p.stderr
        rules = sorted({l.split("rule=")[1].split()[0] for l in out.splitlines() if "  rule=" in l})
        res = {"name": "seeded:" + name, "kind": "break", "exit": p.returncode, "rules_fired": rules}
        res["status"] = "ok" if p.returncode == 1 else ("analysis-error" if p.returncode == 2 else "MISSED")
        if p.returncode == 2:
            res["detail"] = [l for l in out.splitlines() if "ANALYSIS-ERROR" in l][:1]
        return res
    finally:
        shutil.rmtree(d, ignore_errors=True)


def run_seeded(pid, repo=None, jobs=8):
    repo = repo or model.REPO
    root = os.path.join(VERIF, "seeded")
    dirs = sorted(os.path.join(root, x) for x in (os.listdir(root) if os.path.isdir(root) else []) if x.startswith(pid + "-") and os.path.exists(os.path.join(root, x, "patch.diff")))
    with ThreadPoolExecutor(max_workers=jobs) as ex:
        return list(ex.map(lambda sd: _run_seeded(pid, sd, repo), dirs))


def _run_benign(pid, bdir, repo):
    """One behaviour-preserving refactoring (benign/<Ax-k>/patch.diff, written by an independent agent, confirmed at
    import by a demo on recorded values and the test suite): the check must not report a violation on it."""
    name = os.path.basename(bdir)
    d = tempfile.mkdtemp(prefix="pcbn_")
    try:
        shutil.copytree(os.path.join(repo, "phyclone"), os.path.join(d, "phyclone"), ignore=shutil.ignore_patterns("__pycache__"))
        a = subprocess.run(["patch", "-p1", "-s", "--no-backup-if-mismatch", "-i", os.path.join(bdir, "patch.diff")], cwd=d, capture_output=True, text=True)
        if a.returncode != 0:
            return {"name": "benign:" + name, "kind": "benign", "status": "stale", "detail": "patch no longer applies"}
        env = dict(os.environ, PCSTATIC_EVIDENCE_DIR=os.path.join(d, "ev"))
        p = subprocess.run([sys.executable, "-B", "-m", "pcstatic.main", pid, "--repo", d, "--tier", "quick", "--quiet"], cwd=VERIF, env=env, capture_output=True, text=True, timeout=300)
        out = p.stdout + p.stderr
        rules = sorted({l.split("rule=")[1].split()[0] for l in out.splitlines() if "  rule=" in l})
        res = {"name": "benign:" + name, "kind": "benign", "exit": p.returncode, "rules_fired": rules}
        res["status"] = "ok" if p.returncode == 0 else ("analysis-error" if p.returncode == 2 else "FALSE-ALARM")
        if p.returncode == 2:
            res["detail"] = [l for l in out.splitlines() if "ANALYSIS-ERROR" in l][:1]
        if p.returncode == 1:
            res["detail"] = [l for l in out.splitlines() if "  rule=" in l][:2]
        return res
    finally:
        shutil.rmtree(d, ignore_errors=True)


def run_benign(pid, repo=None, jobs=8):
    """Refactorings written for this property or touching code this property's check reads (all of them are run by
    tools/run_benign.py against all checks; the thorough tier runs those filed under the property)."""
    repo = repo or model.REPO
    root = os.path.join(VERIF, "benign")
    dirs = []
    for x in sorted(os.listdir(root)) if os.path.isdir(root) else []:
        mp = os.path.join(root, x, "meta.json")
        if os.path.exists(mp) and os.path.exists(os.path.join(root, x, "patch.diff")):
            try:
                if json.load(open(mp)).get("property") == pid:
                    dirs.append(os.path.join(root, x))
            except ValueError:
                pass
    with ThreadPoolExecutor(max_workers=jobs) as ex:
        return list(ex.map(lambda bd: _run_benign(pid, bd, repo), dirs))


def benign_known_limits():
    p = os.path.join(VERIF, "benign", "KNOWN_LIMITS.json")
    return json.load(open(p)) if os.path.exists(p) else {}


def run_for_property(ctx, pid):
    """Thorough tier: run the catalogue and record it in the evidence.  A rule that no longer fires on
    its breaking variant, or fires on a benign one, makes the run an ANALYSIS-ERROR (the checker is
    broken), never a VIOLATION of the property."""
    res = run_catalogue(pid) + run_seeded(pid) + run_benign(pid)
    limits = benign_known_limits()
    for r in res:
        if r["name"].startswith("benign:") and r["status"] == "FALSE-ALARM" and r["name"][7:] in limits:
            r["status"] = "known-limit"
            r["detail"] = limits[r["name"][7:]][:300]
    ctx.selftest = {
        "variants": len(res),
        "breaking_caught": sum(1 for r in res if r.get("kind") == "break" and r["status"] in ("ok", "ok-other-rule")),
        "breaking_total": sum(1 for r in res if r.get("kind") == "break"),
        "benign_silent": sum(1 for r in res if r.get("kind") == "benign" and r["status"] == "ok"),
        "benign_total": sum(1 for r in res if r.get("kind") == "benign"),
        "stale": sum(1 for r in res if r["status"] == "stale"),
        "results": res,
    }
    if not ctx.quiet:
        print("  self-test: %(breaking_caught)d/%(breaking_total)d breaking variants caught, %(benign_silent)d/%(benign_total)d benign variants silent, %(stale)d stale" % ctx.selftest)
    # seeded changes on which the check is known to answer "cannot analyse" (exit 2) rather than report a violation:
    # listed by id with the reason in seeded/ANALYSIS_ERRORS.json; anything else must be reported
    try:
        listed = set(json.load(open(os.path.join(VERIF, "seeded", "ANALYSIS_ERRORS.json"))))
    except (OSError, ValueError):
        listed = set()
    for r in res:
        if r["name"].startswith("seeded:") and r["status"] == "analysis-error" and r["name"][7:] in listed:
            r["status"] = "analysis-error-listed"
    bad = [r for r in res if r["status"] in ("MISSED", "FALSE-ALARM", "broken-variant") or (r["name"].startswith("seeded:") and r["status"] == "analysis-error")]
    documented = {v["name"] for v in variants_for(pid) if v.get("documented_limit")}
    bad = [r for r in bad if r["name"] not in documented]
    if bad:
        raise AnalysisError("self-test failed for %s: %s" % (pid, "; ".join("%s=%s" % (r["name"], r["status"]) for r in bad)))
    if res and ctx.selftest["stale"] * 2 > len(res):
        raise AnalysisError("more than half of the self-test variants of %s are stale" % pid)


def main(argv):
    pids = [a.upper() for a in argv if not a.startswith("-")]
    rc = 0
    for pid in pids:
        res = run_catalogue(pid) + (run_seeded(pid) + run_benign(pid) if "--seeded" in argv else [])
        for r in res:
            print("%-4s %-7s %-44s %-16s %s" % (pid, r.get("kind", ""), r["name"], r["status"], r.get("rules_fired", r.get("detail", ""))))
            if r["status"] in ("MISSED", "FALSE-ALARM", "broken-variant"):
                rc = 1
            if r.get("detail") and r["status"] not in ("ok",):
                print("        ", r["detail"])
    return rc


if __name__ == "__main__":
    sys.exit(main(sys.argv[1:]))
