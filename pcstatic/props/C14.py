"""C14 — memoised recursion and proposal results equal unmemoised computation.

Decided: every memoised function is keyed on all of its parameters and its body reads no module-level
mutable state; the proposal caches are keyed on the concentration (an `alpha` argument fed from
tree_dist.prior.alpha at every call site, or a tree_dist key whose __eq__/__hash__ compare alpha);
the content hashers digest every array (multiplicity kept) and hand the hashed arrays to the body;
bodies whose key is order-insensitive are symmetric; cached results and caller-owned inputs are never
written through; the tree attached for a cached proposal body is the key particle's own tree.
NOT decided: 64-bit digest collisions (probabilistic); float non-associativity under child reordering.
"""
import ast

from ..astutil import call_name, calls, kwarg, parents, u
from ..formula import extract, same, same_events, same_store, spec
from ..model import AnalysisError
from ..termflow import AList, Poly, Unsupported, key_atom, show, vkey, _is_polykey, poly_from_key, equivalent

CACHE_DECOS = ("lru_cache", "list_of_np_cache", "two_np_arr_cache")


def memoised(prog):
    out = []
    for fi in prog.functions.values():
        if fi.parent is not None:
            continue
        for d in fi.decorators:
            name = d.split("(")[0].split(".")[-1]
            if name in CACHE_DECOS:
                out.append((fi, name))
    return out


PROPOSAL_CACHES = ("_get_cached_semi_proposal_dist", "_get_cached_full_proposal_dist", "get_cached_new_tree")


def rule_K1(ctx):
    prog = ctx.prog
    ctx.rule("K1", "the key covers what the body reads: no module-level mutable state, proposal caches keyed on the concentration, data point, parent particle, kernel and outlier probability", 12)
    ms = memoised(prog)
    names = sorted(fi.name for fi, _ in ms)
    want = {"compute_log_S", "_convolve_two_children", "cached_log_factorial", "cached_log_binomial_coefficient"} | set(PROPOSAL_CACHES)
    if not want <= set(names):
        raise AnalysisError("memoised functions found: %s; expected at least %s" % (names, sorted(want)))
    for fi, kind in ms:
        # (a) the body reads nothing but its parameters, locals, imports and module-level defs
        mod = fi.module
        module_defs = {n.name for n in mod.tree.body if isinstance(n, (ast.FunctionDef, ast.ClassDef))}
        module_vars = set()
        for n in mod.tree.body:
            if isinstance(n, (ast.Assign, ast.AugAssign, ast.AnnAssign)):
                for t in (n.targets if isinstance(n, ast.Assign) else [n.target]):
                    for x in ast.walk(t):
                        if isinstance(x, ast.Name):
                            module_vars.add(x.id)
        # a module-level name bound exactly once, at top level, to an immutable literal expression and never declared
        # global anywhere is a constant, not state
        def _const_expr(e):
            if isinstance(e, ast.Constant):
                return isinstance(e.value, (int, float, str, bool, type(None), bytes))
            if isinstance(e, ast.UnaryOp):
                return _const_expr(e.operand)
            if isinstance(e, ast.BinOp):
                return _const_expr(e.left) and _const_expr(e.right)
            if isinstance(e, ast.Tuple):
                return all(_const_expr(x) for x in e.elts)
            if isinstance(e, ast.Call) and u(e.func) in ("np.log", "numpy.log", "math.log", "np.exp", "math.exp", "float", "int", "frozenset") and all(_const_expr(a) for a in e.args) and not e.keywords:
                return True
            return False

        constants = set()
        for name in list(module_vars):
            binds = [n for n in ast.walk(mod.tree) if isinstance(n, (ast.Assign, ast.AugAssign, ast.AnnAssign)) and any(isinstance(x, ast.Name) and x.id == name and isinstance(x.ctx, ast.Store) for t in (n.targets if isinstance(n, ast.Assign) else [n.target]) for x in ast.walk(t))]
            declared = any(isinstance(n, (ast.Global, ast.Nonlocal)) and name in n.names for n in ast.walk(mod.tree))
            if len(binds) == 1 and binds[0] in mod.tree.body and isinstance(binds[0], (ast.Assign, ast.AnnAssign)) and binds[0].value is not None and _const_expr(binds[0].value) and not declared:
                constants.add(name)
        module_vars -= constants
        bad = []
        locals_ = set(fi.params)
        for n in ast.walk(fi.node):
            if isinstance(n, ast.Name) and isinstance(n.ctx, ast.Store):
                locals_.add(n.id)
            if isinstance(n, (ast.Global, ast.Nonlocal)):
                bad.append("declares " + u(n))
        for n in ast.walk(fi.node):
            if isinstance(n, ast.Name) and isinstance(n.ctx, ast.Load) and n.id not in locals_:
                if n.id in module_vars:
                    bad.append("reads module-level variable " + n.id)
        # the contents of a file are state outside the key as well: a memoised reader keyed on the path serves the
        # contents the file had when it was first read (a trace truncated or rewritten since is summarised from memory)
        for c in ast.walk(fi.node):
            if isinstance(c, ast.Call):
                cn = call_name(c)
                last = cn.split(".")[-1]
                if cn in ("open", "gzip.open", "gzip.GzipFile", "bz2.open", "lzma.open", "io.open", "np.load", "numpy.load", "np.loadtxt", "np.genfromtxt") or last in ("read_csv", "read_table", "read_pickle", "read_text", "read_bytes") or cn in ("pickle.load", "json.load"):
                    bad.append("reads the file system (%s): the file's contents are not part of the key" % u(c)[:50])
        ctx.check(not bad, "K1", "%s: body reads only its key, locals and immutable module definitions" % fi.name, fi.where(), "; ".join(sorted(set(bad))), construct=fi.qualname, stmt="free reads")
        # (b) every parameter takes part in the key (lru_cache keys on all arguments; the np hashers on the array arguments)
        a = fi.node.args
        ok = not a.vararg and not a.kwarg
        ctx.check(ok, "K1", "%s: fixed signature, every argument is part of the cache key" % fi.name, fi.where(), "variadic parameters on a memoised function", construct=fi.qualname, stmt="signature")
        ctx.analysed(fi)
    # (c) proposal caches: keyed on the concentration
    # (e) a memoised function outside the confirmed table (a cache added later): lru_cache keys an object argument by
    # the class's __eq__ / __hash__; whatever the body reads from that argument beyond what __eq__ compares is not in
    # the key, and a later call with an "equal" object is served the earlier object's result
    confirmed = want | {"compute_log_S", "_convolve_two_children"}
    hints = {"tree": "Tree", "subtree": "Tree", "new_tree": "Tree", "parent_tree": "Tree", "data_point": "data.base.DataPoint", "parent_particle": "Particle", "particle": "Particle",
             "tree_dist": "TreeJointDistribution", "holder": "TreeHolder", "tree_holder": "TreeHolder"}
    for fi, kind in ms:
        if fi.name in confirmed or kind not in ("lru_cache", "cache"):
            continue
        for pname in fi.params:
            reads = sorted({n.attr for n in ast.walk(fi.node) if isinstance(n, ast.Attribute) and isinstance(n.value, ast.Name) and n.value.id == pname})
            if not reads:
                continue  # used as a value only (a number, a string, a tuple)
            cname = hints.get(pname)
            if cname is None:
                raise AnalysisError("K1: new memoised function %s dereferences its argument %s (%s); its class is not known to this check" % (fi.qualname, pname, reads[:4]))
            ci = prog.cls(cname)
            eq = ci.methods.get("__eq__")
            compared = set()
            if eq is not None:
                compared = {n.attr for n in ast.walk(eq.node) if isinstance(n, ast.Attribute)} | {c.func.attr for c in ast.walk(eq.node) if isinstance(c, ast.Call) and isinstance(c.func, ast.Attribute)}
            extra = [r for r in reads if r not in compared]
            ctx.check(eq is None or not extra, "K1", "%s (memoised): argument %s is keyed by what the body reads" % (fi.name, pname), fi.where(),
                      "%s is memoised with %s; its argument %s is compared by %s.__eq__ (%s) but the body reads %s from it: two objects that compare equal and differ there share one cache entry" % (fi.qualname, kind, pname, ci.name, sorted(compared) or "identity", extra[:6]),
                      construct=fi.qualname, stmt="memoised on %s" % pname)
    tj = prog.cls("TreeJointDistribution")
    fs = prog.cls("FSCRPDistribution")
    alpha_eq = _compares_alpha(prog, fs) and _delegates_to_prior(prog, tj)
    for name in PROPOSAL_CACHES:
        fi = prog.fn(name)
        sites = [(f, c) for f in prog.functions.values() for c in calls(f.node, name=name)]
        if not sites:
            raise AnalysisError("no call site of %s" % name)
        for f, c in sites:
            args = {p: (c.args[i] if i < len(c.args) else kwarg(c, p)) for i, p in enumerate(fi.params)}
            texts = {p: u(v) for p, v in args.items() if v is not None}
            by_alpha = any(t.endswith("prior.alpha") for t in texts.values())
            by_dist = alpha_eq and any(t.split(".")[-1] == "tree_dist" for t in texts.values())
            ctx.check(by_alpha or by_dist, "K1", "%s called from %s: the key carries the concentration" % (name, f.qualname.split(".")[-2] + "." + f.name), f.where(c),
                      "no argument of the cached call depends on tree_dist.prior.alpha (arguments: %s): after a concentration update the cache would return proposals / trees scored under the old value" % texts, construct=f.qualname, stmt="%s(...alpha...)" % name)
            for need, label in (("data_point", "data point"), ("parent_particle", "parent particle")):
                if need in fi.params:
                    ctx.check(texts.get(need, "").split(".")[-1] == need, "K1", "%s called from %s: keyed on the %s" % (name, f.name, label), f.where(c), "the %s argument is %s" % (label, texts.get(need)), construct=f.qualname, stmt="%s(%s)" % (name, need))
        ctx.analysed(fi)
    # (d) the key objects hash / compare by the content the bodies read
    for cls, fields in (("FSCRPDistribution", ["alpha"]), ("TreeJointDistribution", ["prior"])):
        ci = prog.cls(cls)
        if "__eq__" not in ci.methods or "__hash__" not in ci.methods:
            ctx.fail("K1", cls + " defines value-based __eq__ and __hash__", ci.where(), "%s no longer defines both __eq__ and __hash__: as a cache-key component it is compared by identity, so a cached proposal / new-clone tree is reused after its %s changed in place (stale densities after a concentration update)" % (cls, fields[0]), construct=ci.qualname, stmt="__eq__/__hash__")
            continue
        e = extract(prog, _method(prog, ci, "__eq__"))
        h = extract(prog, _method(prog, ci, "__hash__"))
        se = spec(prog, "def s(self, other):\n    return self.%s == other.%s\n" % (fields[0], fields[0]), _method(prog, ci, "__eq__"))
        sh = spec(prog, "def s(self):\n    return hash(self.%s)\n" % fields[0], _method(prog, ci, "__hash__"))
        same(ctx, "K1", cls + ".__eq__ compares " + fields[0], _method(prog, ci, "__eq__"), e.result, se.result, "equality")
        same(ctx, "K1", cls + ".__hash__ hashes " + fields[0], _method(prog, ci, "__hash__"), h.result, sh.result, "hash")
    dp = prog.cls("data.base.DataPoint")
    e = extract(prog, dp.methods["__eq__"])
    h = extract(prog, dp.methods["__hash__"])
    same(ctx, "K1", "DataPoint.__eq__ compares the name", dp.methods["__eq__"], e.result, spec(prog, "def s(self, other):\n    return self.name == other.name\n", dp.methods["__eq__"]).result, "equality")
    same(ctx, "K1", "DataPoint.__hash__ hashes the name", dp.methods["__hash__"], h.result, spec(prog, "def s(self):\n    return hash(self.name)\n", dp.methods["__hash__"]).result, "hash")


def _compares_alpha(prog, ci):
    eq = ci.methods.get("__eq__")
    hs = ci.methods.get("__hash__")
    return eq is not None and hs is not None and "alpha" in u(eq.node) and "alpha" in u(hs.node)


def _delegates_to_prior(prog, ci):
    eq = ci.methods.get("__eq__")
    hs = ci.methods.get("__hash__")
    return eq is not None and hs is not None and "prior" in u(eq.node) and "prior" in u(hs.node)


def _method(prog, ci, name):
    """The method of that name the class uses: its own or one inherited from a base class inside the repository."""
    m = prog.method(ci, name)
    if m is None:
        raise AnalysisError("%s defines no %s (nor does a base class in the repository)" % (ci.qualname, name))
    return m


def rule_K2(ctx):
    prog = ctx.prog
    ctx.rule("K2", "the content hashers digest every array (multiplicity kept), __eq__/__hash__ use the same digest field, and the body receives exactly the hashed arrays", 10)
    f = prog.fn("NumpyArrayListHasher.__init__")
    ex = extract(prog, f)
    sp = spec(prog, """
def s(self, x):
    self.values = x
    self.h = tuple(sorted(xxh3_64_hexdigest(arr) for arr in x))
""", f)
    same_store(ctx, "K2", "NumpyArrayListHasher: digest of every array of the list, sorted, as a tuple (a multiset, not a set)", f, ex, sp, "h")
    same_store(ctx, "K2", "NumpyArrayListHasher keeps the hashed list", f, ex, sp, "values")
    g = prog.fn("NumpyTwoArraysHasher.__init__")
    ex = extract(prog, g)
    sp = spec(prog, """
def s(self, arr_1, arr_2):
    self.input_1 = arr_1
    self.input_2 = arr_2
    self.h = frozenset([xxh3_64_hexdigest(arr_1), xxh3_64_hexdigest(arr_2)])
""", g)
    for a in ("h", "input_1", "input_2"):
        same_store(ctx, "K2", "NumpyTwoArraysHasher: " + a, g, ex, sp, a)
    for cls in ("NumpyArrayListHasher", "NumpyTwoArraysHasher"):
        ci = prog.cls(cls)
        e = extract(prog, _method(prog, ci, "__eq__"))
        h = extract(prog, _method(prog, ci, "__hash__"))
        same(ctx, "K2", cls + ".__eq__ compares the digests", _method(prog, ci, "__eq__"), e.result, spec(prog, "def s(self, other):\n    return other.h == self.h\n", _method(prog, ci, "__eq__")).result, "equality")
        same(ctx, "K2", cls + ".__hash__ hashes the digests", _method(prog, ci, "__hash__"), h.result, spec(prog, "def s(self):\n    return hash(self.h)\n", _method(prog, ci, "__hash__")).result, "hash")
    # wrappers: key object built from the arguments; the body receives the arrays that were hashed
    w = prog.fn("list_of_np_cache.decorator.wrapper")
    ex = extract(prog, w)
    sp = spec(prog, "def s(list_of_np_array, *args, **kwargs):\n    return cached_wrapper(NumpyArrayListHasher(list_of_np_array), *args, **kwargs)\n", w)
    same(ctx, "K2", "list_of_np_cache.wrapper keys the cache on a hasher of its list argument", w, ex.result, sp.result, "cached call")
    cw = prog.fn("list_of_np_cache.decorator.cached_wrapper")
    ex = extract(prog, cw)
    got = [e for e in ex.events if e.name.startswith("local:") or e.name == "function"]
    ok = len(got) == 1 and got[0].args and show(got[0].args[0]) == "P0.values"
    ctx.check(ok, "K2", "list_of_np_cache.cached_wrapper hands the hashed arrays to the function", cw.where(), "the wrapped function is called with %s, not with the arrays that were hashed" % ([show(a) for a in got[0].args] if got else "nothing"), construct=cw.qualname, stmt="function(hashable_set.values)")
    w2 = prog.fn("two_np_arr_cache.decorator.wrapper")
    ex = extract(prog, w2)
    sp = spec(prog, "def s(arr_1, arr_2, *args, **kwargs):\n    return cached_wrapper(NumpyTwoArraysHasher(arr_1, arr_2), *args, **kwargs)\n", w2)
    same(ctx, "K2", "two_np_arr_cache.wrapper keys the cache on a hasher of both arrays", w2, ex.result, sp.result, "cached call")
    cw2 = prog.fn("two_np_arr_cache.decorator.cached_wrapper")
    ex = extract(prog, cw2)
    got = [e for e in ex.events if e.name.startswith("local:") or e.name == "function"]
    ok = len(got) == 1 and [show(a) for a in got[0].args[:2]] == ["P0.input_1", "P0.input_2"]
    ctx.check(ok, "K2", "two_np_arr_cache.cached_wrapper hands both hashed arrays, in order, to the function", cw2.where(), "the wrapped function is called with %s" % ([show(a) for a in got[0].args] if got else "nothing"), construct=cw2.qualname, stmt="function(input_1, input_2)")
    for fn in (w, cw, w2, cw2):
        ctx.analysed(fn)
    for deco, fname in (("list_of_np_cache", "list_of_np_cache.decorator"), ("two_np_arr_cache", "two_np_arr_cache.decorator")):
        d = prog.fn(fname)
        lru = [x for x in prog.functions.values() if x.parent is d and x.name == "cached_wrapper"]
        ok = len(lru) == 1 and any(x.startswith("lru_cache") for x in lru[0].decorators)
        ctx.check(ok, "K2", deco + ": the memoised layer is an lru_cache over the hasher object", d.where(), "cached_wrapper is not an lru_cache", construct=d.qualname, stmt="@lru_cache")


COMM = {"np.convolve", "scipy.signal.fftconvolve", "_convolve_two_children", "_np_conv_dims", "fft_convolve_two_children"}


def _ac(k, name):
    """Flatten nested applications of the associative-commutative call `name` into a sorted multiset."""
    if _is_polykey(k):
        a = key_atom(k)
        if a is not None:
            return _ac(a, name)
        return tuple(_ac(x, name) if isinstance(x, tuple) else x for x in k)
    if isinstance(k, tuple) and k and k[0] == "call" and k[1] == name and len(k[2]) == 2:
        leaves = []

        def collect(x):
            ax = key_atom(x) if isinstance(x, tuple) else None
            if ax is not None and ax[0] == "call" and ax[1] == name and len(ax[2]) == 2:
                collect(ax[2][0])
                collect(ax[2][1])
            else:
                leaves.append(_ac(x, name))

        collect(k[2][0])
        collect(k[2][1])
        return ("call", name, tuple(sorted(leaves, key=repr)), k[3])
    if isinstance(k, tuple):
        return tuple(_ac(x, name) if isinstance(x, tuple) else x for x in k)
    return k


def rule_K3(ctx):
    prog = ctx.prog
    ctx.rule("K3", "an order-insensitive key requires an order-insensitive body: the pairwise convolution is symmetric in its two arrays and the fold combines children only through it", 4)
    A, B, C = (Poly.atom(("v", n)) for n in "ABC")
    for name in ("_np_conv_dims", "fft_convolve_two_children", "_convolve_two_children"):
        f = prog.fn(name)
        r1 = extract(prog, f, args=[A, B], commutative=COMM).result
        r2 = extract(prog, f, args=[B, A], commutative=COMM).result
        # both children live on the same (samples x grid) shape
        from ..termflow import subst
        from ..formula import atoms_of
        same_shape = {}
        for r in (r1, r2):
            for a in atoms_of(r, "attr"):
                if a[2] == "shape":
                    same_shape[Poly.atom(a).key()] = Poly.atom(("v", "SHAPE"))
        for _ in range(3):  # nested occurrences
            r1, r2 = subst(r1, same_shape), subst(r2, same_shape)
        same(ctx, "K3", "%s(a, b) == %s(b, a)" % (name, name), f, r1, r2, "value under exchange of the two arrays", stmt="symmetry")
        ctx.analysed(f)
    f = prog.fn("tree.utils.compute_log_D")
    import itertools

    base = None
    ok = True
    why = ""
    for perm in itertools.permutations([A, B, C]):
        r = extract(prog, f, args=[AList(list(perm))], no_inline=["_convolve_two_children"], commutative=COMM).result
        k = _ac(vkey(r), "_convolve_two_children")
        if base is None:
            base = k
        elif k != base:
            ok = False
            why = "folding the children in the order %s gives %s, in the order (A, B, C) a different combination" % ([show(x) for x in perm], show(r))
    ctx.check(ok, "K3", "compute_log_D: the fold over three children is invariant under every reordering (through a commutative, associative convolution only)", f.where(), why, construct=f.qualname, stmt="fold symmetry")
    # the cached entry point computes from the children only through that fold
    g = prog.fn("tree.utils.compute_log_S")
    ex = extract(prog, g, args=[AList([A, B, C])], no_inline=["_convolve_two_children"], commutative=COMM)
    sp = spec(prog, "def s(children):\n    return np.ascontiguousarray(_sub_compute_S(compute_log_D(children)))\n", g, args=[AList([A, B, C])], no_inline=["_convolve_two_children"], commutative=COMM)
    same(ctx, "K3", "compute_log_S = running log-sum of the fold", g, ex.result, sp.result, "log S")
    ctx.analysed(f, g)


def rule_K7(ctx):
    """A hand-rolled memo (a module-level dict / list / set that a function fills and reads back) is a cache without a
    decorator: the key it is stored under must cover every parameter of the function, or a later call that differs in
    the forgotten parameter is served the earlier result.  Module-level containers that are only read are tables."""
    prog = ctx.prog
    ctx.rule("K7", "no hand-rolled memo table keyed on fewer inputs than the function has", 1)
    n = 0
    for mod in prog.modules.values():
        tables = set()
        for st_ in mod.tree.body:
            if isinstance(st_, (ast.Assign, ast.AnnAssign)) and st_.value is not None:
                v = st_.value
                is_container = isinstance(v, (ast.Dict, ast.List, ast.Set)) or (isinstance(v, ast.Call) and call_name(v).split(".")[-1] in ("dict", "list", "set", "defaultdict", "OrderedDict", "WeakValueDictionary") )
                if is_container:
                    for t in (st_.targets if isinstance(st_, ast.Assign) else [st_.target]):
                        if isinstance(t, ast.Name):
                            tables.add(t.id)
        if not tables:
            continue
        for fi in prog.functions.values():
            if fi.module is not mod:
                continue
            local = {x.id for x in ast.walk(fi.node) if isinstance(x, ast.Name) and isinstance(x.ctx, ast.Store)} | set(fi.params)
            for st_ in ast.walk(fi.node):
                tgt = None
                if isinstance(st_, ast.Assign):
                    for t in st_.targets:
                        if isinstance(t, ast.Subscript) and isinstance(t.value, ast.Name) and t.value.id in tables and t.value.id not in local:
                            tgt = t
                elif isinstance(st_, ast.Call) and isinstance(st_.func, ast.Attribute) and st_.func.attr == "setdefault" and isinstance(st_.func.value, ast.Name) and st_.func.value.id in tables and st_.func.value.id not in local and st_.args:
                    tgt = ast.Subscript(value=st_.func.value, slice=st_.args[0], ctx=ast.Store())
                    ast.copy_location(tgt, st_)
                if tgt is None:
                    continue
                n += 1
                # names the key is computed from (through local assignments of the key variable)
                def names_of(e, depth=0):
                    out = {x.id for x in ast.walk(e) if isinstance(x, ast.Name)}
                    if depth < 3:
                        for nm in list(out):
                            for a in ast.walk(fi.node):
                                if isinstance(a, ast.Assign) and any(isinstance(t, ast.Name) and t.id == nm for t in a.targets):
                                    out |= names_of(a.value, depth + 1)
                    return out
                key_names = names_of(tgt.slice)
                params = [p for p in fi.params if p not in ("self", "cls")]
                missing = [p for p in params if p not in key_names]
                ctx.check(not missing, "K7", "%s: memo table %s is keyed on every parameter" % (fi.qualname.split("phyclone.")[-1], tgt.value.id), fi.where(st_), "%s stores its result in the module-level table %s under %s, which does not depend on %s: a call that differs only there is served the stored result" % (fi.name, tgt.value.id, u(tgt.slice)[:60], ", ".join(missing)), construct=fi.qualname, stmt="memo key of " + tgt.value.id)
    ctx.ok("K7", "%d store(s) into module-level tables inspected" % n, "phyclone")


_CONTAINER_MUTATORS = {"append", "extend", "insert", "remove", "pop", "clear", "sort", "reverse", "add", "discard", "update", "setdefault", "popitem", "appendleft", "extendleft", "fill"}
_MUTABLE_CTORS = {"list", "dict", "set", "defaultdict", "OrderedDict", "deque", "Counter", "bytearray", "zeros", "ones", "empty", "full", "array"}


def rule_K8(ctx):
    """A default argument is evaluated once, when the function is defined.  A mutable default ([] / {} / set() / an
    array) that the function fills, or hands out (returns, yields, stores), is state that survives from one call to
    the next: the second chain of a process, the second move of a sweep, sees what the first one left there."""
    prog = ctx.prog
    ctx.rule("K8", "no state survives between calls through a mutable default argument (a default container that the function fills or hands out)", 1)
    n = 0
    for fi in prog.functions.values():
        a = fi.node.args
        pos = a.posonlyargs + a.args
        pairs = list(zip(pos[len(pos) - len(a.defaults):], a.defaults)) + [(p_, d) for p_, d in zip(a.kwonlyargs, a.kw_defaults) if d is not None]
        for p_, d in pairs:
            mutable = isinstance(d, (ast.List, ast.Dict, ast.Set, ast.ListComp, ast.DictComp, ast.SetComp)) or (isinstance(d, ast.Call) and call_name(d).split(".")[-1] in _MUTABLE_CTORS)
            if not mutable:
                continue
            n += 1
            name = p_.arg
            # names that denote the same object: plain `x = name` aliases
            alias = {name}
            for st_ in ast.walk(fi.node):
                if isinstance(st_, ast.Assign) and isinstance(st_.value, ast.Name) and st_.value.id in alias:
                    alias |= {t.id for t in st_.targets if isinstance(t, ast.Name)}
            how = None
            rebinds = [st_ for st_ in fi.node.body if isinstance(st_, ast.Assign) and any(isinstance(t, ast.Name) and t.id == name for t in st_.targets) and not any(isinstance(x, ast.Name) and x.id == name for x in ast.walk(st_.value))]
            if rebinds and rebinds[0] is fi.node.body[0]:
                continue  # rebound to a fresh value before anything else happens
            for x in ast.walk(fi.node):
                if isinstance(x, ast.Call) and isinstance(x.func, ast.Attribute) and x.func.attr in _CONTAINER_MUTATORS and isinstance(x.func.value, ast.Name) and x.func.value.id in alias:
                    how = how or (x, "fills it (%s)" % u(x)[:50])
                if isinstance(x, (ast.Assign, ast.AugAssign)):
                    for t in (x.targets if isinstance(x, ast.Assign) else [x.target]):
                        if isinstance(t, ast.Subscript) and isinstance(t.value, ast.Name) and t.value.id in alias:
                            how = how or (x, "stores into it (%s)" % u(x)[:50])
                        if isinstance(x, ast.AugAssign) and isinstance(t, ast.Name) and t.id in alias:
                            how = how or (x, "extends it in place (%s)" % u(x)[:50])
                        if isinstance(t, ast.Attribute) and isinstance(x, ast.Assign) and isinstance(x.value, ast.Name) and x.value.id in alias:
                            how = how or (x, "stores it in an object (%s)" % u(x)[:50])
                if isinstance(x, (ast.Return, ast.Yield)) and x.value is not None and any(isinstance(y, ast.Name) and y.id in alias for y in ([x.value] + (list(x.value.elts) if isinstance(x.value, (ast.Tuple, ast.List)) else []))):
                    how = how or (x, "hands it out (%s)" % u(x)[:50])
            ctx.check(how is None, "K8", "%s: default of `%s` (%s) is neither filled nor handed out" % (fi.qualname.split("phyclone.")[-1], name, u(d)[:30]), fi.where(how[0]) if how else fi.where(),
                      "`%s=%s` is created once, at definition time, and %s %s: every call that relies on the default sees what earlier calls left in it" % (name, u(d)[:30], fi.name, how[1] if how else ""), construct=fi.qualname, stmt="mutable default " + name)
    ctx.ok("K8", "%d mutable default argument(s) inspected in %d functions" % (n, len(prog.functions)), "phyclone")


VERIFIED_SYMMETRIC = {"phyclone.tree.utils.compute_log_S", "phyclone.tree.utils._convolve_two_children"}


def rule_K6(ctx):
    """The content-hash decorators key on the *multiset* of arrays (list_of_np_cache) / the unordered pair
    (two_np_arr_cache).  Every function they decorate must return the same value for every order of its arrays:
    the two functions K3 verifies, or any other function whose result is invariant under permuting symbolic
    children (a body that also returns order-dependent data, e.g. per-child back-pointers, is served the entry of
    a different order)."""
    import itertools

    from ..termflow import equivalent

    prog = ctx.prog
    ctx.rule("K6", "every function memoised under an order-insensitive content key returns an order-insensitive value", 2)
    n = 0
    for fi in prog.functions.values():
        decs = [d for d in fi.decorators if d.split("(")[0].split(".")[-1] in ("list_of_np_cache", "two_np_arr_cache")]
        if not decs:
            continue
        n += 1
        if fi.qualname in VERIFIED_SYMMETRIC:
            ctx.ok("K6", "%s: order-insensitive body (verified by K3)" % fi.qualname, fi.where())
            continue
        A, B, C = (Poly.atom(("v", x)) for x in "ABC")
        pair = decs[0].split("(")[0].split(".")[-1] == "two_np_arr_cache"
        try:
            if pair:
                vals = [extract(prog, fi, args=list(p), commutative=COMM).result for p in ([A, B], [B, A])]
            else:
                vals = [extract(prog, fi, args=[AList(list(p))], no_inline=["_convolve_two_children"], commutative=COMM).result for p in itertools.permutations([A, B, C])]
        except Unsupported as e:
            raise AnalysisError("K6: %s is memoised under an order-insensitive key and its body cannot be interpreted (%s)" % (fi.qualname, str(e)[:100]))
        base = _ac(vkey(vals[0]), "_convolve_two_children")
        ok = True
        for v in vals[1:]:
            if _ac(vkey(v), "_convolve_two_children") != base:
                try:
                    if not equivalent(v, vals[0])[0]:
                        ok = False
                except Unsupported:
                    ok = False
        ctx.check(ok, "K6", "%s: value invariant under every order of its arrays" % fi.qualname, fi.where(), "%s is memoised by %s, whose key ignores the order of the arrays, but its result depends on that order (%s for one order): a call with the same arrays in another order is served the wrong entry" % (fi.qualname, decs[0].split("(")[0], show(vals[0])[:160]), construct=fi.qualname, stmt="order-insensitive key, order-sensitive body")
        ctx.analysed(fi)
    if n < 2:
        raise AnalysisError("K6: expected at least the two memoised convolution helpers, found %d decorated functions" % n)


INPLACE_METHODS = {"sort", "fill", "resize", "put", "itemset", "partition", "byteswap", "setfield"}


def _inplace_targets(fnode):
    """(name, node, how) for every in-place write whose target is rooted at a plain name."""
    out = []
    for n in ast.walk(fnode):
        if isinstance(n, ast.AugAssign):
            t = n.target
            root = t
            while isinstance(root, (ast.Subscript, ast.Attribute)):
                root = root.value
            if isinstance(root, ast.Name):
                out.append((root.id, n, "augmented assignment", isinstance(t, ast.Name)))
        elif isinstance(n, ast.Assign):
            for t in n.targets:
                if isinstance(t, ast.Subscript):
                    root = t
                    while isinstance(root, (ast.Subscript, ast.Attribute)):
                        root = root.value
                    if isinstance(root, ast.Name):
                        out.append((root.id, n, "subscript store", False))
        elif isinstance(n, ast.Call):
            o = kwarg(n, "out")
            if o is not None:
                for x in ([o] if not isinstance(o, ast.Tuple) else o.elts):
                    root = x
                    while isinstance(root, (ast.Subscript, ast.Attribute)):
                        root = root.value
                    if isinstance(root, ast.Name):
                        out.append((root.id, n, "out= target", False))
            if call_name(n) in ("np.copyto", "numpy.copyto") and n.args:
                root = n.args[0]
                while isinstance(root, (ast.Subscript, ast.Attribute)):
                    root = root.value
                if isinstance(root, ast.Name):
                    out.append((root.id, n, "np.copyto destination", False))
            if isinstance(n.func, ast.Attribute) and n.func.attr in INPLACE_METHODS and isinstance(n.func.value, ast.Name):
                out.append((n.func.value.id, n, "in-place method ." + n.func.attr, False))
    return out


def _fresh_value(v):
    """Is expression `v` a freshly allocated array (so writing into it cannot reach a caller's object)?"""
    if isinstance(v, ast.Call):
        nm = call_name(v)
        last = nm.split(".")[-1]
        if last in ("empty_like", "zeros_like", "ones_like", "full_like", "zeros", "ones", "full", "empty", "exp", "log", "convolve", "fftconvolve", "copy", "array", "max", "add", "subtract"):
            if last in ("log", "exp", "add", "subtract") and kwarg(v, "out") is not None:
                return None  # aliases its out= operand: decided by that operand
            return True
        if last == "ascontiguousarray":
            return v.args and isinstance(v.args[0], ast.Name) and "list" in v.args[0].id or None
    if isinstance(v, ast.BinOp):
        return True
    if isinstance(v, ast.ListComp):
        return True
    if isinstance(v, ast.Subscript):
        return False  # a view of its base
    return None


def rule_K4(ctx):
    prog = ctx.prog
    ctx.rule("K4", "no write-through: a memoised body never writes into its (caller-owned) inputs, and no caller writes into a returned (shared) value", 8)
    array_caches = {"compute_log_S", "_convolve_two_children"}
    bodies = [prog.fn("tree.utils.compute_log_S"), prog.fn("tree.utils._sub_compute_S"), prog.fn("tree.utils.compute_log_D"), prog.fn("tree.utils._convolve_two_children"), prog.fn("tree.utils._np_conv_dims"), prog.fn("utils.math.fft_convolve_two_children")]
    for f in bodies:
        params = set(f.params)
        # aliases of parameters: names assigned directly from a parameter, a view of it, or a possibly-aliasing call on it
        alias = set(params)
        changed = True
        while changed:
            changed = False
            for n in ast.walk(f.node):
                if isinstance(n, ast.Assign) and len(n.targets) == 1 and isinstance(n.targets[0], ast.Name):
                    v = n.value
                    src = v
                    while isinstance(src, (ast.Subscript, ast.Attribute)):
                        src = src.value
                    aliasing = isinstance(v, (ast.Name, ast.Subscript)) and isinstance(src, ast.Name) and src.id in alias
                    if isinstance(v, ast.Call) and call_name(v).split(".")[-1] in ("ascontiguousarray", "asarray", "reshape", "ravel", "squeeze", "transpose") and v.args:
                        s0 = v.args[0]
                        while isinstance(s0, (ast.Subscript, ast.Attribute)):
                            s0 = s0.value
                        aliasing = isinstance(s0, ast.Name) and s0.id in alias
                    if aliasing and n.targets[0].id not in alias:
                        # a name that is *also* rebound to a fresh value first is flow-dependent: treat conservatively
                        alias.add(n.targets[0].id)
                        changed = True
        # a local that is rebound to a fresh array before any write is not an alias at the write (flow check below)
        bad = []
        from ..paths import enumerate_paths

        for steps, oc in enumerate_paths(f.node.body):
            cur_alias = set(params)
            for st in steps:
                node = st.node
                if st.kind == "stmt" and isinstance(node, ast.Assign) and len(node.targets) == 1 and isinstance(node.targets[0], ast.Name):
                    v = node.value
                    src = v
                    while isinstance(src, (ast.Subscript, ast.Attribute)):
                        src = src.value
                    name = node.targets[0].id
                    is_alias = False
                    if isinstance(v, (ast.Name, ast.Subscript)) and isinstance(src, ast.Name) and src.id in cur_alias:
                        is_alias = True
                    if isinstance(v, ast.Call):
                        last = call_name(v).split(".")[-1]
                        if last in ("ascontiguousarray", "asarray", "reshape", "ravel", "squeeze", "transpose") and v.args:
                            s0 = v.args[0]
                            while isinstance(s0, (ast.Subscript, ast.Attribute)):
                                s0 = s0.value
                            is_alias = isinstance(s0, ast.Name) and s0.id in cur_alias
                        o = kwarg(v, "out")
                        if o is not None and isinstance(o, ast.Name) and o.id in cur_alias:
                            is_alias = True
                    if is_alias:
                        cur_alias.add(name)
                    else:
                        cur_alias.discard(name)
                if st.kind in ("stmt",):
                    for nm, n, how, rebinding in _inplace_targets(node) if isinstance(node, ast.AST) else []:
                        if nm in cur_alias:
                            bad.append((n, "%s on `%s`, which aliases an input of the memoised computation" % (how, nm)))
        seen = set()
        bad = [(n, w) for n, w in bad if not (id(n) in seen or seen.add(id(n)))]
        ctx.check(not bad, "K4", "%s never writes into its inputs" % f.name, f.where(bad[0][0]) if bad else f.where(), "; ".join("%s (%s)" % (w, u(n)[:60]) for n, w in bad), construct=f.qualname, stmt="in-place write to input")
        ctx.analysed(f)
    # the value a memoised computation hands back is a fresh array: an `out=` destination (or a returned value) taken
    # from module-level storage - a scratch block kept per shape, say - is one array shared by every call, so every
    # cached entry aliases whatever the latest call wrote
    def _module_storage(fi_, e, depth=0):
        """Why `e` denotes module-level storage, or None."""
        if isinstance(e, ast.Subscript):
            e = e.value
        if isinstance(e, ast.Name):
            mod_vars = {t.id for st_ in fi_.module.tree.body if isinstance(st_, (ast.Assign, ast.AnnAssign)) for t in (st_.targets if isinstance(st_, ast.Assign) else [st_.target]) if isinstance(t, ast.Name)}
            local = {x.id for x in ast.walk(fi_.node) if isinstance(x, ast.Name) and isinstance(x.ctx, ast.Store)} | set(fi_.params)
            if e.id in mod_vars and e.id not in local:
                return "module-level %s" % e.id
            if e.id in local and depth < 3:
                for st_ in ast.walk(fi_.node):
                    if isinstance(st_, ast.Assign) and any(isinstance(t, ast.Name) and t.id == e.id for t in st_.targets):
                        w = _module_storage(fi_, st_.value, depth + 1)
                        if w:
                            return w
            return None
        if isinstance(e, ast.Call):
            if isinstance(e.func, ast.Attribute) and e.func.attr in ("get", "setdefault", "pop") and isinstance(e.func.value, ast.Name):
                return _module_storage(fi_, e.func.value, depth)
            h = prog.resolve_function(e.func.id, fi_.module) if isinstance(e.func, ast.Name) else None
            if h is not None and depth < 3:
                for r_ in ast.walk(h.node):
                    if isinstance(r_, ast.Return) and r_.value is not None:
                        w = _module_storage(h, r_.value, depth + 1)
                        if w:
                            return "%s, handed out by %s" % (w, h.name)
        return None

    for f in bodies:
        bad = []
        for c in ast.walk(f.node):
            if isinstance(c, ast.Call):
                o = kwarg(c, "out")
                if o is not None:
                    w = _module_storage(f, o)
                    if w:
                        bad.append((c, "out= destination is %s" % w))
            if isinstance(c, ast.Return) and c.value is not None:
                w = _module_storage(f, c.value)
                if w:
                    bad.append((c, "returns %s" % w))
        ctx.check(not bad, "K4", "%s computes into storage of its own (nothing kept at module level)" % f.name, f.where(bad[0][0]) if bad else f.where(), "; ".join("%s (%s)" % (w, u(n)[:60]) for n, w in bad) + ": one array shared by all calls, so cached results of earlier calls change when it is written again", construct=f.qualname, stmt="result in module-level storage")
    # callers of the array caches: the returned (shared, cached) array is never written
    for name in sorted(array_caches):
        for f in prog.functions.values():
            if f.name == name:
                continue
            for c in calls(f.node, name=name):
                pm = parents(f.node)
                st = pm.get(id(c))
                var = None
                if isinstance(st, ast.Assign) and len(st.targets) == 1 and isinstance(st.targets[0], ast.Name) and st.value is c:
                    var = st.targets[0].id
                bad = []
                if var is not None:
                    after = False
                    for nm, n, how, rebinding in _inplace_targets(f.node):
                        if nm == var and n.lineno >= st.lineno and n is not st:
                            bad.append("%s on the cached result `%s` (%s)" % (how, var, u(n)[:60]))
                elif isinstance(st, ast.keyword) and st.arg == "out":
                    bad.append("the cached result is used as an out= target")
                ctx.check(not bad, "K4", "%s: the value returned by %s is only read" % (f.qualname.split(".")[-2] + "." + f.name if f.cls else f.name, name), f.where(c), "; ".join(bad) + ": later cache hits would return the modified array", construct=f.qualname, stmt="use of %s(...)" % name)
    # a memoised body must not hand back an alias of a caller-owned input unprotected: compute_log_D's
    # single-child case returns its input; its only caller must copy / transform it before caching
    g = prog.fn("tree.utils.compute_log_S")
    ex = extract(prog, g, args=[AList([Poly.atom(("v", "A"))])], no_inline=["_sub_compute_S"])
    r = show(ex.result)
    leaves = []

    def _leaves(k):
        a = key_atom(k)
        if a is not None and a[0] == "cond":
            for _, val in a[1]:
                _leaves(val)
        else:
            leaves.append(k)

    _leaves(vkey(ex.result))
    aliasing = [l for l in leaves if (key_atom(l) or ("",))[0] in ("v", "sub", "attr")]
    ctx.check("_sub_compute_S(" in r and not aliasing, "K4", "compute_log_S never returns (and so never caches) an alias of a child's own array", g.where(), "for a single child compute_log_S returns %s: the cached value would alias the child's log_r, which the tree later overwrites in place" % r, construct=g.qualname, stmt="single child alias")
    s = prog.fn("tree.utils._sub_compute_S")
    fresh = any(isinstance(n, ast.Assign) and isinstance(n.value, ast.Call) and call_name(n.value).split(".")[-1] in ("empty_like", "zeros_like", "empty", "zeros") for n in ast.walk(s.node))
    ctx.check(fresh, "K4", "_sub_compute_S writes into a freshly allocated array", s.where(), "the running sum is not accumulated into a fresh array", construct=s.qualname, stmt="fresh destination")


def rule_K5(ctx):
    prog = ctx.prog
    ctx.rule("K5", "the tree attached for a cached proposal body is the key particle's own tree, pushed before the cached call and read only when a parent exists", 6)
    for cls, cache in (("SemiAdaptedKernel", "_get_cached_semi_proposal_dist"), ("FullyAdaptedKernel", "_get_cached_full_proposal_dist")):
        f = prog.fn(cls + ".get_proposal_distribution")
        from ..paths import must_precede

        def is_push(st):
            n = st.node
            return st.kind == "stmt" and isinstance(n, ast.Assign) and u(n.targets[0]) == "parent_particle.built_tree" and u(n.value) == "parent_tree"

        def is_call(st):
            return st.kind == "stmt" and any(call_name(c) == cache for c in calls(st.node))

        # on paths where parent_particle is not None the push must precede the cached call
        from ..paths import enumerate_paths

        ok = True
        seen_call = False
        for steps, oc in enumerate_paths(f.node.body):
            pushed = False
            has_parent = None
            for st in steps:
                if st.kind == "test" and u(st.node) in ("parent_particle is not None", "parent_particle is None"):
                    has_parent = st.taken if "is not" in u(st.node) else not st.taken
                if is_push(st):
                    pushed = True
                if is_call(st):
                    seen_call = True
                    if has_parent is not False and not pushed:
                        ok = False
        ctx.check(ok and seen_call, "K5", "%s.get_proposal_distribution: parent_particle.built_tree = parent_tree precedes the cached call whenever a parent exists" % cls, f.where(), "the cached body would read a stale (or no) tree for this parent particle", construct=f.qualname, stmt="push before cached call")
        b = prog.fn(cache)
        reads = [n for n in ast.walk(b.node) if isinstance(n, ast.Attribute) and n.attr == "built_tree"]
        pm = parents(b.node)
        from ..paths import guards_of

        good = bool(reads)
        for r in reads:
            gs = [(u(t), pol) for t, pol in guards_of(r, pm)]
            if not any((t == "parent_particle is not None" and pol) or (t == "parent_particle is None" and not pol) for t, pol in gs):
                good = False
        ctx.check(good, "K5", "%s reads parent_particle.built_tree only when a parent exists" % cache, b.where(), "built_tree is read without a parent (AttributeError on None) or not at all", construct=b.qualname, stmt="guarded read")
        ctx.analysed(f, b)
    # the retained path: the tree handed over is the one the previous particle was built from, and is not edited afterwards
    f = prog.fn("ConditionalSMCSampler._get_constrained_path")
    # decided on the calls the pass makes, however it is written (in place, through helpers, a generator): the arguments of
    # every get_proposal_distribution call — data point, parent particle, attached tree — equal those of the reference pass,
    # in which each step edits a fresh copy of the previous tree and attaches the very tree the parent particle wraps
    from .C01 import OPAQUE as _OPQ, RETAINED_PATH_SPEC

    exq = extract(prog, f, opaque_self_methods=_OPQ, copy_is_identity=False)
    spp = spec(prog, RETAINED_PATH_SPEC, f, opaque_self_methods=_OPQ, copy_is_identity=False)
    same_events(ctx, "K5", "_get_constrained_path: get_proposal_distribution(data point, last particle of the path, the tree that particle wraps), each step's tree a fresh copy of the previous one plus its edit", f, exq.calls(".get_proposal_distribution"), spp.calls(".get_proposal_distribution"), "get_proposal_distribution(...) per data point")
    same(ctx, "K5", "_get_constrained_path: the particles of the path wrap the trees that were attached", f, exq.result, spp.result, "returned path")
    for k in range(2):  # (instances kept for the vacuity guard)
        ctx.ok("K5", "_get_constrained_path premise %d covered by the comparison above" % k, f.where())
    g = prog.fn("Kernel.propose_particle")
    cs = [c for c in calls(g.node, last="get_proposal_distribution")]
    ok = len(cs) == 1 and len(cs[0].args) == 2 and not cs[0].keywords
    ctx.check(ok, "K5", "Kernel.propose_particle attaches no tree (the cached body rebuilds the parent's own from its dictionary form)", g.where(), "a tree other than the parent's own may be attached", construct=g.qualname, stmt="get_proposal_distribution(dp, parent)")
    sp = prog.fn("ProposalDistribution._set_parent_tree")
    ex = extract(prog, sp)
    sps = spec(prog, """
def s(self, parent_tree):
    if self.parent_particle is not None:
        if parent_tree is not None:
            self.parent_tree = parent_tree
        else:
            self.parent_tree = self.parent_particle.tree
    else:
        self.parent_tree = None
""", sp)
    same_store(ctx, "K5", "ProposalDistribution._set_parent_tree: the attached tree, else the parent's own", sp, ex, sps, "parent_tree")
    ctx.analysed(f, g, sp)
    bs = prog.fn("Particle.built_tree@setter")
    exb = extract(prog, bs)
    spb = spec(prog, "def s(self, tree):\n    self._built_tree.append(tree)\n", bs)
    same_events(ctx, "K5", "Particle.built_tree setter pushes the attached tree", bs, exb.calls(".append"), spb.calls(".append"), "push")
    bg = prog.fn("Particle.built_tree@getter")
    exg = extract(prog, bg)
    same(ctx, "K5", "Particle.built_tree getter hands back the most recently attached tree", bg, exg.result, spec(prog, "def s(self):\n    return self._built_tree.pop()\n", bg).result, "attached tree")
    # recorded, not a rule: clearing
    c = prog.fn("clear_proposal_dist_caches")
    ctx.note("clear_proposal_dist_caches clears: %s (not a premise of value-equality)" % sorted(u(x.func.value) for x in calls(c.node, last="cache_clear")))


def run(ctx):
    ctx.assume("64-bit xxh3 digests do not collide (probabilistic; outside static reach)")
    ctx.assume("functools.lru_cache keys on all positional and keyword arguments by __hash__/__eq__")
    ctx.assume("all node arrays of one process share one (samples x grid) shape (the statement fixes the grid shape per process)")
    ctx.soft(rule_K1)
    ctx.soft(rule_K2)
    ctx.soft(rule_K3)
    ctx.soft(rule_K4)
    ctx.soft(rule_K5)
    ctx.soft(rule_K6)
    ctx.soft(rule_K7)
    ctx.soft(rule_K8)
    # a cached proposal / tree holder is served again and again: the trees handed out from it must share nothing
    # mutable with the cached entry (same rule object as C06.M4)
    from . import _premises

    _premises.deep_copies(ctx)


_UU = "phyclone/utils/utils.py"
_TU = "phyclone/tree/utils.py"
_SA = "phyclone/smc/kernels/semi_adapted.py"
_FA = "phyclone/smc/kernels/fully_adapted.py"
_M = "phyclone/utils/math.py"
SELFTEST = [
    {"name": "K4-fft-result-in-module-level-scratch", "kind": "break", "rule": "K4", "edits": [
        {"file": "phyclone/utils/math.py", "old": "def fft_convolve_two_children(child_1, child_2):\n", "new": "_SCRATCH = {}\n\n\ndef fft_convolve_two_children(child_1, child_2):\n"},
        {"file": "phyclone/utils/math.py", "old": "    result = np.log(result, order=\"C\", dtype=np.float64)\n", "new": "    result = np.log(result, out=_SCRATCH.setdefault(result.shape, np.empty(result.shape)), order=\"C\", dtype=np.float64)\n"}]},
    {"name": "benign-fft-result-in-local-scratch", "kind": "benign", "file": "phyclone/utils/math.py", "old": "    result = np.log(result, order=\"C\", dtype=np.float64)\n", "new": "    scratch = np.empty(result.shape, dtype=np.float64)\n    result = np.log(result, out=scratch, order=\"C\", dtype=np.float64)\n"},
    {"name": "K8-trace-started-in-default-argument", "kind": "break", "rule": "K8", "file": "phyclone/run.py", "old": "def setup_trace(timer, tree, tree_dist):\n    trace = []\n", "new": "def setup_trace(timer, tree, tree_dist, trace=[]):\n"},
    {"name": "benign-default-container-only-read", "kind": "benign", "file": "phyclone/run.py", "old": "def setup_trace(timer, tree, tree_dist):\n    trace = []\n", "new": "def setup_trace(timer, tree, tree_dist, initial=[]):\n    trace = list(initial)\n"},
    {"name": "K1-alpha-dropped-from-semi-cache", "kind": "break", "rule": "K1", "edits": [
        {"file": _SA, "old": "            self.outlier_proposal_prob,\n            self.tree_dist.prior.alpha,\n        )", "new": "            self.outlier_proposal_prob,\n        )"},
        {"file": _SA, "old": "def _get_cached_semi_proposal_dist(data_point, kernel, parent_particle, outlier_proposal_prob, alpha):", "new": "def _get_cached_semi_proposal_dist(data_point, kernel, parent_particle, outlier_proposal_prob):"}]},
    {"name": "K1-alpha-constant-at-call-site", "kind": "break", "rule": "K1", "file": _FA, "old": "            self.outlier_proposal_prob,\n            self.tree_dist.prior.alpha,\n        )", "new": "            self.outlier_proposal_prob,\n            1.0,\n        )"},
    {"name": "K1-fscrp-eq-always-true", "kind": "break", "rule": "K1", "file": "phyclone/tree/distributions.py", "old": "        alpha_check = self.alpha == other.alpha\n        return alpha_check", "new": "        return True"},
    {"name": "K1-fscrp-hash-constant", "kind": "break", "rule": "K1", "file": "phyclone/tree/distributions.py", "old": "        return hash(self.alpha)", "new": "        return hash(type(self))"},
    {"name": "K1-cached-body-reads-global", "kind": "break", "rule": "K1", "file": _M, "old": "@lru_cache(maxsize=None)\ndef cached_log_factorial(x):\n    return log_factorial(x)", "new": "_OFFSET = 1\n\n\ndef set_offset(v):\n    global _OFFSET\n    _OFFSET = v\n\n\n@lru_cache(maxsize=None)\ndef cached_log_factorial(x):\n    return log_gamma(x + _OFFSET)"},
    {"name": "benign-K1-cached-body-reads-constant", "kind": "benign", "file": _M, "old": "@lru_cache(maxsize=None)\ndef cached_log_factorial(x):\n    return log_factorial(x)", "new": "_OFFSET = 1\n\n\n@lru_cache(maxsize=None)\ndef cached_log_factorial(x):\n    return log_gamma(x + _OFFSET)"},
    {"name": "K1-new-tree-cache-keyed-on-other-point", "kind": "break", "rule": "K1", "file": _SA, "old": "            self.parent_particle,\n            self.data_point,\n            frozenset(children),", "new": "            self.parent_particle,\n            self.data_point.idx,\n            frozenset(children),"},
    {"name": "K2-hash-first-array-only", "kind": "break", "rule": "K2", "file": _UU, "old": "hashable = np.array([xxh3_64_hexdigest(arr) for arr in list_of_np_arrays], order=\"C\")", "new": "hashable = np.array([xxh3_64_hexdigest(arr) for arr in list_of_np_arrays[:1]], order=\"C\")"},
    {"name": "K2-digests-as-set", "kind": "break", "rule": "K2", "file": _UU, "old": "        hashable.sort()\n        ret = tuple(hashable)", "new": "        ret = frozenset(hashable)"},
    {"name": "K2-pair-hasher-ignores-second", "kind": "break", "rule": "K2", "file": _UU, "old": "self.h = frozenset([xxh3_64_hexdigest(arr_1), xxh3_64_hexdigest(arr_2)])", "new": "self.h = frozenset([xxh3_64_hexdigest(arr_1)])"},
    {"name": "K2-eq-always-true", "kind": "break", "rule": "K2", "file": _UU, "old": "class NumpyTwoArraysHasher:\n    def __init__(self, arr_1, arr_2) -> None:\n        self.input_1 = arr_1\n        self.input_2 = arr_2\n        self.h = frozenset([xxh3_64_hexdigest(arr_1), xxh3_64_hexdigest(arr_2)])\n\n    def __hash__(self) -> int:\n        return hash(self.h)\n\n    def __eq__(self, __value: object) -> bool:\n        return __value.h == self.h", "new": "class NumpyTwoArraysHasher:\n    def __init__(self, arr_1, arr_2) -> None:\n        self.input_1 = arr_1\n        self.input_2 = arr_2\n        self.h = frozenset([xxh3_64_hexdigest(arr_1), xxh3_64_hexdigest(arr_2)])\n\n    def __hash__(self) -> int:\n        return hash(self.h)\n\n    def __eq__(self, __value: object) -> bool:\n        return len(__value.h) == len(self.h)"},
    {"name": "K2-body-gets-swapped-inputs", "kind": "break", "rule": "K2", "file": _UU, "old": "            arr_1 = hashable_obj.input_1\n            arr_2 = hashable_obj.input_2", "new": "            arr_1 = hashable_obj.input_1\n            arr_2 = hashable_obj.input_1"},
    {"name": "K3-asymmetric-max-added-twice", "kind": "break", "rule": "K3", "file": _TU, "old": "    log_D += child_1_maxes\n\n    log_D += child_2_maxes", "new": "    log_D += child_1_maxes\n\n    log_D += child_1_maxes"},
    {"name": "K3-asymmetric-fft-normaliser", "kind": "break", "rule": "K3", "file": _M, "old": "    child_2_norm = np.exp(child_2 - child_2_maxes)\n\n    result = fftconvolve", "new": "    child_2_norm = np.exp(child_2 - child_1_maxes)\n\n    result = fftconvolve"},
    {"name": "K3-fold-weights-first-child", "kind": "break", "rule": "K3", "file": _TU, "old": "    conv_res = _convolve_two_children(child_log_R_values[0], child_log_R_values[1])\n", "new": "    conv_res = _convolve_two_children(child_log_R_values[0], child_log_R_values[1]) + child_log_R_values[0]\n"},
    {"name": "K4-write-through-cached-log_s", "kind": "break", "rule": "K4", "file": "phyclone/tree/tree_node.py", "old": "        np.add(log_p, log_s, out=log_r, order=\"C\")", "new": "        np.add(log_p, log_s, out=log_s, order=\"C\")\n        np.copyto(log_r, log_s)"},
    {"name": "K4-conv-normalises-input-in-place", "kind": "break", "rule": "K4", "file": _TU, "old": "    child_1_norm = np.exp(child_1 - child_1_maxes)\n\n    child_2_norm = np.exp(child_2 - child_2_maxes)\n\n    grid_size = child_1.shape[-1]", "new": "    child_1 -= child_1_maxes\n    child_1_norm = np.exp(child_1)\n\n    child_2_norm = np.exp(child_2 - child_2_maxes)\n\n    grid_size = child_1.shape[-1]"},
    {"name": "K4-running-sum-in-place-on-input", "kind": "break", "rule": "K4", "file": _TU, "old": "    log_S = np.empty_like(log_D)\n    num_dims", "new": "    log_S = log_D\n    num_dims"},
    {"name": "K4-single-child-returns-alias", "kind": "break", "rule": "K4", "file": _TU, "old": "    log_D = compute_log_D(child_log_R_values)\n    log_S = _sub_compute_S(log_D)\n\n    return np.ascontiguousarray(log_S)", "new": "    log_D = compute_log_D(child_log_R_values)\n    if len(child_log_R_values) == 1 and log_D.shape[1] == 1:\n        return log_D\n    log_S = _sub_compute_S(log_D)\n\n    return np.ascontiguousarray(log_S)"},
    {"name": "K5-push-after-cached-call", "kind": "break", "rule": "K5", "file": _SA, "old": "        if parent_particle is not None:\n            parent_particle.built_tree = parent_tree\n        return _get_cached_semi_proposal_dist(\n            data_point,\n            self,\n            parent_particle,\n            self.outlier_proposal_prob,\n            self.tree_dist.prior.alpha,\n        )", "new": "        ret = _get_cached_semi_proposal_dist(\n            data_point,\n            self,\n            parent_particle,\n            self.outlier_proposal_prob,\n            self.tree_dist.prior.alpha,\n        )\n        if parent_particle is not None:\n            parent_particle.built_tree = parent_tree\n        return ret"},
    {"name": "K5-path-edits-attached-tree", "kind": "break", "rule": "K5", "file": "phyclone/smc/samplers/conditional.py", "old": "        for data_point in self.data_points:\n            new_tree = new_tree.copy()\n", "new": "        for data_point in self.data_points:\n"},
    {"name": "K5-path-attaches-current-tree", "kind": "break", "rule": "K5", "file": "phyclone/smc/samplers/conditional.py", "old": "proposal_dist = self.kernel.get_proposal_distribution(data_point, parent_particle, parent_tree)", "new": "proposal_dist = self.kernel.get_proposal_distribution(data_point, parent_particle, new_tree)"},
    {"name": "benign-rename-h", "kind": "benign", "edits": [
        {"file": _UU, "old": "        self.h = frozenset([xxh3_64_hexdigest(arr_1), xxh3_64_hexdigest(arr_2)])\n\n    def __hash__(self) -> int:\n        return hash(self.h)\n\n    def __eq__(self, __value: object) -> bool:\n        return __value.h == self.h\n\n    def clear_inputs(self):\n        self.input_1 = None", "new": "        d1 = xxh3_64_hexdigest(arr_1)\n        d2 = xxh3_64_hexdigest(arr_2)\n        self.h = frozenset([d2, d1])\n\n    def __hash__(self) -> int:\n        return hash(self.h)\n\n    def __eq__(self, __value: object) -> bool:\n        return self.h == __value.h\n\n    def clear_inputs(self):\n        self.input_1 = None"}]},
    {"name": "benign-sorted-builtin", "kind": "benign", "file": _UU, "old": "        hashable = np.array([xxh3_64_hexdigest(arr) for arr in list_of_np_arrays], order=\"C\")\n        hashable.sort()\n        ret = tuple(hashable)", "new": "        ret = tuple(sorted(xxh3_64_hexdigest(a) for a in list_of_np_arrays))"},
    {"name": "benign-maxes-added-in-one-statement", "kind": "benign", "file": _TU, "old": "    log_D += child_1_maxes\n\n    log_D += child_2_maxes", "new": "    log_D += child_2_maxes + child_1_maxes"},
    {"name": "benign-reorder-cache-parameters", "kind": "benign", "edits": [
        {"file": _FA, "old": "            parent_particle,\n            self.outlier_proposal_prob,\n            self.tree_dist.prior.alpha,\n        )", "new": "            parent_particle,\n            self.tree_dist.prior.alpha,\n            self.outlier_proposal_prob,\n        )"},
        {"file": _FA, "old": "def _get_cached_full_proposal_dist(data_point, kernel, parent_particle, outlier_proposal_prob, alpha):", "new": "def _get_cached_full_proposal_dist(data_point, kernel, parent_particle, alpha, outlier_proposal_prob):"}]},
    {"name": "benign-clear-more-caches", "kind": "benign", "file": "phyclone/utils/dev.py", "old": "    # compute_log_S.cache_clear()\n", "new": "    compute_log_S.cache_clear()\n"},
]
