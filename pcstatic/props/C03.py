"""C03 — joint log-density implements the FS-CRP model and depends only on the tree.

Decided: every additive term of both densities against a specification written from the property
statement (TermFlow), fused = separate, eq/hash built from the same key, clade visitor shape,
holder/particle identity, read-only / deterministic density functions.  NOT decided: that the
specification "is" the FS-CRP (it is the statement's formula), floating-point equality.
"""
import ast

from ..astutil import calls, call_name, u, func_defaults
from ..formula import extract, same, same_events, spec
from ..model import AnalysisError
from ..termflow import show

NONE4 = {"tree_node_data": None, "log_p": None, "num_nodes": None, "multiplicity": None}

SPEC_CRP = """
    K = tree.get_number_of_nodes()
    crp = K * self.log_alpha + sum(math.lgamma(len(v)) for k, v in tree.node_data.items() if k != tree.outlier_node_name)
"""

SPEC_PRIOR_LOG_P = """
def s(self, tree, tree_node_data=None, log_p=None, num_nodes=None, multiplicity=None):
    import math
%s
    return crp - (K - 1) * np.log(K + 1) - tree.multiplicity
""" % SPEC_CRP

SPEC_PRIOR_LOG_P_ONE = """
def s(self, tree, tree_node_data=None, log_p=None, num_nodes=None, multiplicity=None):
    import math
%s
    R = len(tree.roots)
    c = self._c_const
    if R == 0:
        r_term = 0
    else:
        z = np.log1p(-np.exp(-c * R)) - np.log1p(-np.exp(-c))
        r_term = -((R - 1) * c + z)
    ways = sum(tree.get_number_of_descendants(r) * np.log(tree.get_number_of_descendants(r) + 1) for r in tree.roots)
    return crp - ways + r_term - tree.multiplicity
""" % SPEC_CRP

SPEC_OUTLIER_PRIOR = """
    op = 0
    for node, node_data in tree.node_data.items():
        for dp in node_data:
            if dp.outlier_prob != 0:
                if node == tree.outlier_node_name:
                    op += dp.outlier_prob
                else:
                    op += dp.outlier_prob_not
    om = sum(dp.outlier_marginal_prob for dp in tree.outliers)
"""

SPEC_JOINT_LOG_P = """
def s(self, tree):
%s
    lp = self.prior.log_p(tree, tree.node_data) + op + om
    if tree.get_number_of_children(tree.root_node_name) > 0:
        lp += sum(log_sum_exp(tree.data_log_likelihood[i, :]) for i in range(tree.grid_size[0]))
    return lp
""" % SPEC_OUTLIER_PRIOR

SPEC_JOINT_LOG_P_ONE = """
def s(self, tree):
%s
    lp = self.prior.log_p_one(tree, tree.node_data) + op + om
    if tree.get_number_of_children(tree.root_node_name) > 0:
        lp += sum(tree.data_log_likelihood[i, -1] for i in range(tree.grid_size[0]))
    return lp
""" % SPEC_OUTLIER_PRIOR

SPEC_JOINT_BOTH = """
def s(self, tree):
%s
    a, b = self.prior.compute_both_log_p_and_log_p_one_priors(tree, tree.node_data)
    a = a + op + om
    b = b + op + om
    if tree.get_number_of_children(tree.root_node_name) > 0:
        a += sum(log_sum_exp(tree.data_log_likelihood[i, :]) for i in range(tree.grid_size[0]))
        b += sum(tree.data_log_likelihood[i, -1] for i in range(tree.grid_size[0]))
    return a, b
""" % SPEC_OUTLIER_PRIOR


def rule_T1(ctx):
    prog = ctx.prog
    ctx.rule("T1", "prior terms: CRP, uniform-topology term (marginal / fixed-root form), root-count penalty, multiplicity", 6)
    lp = prog.fn("FSCRPDistribution.log_p")
    ex = extract(prog, lp, kwargs=NONE4)
    sp = spec(prog, SPEC_PRIOR_LOG_P, lp, kwargs=NONE4)
    same(ctx, "T1", "FSCRPDistribution.log_p (marginal form)", lp, ex.result, sp.result, "prior log_p")
    l1 = prog.fn("FSCRPDistribution.log_p_one")
    ex = extract(prog, l1, kwargs=NONE4)
    sp = spec(prog, SPEC_PRIOR_LOG_P_ONE, l1, kwargs=NONE4)
    same(ctx, "T1", "FSCRPDistribution.log_p_one (fixed-root form)", l1, ex.result, sp.result, "prior log_p_one")
    # the pre-computed-argument entry (used by the fused variant) must give the same value
    for f, src in ((lp, SPEC_PRIOR_LOG_P), (l1, SPEC_PRIOR_LOG_P_ONE)):
        ex = extract(prog, f)  # all optional arguments symbolic
        sp2 = spec(prog, """
def s(self, tree, tree_node_data=None, log_p=None, num_nodes=None, multiplicity=None):
    if tree_node_data is None:
        nd = tree.node_data
    else:
        nd = tree_node_data
    if (not log_p) or (not num_nodes):
        K = tree.get_number_of_nodes()
        crp = K * self.log_alpha + sum(math.lgamma(len(v)) for k, v in nd.items() if k != tree.outlier_node_name)
    else:
        K = num_nodes
        crp = log_p
    if not multiplicity:
        M = tree.multiplicity
    else:
        M = multiplicity
    return TAIL
""".replace("TAIL", "crp - (K - 1) * np.log(K + 1) - M" if f is lp else "crp - sum(tree.get_number_of_descendants(r) * np.log(tree.get_number_of_descendants(r) + 1) for r in tree.roots) + RTERM - M").replace(
            "RTERM", "(0 if len(tree.roots) == 0 else -((len(tree.roots) - 1) * self._c_const + np.log1p(-np.exp(-self._c_const * len(tree.roots))) - np.log1p(-np.exp(-self._c_const))))"), f)
        same(ctx, "T1", f.name + " with pre-computed CRP part / node count / multiplicity", f, ex.result, sp2.result, "prior with optional arguments")
    # c_const: default 1000, stored as its logarithm
    init = prog.fn("FSCRPDistribution.__init__")
    d = func_defaults(init.node).get("c_const")
    if d is not None and isinstance(d, ast.Name):
        # a literal moved to a module-level constant bound once
        binds = [st.value for st in init.module.tree.body if isinstance(st, ast.Assign) and len(st.targets) == 1 and isinstance(st.targets[0], ast.Name) and st.targets[0].id == d.id]
        stores = [n for n in ast.walk(init.module.tree) if isinstance(n, ast.Name) and n.id == d.id and isinstance(n.ctx, ast.Store)]
        if len(binds) == 1 and len(stores) == 1 and isinstance(binds[0], ast.Constant):
            d = binds[0]
    ctx.check(d is not None and u(d) == "1000", "T1", "FSCRPDistribution.__init__: c_const default is 1000 (the 1/1000 penalty per additional top-level clone)", init.where(), "default penalty constant is %s, the statement's is 1000" % (u(d) if d is not None else "absent"), construct=init.qualname, stmt="c_const default")
    setter = prog.fn("FSCRPDistribution.c_const@setter")
    ex = extract(prog, setter)
    sp = spec(prog, "def s(self, c_const):\n    self._c_const = np.log(c_const)\n", setter)
    same(ctx, "T1", "c_const setter stores log(c_const)", setter, ex.store("_c_const"), sp.store("_c_const"), "self._c_const")
    ex = extract(prog, init)
    sp = spec(prog, "def s(self, alpha, c_const=1000):\n    self._alpha = alpha\n    self.log_alpha = np.log(alpha)\n    self._c_const = np.log(c_const)\n", init)
    for a in ("_alpha", "log_alpha", "_c_const"):
        same(ctx, "T1", "FSCRPDistribution.__init__ stores " + a, init, ex.store(a), sp.store(a), "self." + a)
    asetter = prog.fn("FSCRPDistribution.alpha@setter")
    exa = extract(prog, asetter)
    spa = spec(prog, "def s(self, alpha):\n    self._alpha = alpha\n    self.log_alpha = np.log(alpha)\n", asetter)
    from ..formula import same_store
    same_store(ctx, "T1", "alpha setter stores the concentration", asetter, exa, spa, "_alpha")
    same_store(ctx, "T1", "alpha setter refreshes log_alpha (the CRP term reads it): the density follows the current concentration however the object was built", asetter, exa, spa, "log_alpha")
    # multiplicity = sum over ALL graph nodes (virtual root included) of log(out_degree!)
    m = prog.fn("Tree.multiplicity@getter")
    ex = extract(prog, m)
    sp = spec(prog, "def s(self):\n    import math\n    return sum(math.lgamma(self._graph.out_degree(i) + 1) for i in self._graph.node_indices())\n", m)
    same(ctx, "T1", "Tree.multiplicity = sum over all graph nodes of log(out_degree!)", m, ex.result, sp.result, "multiplicity")
    ctx.analysed(lp, l1, init, setter, m)


def rule_T2(ctx):
    prog = ctx.prog
    ctx.rule("T2", "joint terms: prior + outlier prior + data term (marginal / fixed root) + outlier marginals", 4)
    for name, src in (("log_p", SPEC_JOINT_LOG_P), ("log_p_one", SPEC_JOINT_LOG_P_ONE)):
        f = prog.fn("TreeJointDistribution." + name)
        ex = extract(prog, f)
        sp = spec(prog, src, f)
        same(ctx, "T2", "TreeJointDistribution." + name, f, ex.result, sp.result, "joint " + name)
        ctx.analysed(f)
    op = prog.fn("TreeJointDistribution.outlier_prior")
    ex = extract(prog, op)
    sp = spec(prog, """
def s(tree_node_data, outlier_node_name):
    t = 0
    for node, node_data in tree_node_data.items():
        for dp in node_data:
            if dp.outlier_prob != 0:
                t += dp.outlier_prob if node == outlier_node_name else dp.outlier_prob_not
    return t
""", op)
    same(ctx, "T2", "TreeJointDistribution.outlier_prior", op, ex.result, sp.result, "outlier prior")
    dp = prog.fn("data.base.DataPoint.__init__")
    ex = extract(prog, dp)
    sp = spec(prog, """
def s(self, idx, value, name=None, outlier_prob=0, outlier_prob_not=1):
    lp = -np.log(value.shape[1])
    self.outlier_marginal_prob = np.sum(log_sum_exp(_sub_compute_S(value + lp) + lp, axis=1))
    self.value = value
    self.idx = idx
    self.outlier_prob = outlier_prob
    self.outlier_prob_not = outlier_prob_not
""", dp)
    for a in ("outlier_marginal_prob", "value", "idx", "outlier_prob", "outlier_prob_not"):
        same(ctx, "T2", "DataPoint.__init__: " + a, dp, ex.store(a), sp.store(a), "self." + a)
    ctx.analysed(op, dp)


def rule_T3(ctx):
    prog = ctx.prog
    ctx.rule("T3", "fused computation equals the two separate densities", 3)
    f = prog.fn("TreeJointDistribution.compute_both_log_p_and_log_p_one")
    ex = extract(prog, f)
    sp = spec(prog, SPEC_JOINT_BOTH, f)
    same(ctx, "T3", "TreeJointDistribution.compute_both_log_p_and_log_p_one", f, ex.result, sp.result, "(log_p, log_p_one)")
    g = prog.fn("FSCRPDistribution.compute_both_log_p_and_log_p_one_priors")
    ex = extract(prog, g, kwargs={"tree_node_data": None})
    a = spec(prog, SPEC_PRIOR_LOG_P, g, kwargs=NONE4).result
    b = spec(prog, SPEC_PRIOR_LOG_P_ONE, g, kwargs=NONE4).result
    from ..termflow import ATuple

    same(ctx, "T3", "FSCRPDistribution.compute_both_log_p_and_log_p_one_priors", g, ex.result, ATuple([a, b]), "(prior log_p, prior log_p_one)")
    # sibling agreement: the fused joint pair equals (separate log_p, separate log_p_one) with the prior inlined
    opts = dict(inline=["FSCRPDistribution.log_p", "FSCRPDistribution.log_p_one"])
    ctx.analysed(f, g)
    # holder consumes the fused pair in this order
    setter = prog.fn("TreeHolder.tree@setter")
    exs = extract(prog, setter)
    sps = spec(prog, "def s(self, tree):\n    pair = self._tree_dist.compute_both_log_p_and_log_p_one(tree)\n    self.log_p = pair[0]\n    self.log_p_one = pair[1]\n", setter)
    same(ctx, "T3", "TreeHolder unpacks (log_p, log_p_one) in the order the fused function returns them", setter, ATuple([exs.store("log_p"), exs.store("log_p_one")]), ATuple([sps.store("log_p"), sps.store("log_p_one")]), "holder log_p / log_p_one")


def rule_I1(ctx):
    prog = ctx.prog
    ctx.rule("I1", "tree identity: __eq__ and __hash__ use the same key (clades, outliers); clade visitor; holder/particle identity", 8)
    noin = ["Tree.get_clades", "Tree.outliers"]
    h = prog.fn("Tree.__hash__")
    e = prog.fn("Tree.__eq__")
    exh = extract(prog, h, no_inline=noin)
    sph = spec(prog, "def s(self):\n    return hash((self.get_clades(), frozenset(self.outliers)))\n", h, no_inline=noin)
    same(ctx, "I1", "Tree.__hash__ = hash((clades, frozenset(outliers)))", h, exh.result, sph.result, "hash key")
    exe = extract(prog, e, no_inline=noin)
    spe = spec(prog, "def s(self, other):\n    return (self.get_clades(), frozenset(self.outliers)) == (other.get_clades(), frozenset(other.outliers))\n", e, no_inline=noin)
    same(ctx, "I1", "Tree.__eq__ compares (clades, frozenset(outliers)) of both trees", e, exe.result, spe.result, "equality key")
    gc = prog.fn("Tree.get_clades")
    ex = extract(prog, gc)
    sp = spec(prog, """
def s(self):
    visitor = GraphToCladesVisitor(self)
    rx.dfs_search(self._graph, [self._node_indices[self._ROOT_NODE_NAME]], visitor)
    return frozenset(visitor.clades)
""", gc)
    same(ctx, "I1", "Tree.get_clades: DFS from the virtual root with the clade visitor", gc, ex.result, sp.result, "clades")
    same_events(ctx, "I1", "Tree.get_clades: dfs_search call", gc, ex.calls("rustworkx.dfs_search"), sp.calls("rustworkx.dfs_search"), "dfs_search(graph, [root], visitor)")
    ol = prog.fn("Tree.outliers@getter")
    ex = extract(prog, ol)
    sp = spec(prog, "def s(self):\n    return list(self._data[self._OUTLIER_NODE_NAME])\n", ol)
    same(ctx, "I1", "Tree.outliers reads the outlier entry of the data map", ol, ex.result, sp.result, "outliers")
    # the visitor: own mutations at discovery, parent link on tree edges, merge into parent and record at finish
    V = "GraphToCladesVisitor."
    specs = {
        "discover_vertex": """
def s(self, v, t):
    n = self.node_indices_rev[v]
    self.dict_of_sets[n] = {dp.idx for dp in self.data[n]}
""",
        "tree_edge": """
def s(self, edge):
    self.child_parent_mapping[self.node_indices_rev[edge[1]]] = self.node_indices_rev[edge[0]]
""",
        "finish_vertex": """
def s(self, v, t):
    n = self.node_indices_rev[v]
    if n != self.root_node_name:
        own = self.dict_of_sets[n]
        self.dict_of_sets[self.child_parent_mapping[n]].update(own)
        self.clades.add(frozenset(own))
""",
    }
    for m, src in specs.items():
        f = prog.fn(V + m)
        ex = extract(prog, f)
        sp = spec(prog, src, f)
        evs = lambda x: [ev for ev in x.events if ev.name in ("store_sub", ".update", ".add")]
        same_events(ctx, "I1", V + m, f, evs(ex), evs(sp), "visitor effects", guards=True)
        ctx.analysed(f)
    vinit = prog.fn(V + "__init__")
    ex = extract(prog, vinit)
    sp = spec(prog, "def s(self, tree):\n    self.node_indices_rev = tree._node_indices_rev\n    self.data = tree._data\n    self.root_node_name = tree.root_node_name\n", vinit)
    for a in ("node_indices_rev", "data", "root_node_name"):
        same(ctx, "I1", V + "__init__ reads " + a + " from the tree", vinit, ex.store(a), sp.store(a), "self." + a)
    # holder / particle: hash(tree) assigned in the setter that stores the dictionary form
    ts = prog.fn("TreeHolder.tree@setter")
    ex = extract(prog, ts)
    sp = spec(prog, "def s(self, tree):\n    self._hash_val = hash(tree)\n    self._tree = tree.to_dict()\n", ts)
    same(ctx, "I1", "TreeHolder: _hash_val = hash(tree)", ts, ex.store("_hash_val"), sp.store("_hash_val"), "self._hash_val")
    same(ctx, "I1", "TreeHolder: _tree = tree.to_dict()", ts, ex.store("_tree"), sp.store("_tree"), "self._tree")
    for cls in ("TreeHolder", "Particle"):
        hf = prog.fn(cls + ".__hash__")
        ex = extract(prog, hf)
        sp = spec(prog, "def s(self):\n    return self._hash_val\n", hf)
        same(ctx, "I1", cls + ".__hash__ returns the stored tree hash", hf, ex.result, sp.result, "hash")
        ef = prog.fn(cls + ".__eq__")
        ex = extract(prog, ef)
        sp = spec(prog, "def s(self, other):\n    return self._tree == other._tree\n", ef)
        same(ctx, "I1", cls + ".__eq__ compares the stored trees", ef, ex.result, sp.result, "equality")
    ps = prog.fn("Particle.tree@setter")
    ex = extract(prog, ps)
    sp = spec(prog, "def s(self, tree):\n    if not isinstance(tree, TreeHolder):\n        tree = TreeHolder(tree, self._tree_dist, self._perm_dist)\n    self._hash_val = hash(tree)\n", ps)
    same(ctx, "I1", "Particle: _hash_val = hash(holder)", ps, ex.store("_hash_val"), sp.store("_hash_val"), "self._hash_val")
    ctx.analysed(h, e, gc, ol, ts, ps)


DENSITY_FUNCS = [
    "FSCRPDistribution._alpha_and_CRP_prior_log_p_compute",
    "FSCRPDistribution.log_p",
    "FSCRPDistribution.log_p_one",
    "FSCRPDistribution.compute_both_log_p_and_log_p_one_priors",
    "FSCRPDistribution._compute_z_term",
    "FSCRPDistribution._compute_r_term",
    "TreeJointDistribution.log_p",
    "TreeJointDistribution.log_p_one",
    "TreeJointDistribution.compute_both_log_p_and_log_p_one",
    "TreeJointDistribution.outlier_prior",
]
RNG_METHODS = {".random", ".choice", ".integers", ".multinomial", ".shuffle", ".rvs", ".normal", ".uniform", ".permutation"}
TREE_QUERIES = [
    "Tree.get_number_of_nodes", "Tree.get_number_of_children", "Tree.get_number_of_descendants",
    "Tree.node_data@getter", "Tree.roots@getter", "Tree.multiplicity@getter", "Tree.outliers@getter",
    "Tree.outlier_node_name@getter", "Tree.root_node_name@getter", "Tree.data_log_likelihood@getter",
]
MUTATORS = {"append", "extend", "remove", "update", "add", "discard", "pop", "clear", "sort", "insert", "add_node", "add_edge",
            "remove_edge", "remove_node", "remove_nodes_from", "compose", "extend_from_edge_list", "remove_node_retain_edges"}


def rule_I2(ctx):
    prog = ctx.prog
    ctx.rule("I2", "density functions are pure functions of the tree: no writes, no randomness, no module-level mutable state; the tree queries they use are read-only", 16)
    for name in DENSITY_FUNCS:
        f = prog.fn(name)
        ex = extract(prog, f, max_depth=1)
        bad = []
        for ev in ex.events:
            if ev.name in ("store_attr", "store_sub", "del"):
                bad.append("writes %s" % u(ev.node))
            if ev.name in RNG_METHODS:
                bad.append("draws randomness: %s" % u(ev.node))
            if ev.name.startswith(".") and ev.name[1:] in MUTATORS:
                bad.append("mutating call %s" % u(ev.node))
        for n in ast.walk(f.node):
            if isinstance(n, (ast.Global, ast.Nonlocal)):
                bad.append("declares %s" % u(n))
        ctx.check(not bad, "I2", name + " is side-effect free and deterministic", f.where(), "; ".join(bad), construct=f.qualname, stmt="purity")
        ctx.analysed(f)
    for name in TREE_QUERIES:
        f = prog.fn(name)
        bad = []
        for n in ast.walk(f.node):
            if isinstance(n, (ast.Assign, ast.AugAssign)):
                tg = n.targets if isinstance(n, ast.Assign) else [n.target]
                for t in tg:
                    for x in ast.walk(t):
                        if isinstance(x, ast.Attribute) and isinstance(x.ctx, ast.Store) and u(x.value) == "self":
                            bad.append("writes " + u(x))
                        if isinstance(x, ast.Subscript) and isinstance(x.ctx, ast.Store) and u(x.value).startswith("self."):
                            bad.append("writes " + u(x))
            if isinstance(n, ast.Call) and isinstance(n.func, ast.Attribute) and n.func.attr in MUTATORS and u(n.func.value).startswith("self."):
                bad.append("mutates through " + u(n))
            if isinstance(n, ast.Delete):
                for t in n.targets:
                    if u(t).startswith("self."):
                        bad.append("deletes " + u(t))
        ctx.check(not bad, "I2", name + " is a read-only query", f.where(), "; ".join(bad), construct=f.qualname, stmt="read-only")
        ctx.analysed(f)


# ---------------------------------------------------------------------------------------------- I3
# The densities read the tree's cached vectors (root log_r, node log_p / log_r, a data point's grid): an
# array-valued attribute read hands out the live array, and so does a basic slice of it.  Evaluating a density
# must not write into such a borrowed array - not in the density function and not in a helper it hands the array to.
_ARRAY_ATTRS = {"log_r", "log_p", "value"}
_ALIASING_CALLS = ("ascontiguousarray", "asarray", "reshape", "ravel", "squeeze", "transpose", "view", "atleast_2d", "atleast_1d")


def _array_attrs(prog):
    """Names whose attribute read yields a live array: the payload fields and every property returning one."""
    names = set(_ARRAY_ATTRS)
    changed = True
    while changed:
        changed = False
        for ci in prog.classes.values():
            for pname, kinds in ci.properties.items():
                g = kinds.get("getter")
                if g is None or pname in names:
                    continue
                for n in ast.walk(g.node):
                    if isinstance(n, ast.Return) and n.value is not None:
                        v = n.value
                        while isinstance(v, ast.Subscript):
                            v = v.value
                        if isinstance(v, ast.Attribute) and v.attr in names:
                            names.add(pname)
                            changed = True
    return names


def _borrowed_expr(v, cur, attrs):
    """Is `v` (an expression) a live view of a cached array, given the names in `cur` that already are?"""
    if isinstance(v, ast.Name):
        return v.id in cur
    if isinstance(v, ast.Subscript):
        return _borrowed_expr(v.value, cur, attrs)
    if isinstance(v, ast.Attribute):
        if v.attr == "T":
            return _borrowed_expr(v.value, cur, attrs)
        root = v.value
        while isinstance(root, (ast.Attribute, ast.Subscript)):
            root = root.value
        if isinstance(root, ast.Name) and ("@fresh", root.id) in cur:
            return False  # a field of a record this function has just built (a carrier of scalars), not of the tree
        return v.attr in attrs
    if isinstance(v, ast.Call):
        last = call_name(v).split(".")[-1]
        if last in _ALIASING_CALLS:
            if isinstance(v.func, ast.Attribute) and not call_name(v).startswith(("np.", "numpy.")):
                return _borrowed_expr(v.func.value, cur, attrs)
            return bool(v.args) and _borrowed_expr(v.args[0], cur, attrs)
    if isinstance(v, ast.IfExp):
        return _borrowed_expr(v.body, cur, attrs) or _borrowed_expr(v.orelse, cur, attrs)
    return False


def _borrowed_writes(prog, f, seeds, attrs, depth, seen):
    """In-place writes in `f` (and the helpers it hands arrays to) that reach a borrowed array.

    Statement-ordered walk: a name is borrowed after `name = <borrowed expression>` and fresh after any other
    rebinding; the two arms of a branch are joined by union (borrowed on either arm), a loop body is walked twice."""
    from .C14 import _inplace_targets

    bad = []
    key = (f.qualname, tuple(sorted(seeds)))
    if key in seen:
        return bad
    seen.add(key)

    def simple(node, cur):
        for nm, n, how, rebinding in _inplace_targets(node):
            if nm in cur:
                bad.append((f, n, "%s on `%s`, a live view of one of the tree's cached arrays" % (how, nm)))
        for n in ast.walk(node):
            tg = []
            if isinstance(n, ast.AugAssign):
                tg = [n.target]
            elif isinstance(n, ast.Assign):
                tg = [t for t in n.targets if isinstance(t, ast.Subscript)]
            for t in tg:
                if isinstance(t, ast.Name):
                    continue
                inner = t.value if isinstance(t, ast.Subscript) else t
                if isinstance(n, ast.AugAssign) and isinstance(t, ast.Attribute) and t.attr in attrs:
                    bad.append((f, n, "augmented assignment to the cached array `%s`" % u(t)))
                elif not isinstance(inner, ast.Name) and _borrowed_expr(inner, cur, attrs):
                    bad.append((f, n, "store into `%s`, a live view of one of the tree's cached arrays" % u(t)))
        if depth > 0:
            for c in ast.walk(node):
                if not isinstance(c, ast.Call):
                    continue
                g = None
                shift = 0
                if isinstance(c.func, ast.Name):
                    g = prog.resolve_function(c.func.id, f.module)
                elif isinstance(c.func, ast.Attribute) and isinstance(c.func.value, ast.Name) and c.func.value.id in ("self", "cls") and f.cls is not None:
                    g = prog.method(f.cls, c.func.attr)
                    if g is not None and "staticmethod" not in g.decorators:
                        shift = 1
                if g is None:
                    continue
                params = list(g.params)[shift:]
                sub = set()
                for i, a in enumerate(c.args):
                    if i < len(params) and not isinstance(a, ast.Starred) and _borrowed_expr(a, cur, attrs):
                        sub.add(params[i])
                for kw in c.keywords:
                    if kw.arg in params and _borrowed_expr(kw.value, cur, attrs):
                        sub.add(kw.arg)
                if sub:
                    bad.extend(_borrowed_writes(prog, g, sub, attrs, depth - 1, seen))

    def bind(target, value, cur):
        if isinstance(target, ast.Name):
            # a local bound to the result of a call (other than an aliasing numpy call / an accessor of the tree) holds an
            # object made for this function: a record of scalars, a new array
            made = isinstance(value, ast.Call) and not _borrowed_expr(value, cur, attrs) and not (isinstance(value.func, ast.Attribute) and value.func.attr.startswith("get_"))
            cur.discard(("@fresh", target.id))
            if made:
                cur.add(("@fresh", target.id))
            if value is not None and _borrowed_expr(value, cur, attrs):
                cur.add(target.id)
            else:
                cur.discard(target.id)
        elif isinstance(target, (ast.Tuple, ast.List)):
            vals = value.elts if isinstance(value, (ast.Tuple, ast.List)) and len(value.elts) == len(target.elts) else [None] * len(target.elts)
            for t, v in zip(target.elts, vals):
                bind(t, v, cur)

    def block(stmts, cur):
        for s in stmts:
            if isinstance(s, ast.If):
                simple(s.test, cur)
                a, b = set(cur), set(cur)
                block(s.body, a)
                block(s.orelse, b)
                cur.clear()
                cur.update(a | b)
            elif isinstance(s, (ast.For, ast.While)):
                for _ in range(2):
                    if isinstance(s, ast.For):
                        simple(s.iter, cur)
                        it = s.iter
                        # rows of a borrowed 2-d array are views; enumerate/zip hand the rows on
                        if isinstance(it, ast.Call) and call_name(it) in ("enumerate", "zip", "reversed") and isinstance(s.target, ast.Tuple):
                            offs = 1 if call_name(it) == "enumerate" else 0
                            for k, a in enumerate(it.args):
                                if k + offs < len(s.target.elts):
                                    bind(s.target.elts[k + offs], a, cur)
                        else:
                            bind(s.target, it, cur)
                    else:
                        simple(s.test, cur)
                    block(s.body, cur)
                block(s.orelse, cur)
            elif isinstance(s, ast.With):
                for it in s.items:
                    simple(it.context_expr, cur)
                block(s.body, cur)
            elif isinstance(s, ast.Try):
                block(s.body, cur)
                for h in s.handlers:
                    block(h.body, cur)
                block(s.orelse, cur)
                block(s.finalbody, cur)
            elif isinstance(s, (ast.FunctionDef, ast.AsyncFunctionDef, ast.ClassDef)):
                continue
            else:
                simple(s, cur)
                if isinstance(s, ast.Assign):
                    for t in s.targets:
                        bind(t, s.value, cur)
                elif isinstance(s, ast.AnnAssign) and s.value is not None:
                    bind(s.target, s.value, cur)

    block(f.node.body, set(seeds))
    out, ids = [], set()
    for b in bad:
        if id(b[1]) not in ids:
            ids.add(id(b[1]))
            out.append(b)
    return out


def rule_I3(ctx):
    prog = ctx.prog
    ctx.rule("I3", "evaluating a density never writes into the tree's cached vectors: no in-place operation on an array-valued attribute of the tree / node / data point, on a view of it, or in a helper it is handed to", 10)
    attrs = _array_attrs(prog)
    if "data_log_likelihood" not in attrs and not any(a not in _ARRAY_ATTRS for a in attrs):
        raise AnalysisError("I3: no property of the tree returns a cached array (log_r / log_p / value); the rule would be vacuous")
    for name in DENSITY_FUNCS:
        f = prog.fn(name)
        seen = set()
        bad = _borrowed_writes(prog, f, set(), attrs, 3, seen)
        ctx.check(not bad, "I3", name + " leaves the cached vectors it reads untouched", (bad[0][0].where(bad[0][1]) if bad else f.where()), "; ".join("%s: %s (%s)" % (g.qualname, w, u(n)[:60]) for g, n, w in bad), construct=(bad[0][0].qualname if bad else f.qualname), stmt="in-place write to a borrowed array")
        ctx.analysed(f)


def run(ctx):
    ctx.assume("the specification table is the property statement's formula; that it is 'the' FS-CRP is not decided")
    ctx.assume("rustworkx dfs_search visits every vertex reachable from the root and calls discover/tree_edge/finish as documented")
    ctx.soft(rule_T1)
    ctx.soft(rule_T2)
    ctx.soft(rule_T3)
    ctx.soft(rule_I1)
    ctx.soft(rule_I2)
    ctx.soft(rule_I3)
    # the tree queries the densities read (number of clones, top-level clones, descendants, per-clone data,
    # outliers, multiplicity, root likelihood vector) against the reference semantics of the editor
    from ._treespec import rule_TS

    ctx.soft(rule_TS, owners=["tree.Tree"])
    # the outlier prior terms the density adds up are the data points' (log p, log(1 - p)) x cluster size, computed at
    # load time (same rule object as C05.E4)
    from ..formula import imported
    from . import C05

    ctx._own_rules = set(ctx.rule_min)
    imported(ctx, C05.rule_E4)
    imported(ctx, C05.rule_E6)  # ... x cluster size: the size is the number of *mutations* of the cluster (table de-duplicated on per-mutation columns)
    # "depends only on the tree": the likelihood terms it reads come from memoised recursions whose keys must hold
    # every child array with its multiplicity (same rule objects as C14.K2-K4 / K6)
    from . import _premises

    _premises.caches(ctx)


_D = "phyclone/tree/distributions.py"
_T = "phyclone/tree/tree.py"
_V = "phyclone/tree/visitors.py"
SELFTEST = [
    {"name": "T1-log-K-not-K+1", "kind": "break", "rule": "T1", "file": _D, "old": "log_p -= (num_nodes - 1) * np.log(num_nodes + 1)", "new": "log_p -= (num_nodes - 1) * np.log(num_nodes)"},
    {"name": "T1-drop-multiplicity-in-log_p_one", "kind": "break", "rule": "T1", "file": _D, "old": "        log_p += -num_ways + r_term\n\n        log_p -= multiplicity\n", "new": "        log_p += -num_ways + r_term\n"},
    {"name": "T1-c_const-100", "kind": "break", "rule": "T1", "file": _D, "old": "def __init__(self, alpha, c_const=1000):", "new": "def __init__(self, alpha, c_const=100):"},
    {"name": "T1-crp-size-not-size-1", "kind": "break", "rule": "T1", "file": _D, "old": "cached_log_factorial(len(v) - 1)", "new": "cached_log_factorial(len(v))"},
    {"name": "T1-crp-counts-outliers", "kind": "break", "rule": "T1", "file": _D, "old": " for k, v in tree_node_data.items() if k != outlier_node_name)", "new": " for k, v in tree_node_data.items())"},
    {"name": "T1-subtree-term-m-log-m", "kind": "break", "rule": "T1", "file": _D, "old": "num_sub_trees = (curr_num_nodes - 1) * np.log(curr_num_nodes)", "new": "num_sub_trees = curr_num_nodes * np.log(curr_num_nodes)"},
    {"name": "T1-r-term-R-not-R-1", "kind": "break", "rule": "T1", "file": _D, "old": "return np.log(1) - (z_term + (log_const * (num_roots - 1)))", "new": "return np.log(1) - (z_term + (log_const * num_roots))"},
    {"name": "T1-z-term-sign", "kind": "break", "rule": "T1", "file": _D, "old": "res = a_term + (r_term_numerator - r_term_denominator)", "new": "res = a_term + (r_term_denominator - r_term_numerator)"},
    {"name": "T1-setter-no-log", "kind": "break", "rule": "T1", "file": _D, "old": "self._c_const = np.log(c_const)", "new": "self._c_const = c_const"},
    {"name": "T1-multiplicity-in-degree", "kind": "break", "rule": "T1", "file": _T, "old": "map(self._graph.out_degree, self._graph.node_indices())", "new": "map(self._graph.in_degree, self._graph.node_indices())"},
    {"name": "T2-fixed-root-reads-first-column", "kind": "break", "rule": "T2", "file": _D, "old": "            for i in range(tree.grid_size[0]):\n                log_p += tree.data_log_likelihood[i, -1]\n\n        for data_point in tree.outliers:\n            log_p += data_point.outlier_marginal_prob\n\n        return log_p\n\n    def compute_both", "new": "            for i in range(tree.grid_size[0]):\n                log_p += tree.data_log_likelihood[i, 0]\n\n        for data_point in tree.outliers:\n            log_p += data_point.outlier_marginal_prob\n\n        return log_p\n\n    def compute_both"},
    {"name": "T2-outlier-prior-arms-swapped", "kind": "break", "rule": "T2", "file": _D, "old": "                    if node == outlier_node_name:\n                        log_p += data_point.outlier_prob\n", "new": "                    if node != outlier_node_name:\n                        log_p += data_point.outlier_prob\n"},
    {"name": "T2-marginal-prior-uses-samples-axis", "kind": "break", "rule": "T2", "file": "phyclone/data/base.py", "old": "log_prior = -np.log(value.shape[1])", "new": "log_prior = -np.log(value.shape[0])"},
    {"name": "T2-marginal-drops-second-prior", "kind": "break", "rule": "T2", "file": "phyclone/data/base.py", "old": "log_sum_exp(sub_comp + log_prior, axis=1)", "new": "log_sum_exp(sub_comp, axis=1)"},
    {"name": "T3-fused-misses-outlier-marginal", "kind": "break", "rule": "T3", "file": _D, "old": "            log_p += data_point.outlier_marginal_prob\n            log_p_one += data_point.outlier_marginal_prob\n", "new": "            log_p += data_point.outlier_marginal_prob\n"},
    {"name": "T3-holder-swaps-pair", "kind": "break", "rule": "T3", "file": "phyclone/smc/swarm/tree_holder.py", "old": "self.log_p, self.log_p_one = self._tree_dist.compute_both_log_p_and_log_p_one(tree)", "new": "self.log_p_one, self.log_p = self._tree_dist.compute_both_log_p_and_log_p_one(tree)"},
    {"name": "T3-fused-prior-swapped-helpers", "kind": "break", "rule": "T3", "file": _D, "old": "        log_p = self.log_p(tree, tree_node_data, log_p, num_nodes, multiplicity)\n\n        log_p_one = self.log_p_one(tree, tree_node_data, log_p_one, num_nodes, multiplicity)", "new": "        log_p = self.log_p_one(tree, tree_node_data, log_p, num_nodes, multiplicity)\n\n        log_p_one = self.log_p(tree, tree_node_data, log_p_one, num_nodes, multiplicity)"},
    {"name": "I3-fixed-root-shifts-live-root-vector", "kind": "break", "rule": "I3", "file": _D, "old": "            for i in range(tree.grid_size[0]):\n                log_p += tree.data_log_likelihood[i, -1]\n\n        for data_point in tree.outliers:\n            log_p += data_point.outlier_marginal_prob\n\n        return log_p\n\n    def compute_both", "new": "            ll = tree.data_log_likelihood\n            ll -= 0.0\n            for i in range(tree.grid_size[0]):\n                log_p += ll[i, -1]\n\n        for data_point in tree.outliers:\n            log_p += data_point.outlier_marginal_prob\n\n        return log_p\n\n    def compute_both"},
    {"name": "I3-row-view-normalised-in-place", "kind": "break", "rule": "I3", "file": _D, "old": "            for i in range(tree.grid_size[0]):\n                log_p += log_sum_exp(tree.data_log_likelihood[i, :])\n\n        for data_point in tree.outliers:\n            log_p += data_point.outlier_marginal_prob\n\n        return log_p\n\n    def log_p_one", "new": "            for i in range(tree.grid_size[0]):\n                row = tree.data_log_likelihood[i, :]\n                np.subtract(row, 0.0, out=row)\n                log_p += log_sum_exp(row)\n\n        for data_point in tree.outliers:\n            log_p += data_point.outlier_marginal_prob\n\n        return log_p\n\n    def log_p_one"},
    {"name": "benign-row-copied-before-shift", "kind": "benign", "file": _D, "old": "            for i in range(tree.grid_size[0]):\n                log_p += log_sum_exp(tree.data_log_likelihood[i, :])\n\n        for data_point in tree.outliers:\n            log_p += data_point.outlier_marginal_prob\n\n        return log_p\n\n    def log_p_one", "new": "            for i in range(tree.grid_size[0]):\n                row = tree.data_log_likelihood[i, :]\n                row = row + 0.0\n                row -= 0.0\n                log_p += log_sum_exp(row)\n\n        for data_point in tree.outliers:\n            log_p += data_point.outlier_marginal_prob\n\n        return log_p\n\n    def log_p_one"},
    {"name": "I1-hash-without-outliers", "kind": "break", "rule": "I1", "file": _T, "old": "        return hash((self.get_clades(), frozenset(self.outliers)))", "new": "        return hash(self.get_clades())"},
    {"name": "I1-eq-ignores-other-outliers", "kind": "break", "rule": "I1", "file": _T, "old": "other_key = (other.get_clades(), frozenset(other.outliers))", "new": "other_key = (other.get_clades(), frozenset(self.outliers))"},
    {"name": "I1-visitor-no-merge-into-parent", "kind": "break", "rule": "I1", "file": _V, "old": "            self.dict_of_sets[parent_idx].update(datalist)\n            self.clades.add(frozenset(datalist))", "new": "            self.clades.add(frozenset(datalist))"},
    {"name": "I1-visitor-records-root", "kind": "break", "rule": "I1", "file": _V, "old": "        if node_idx != self.root_node_name:\n            parent_idx = self.child_parent_mapping[node_idx]\n            datalist = self.dict_of_sets[node_idx]\n\n            self.dict_of_sets[parent_idx].update(datalist)", "new": "        if True:\n            parent_idx = self.child_parent_mapping.get(node_idx, node_idx)\n            datalist = self.dict_of_sets[node_idx]\n\n            self.dict_of_sets[parent_idx].update(datalist)"},
    {"name": "I1-holder-hash-constant", "kind": "break", "rule": "I1", "file": "phyclone/smc/swarm/tree_holder.py", "old": "        self._hash_val = hash(tree)\n        self._tree = tree.to_dict()", "new": "        self._hash_val = hash(tree.grid_size)\n        self._tree = tree.to_dict()"},
    {"name": "I2-outlier-prior-mutates-argument", "kind": "break", "rule": "I2", "file": _D, "old": "    def outlier_prior(tree_node_data, outlier_node_name):\n        log_p = 0\n", "new": "    def outlier_prior(tree_node_data, outlier_node_name):\n        log_p = 0\n        tree_node_data.pop(None, None)\n"},
    {"name": "I2-query-with-side-effect", "kind": "break", "rule": "I2", "file": _T, "old": "    def get_number_of_nodes(self):\n        return self._graph.num_nodes() - 1", "new": "    def get_number_of_nodes(self):\n        self._last_node_added_to = None\n        return self._graph.num_nodes() - 1"},
    {"name": "benign-single-statement", "kind": "benign", "file": _D, "old": "        log_p -= (num_nodes - 1) * np.log(num_nodes + 1)\n\n        log_p -= multiplicity\n", "new": "        log_p = log_p - multiplicity - np.log(1 + num_nodes) * (num_nodes - 1)\n"},
    {"name": "benign-rename-loop-var", "kind": "benign", "file": _D, "old": "        for root in tree_roots:\n            curr_num_nodes = tree.get_number_of_descendants(root) + 1", "new": "        for top in tree_roots:\n            curr_num_nodes = 1 + tree.get_number_of_descendants(top)"},
    {"name": "benign-loop-for-generator", "kind": "benign", "file": _D, "old": "        log_p += sum(cached_log_factorial(len(v) - 1) for k, v in tree_node_data.items() if k != outlier_node_name)\n", "new": "        for name, members in tree_node_data.items():\n            if name == outlier_node_name:\n                continue\n            log_p += cached_log_factorial(len(members) - 1)\n"},
    {"name": "benign-outlier-prior-conditional-expr", "kind": "benign", "file": _D, "old": "                    if node == outlier_node_name:\n                        log_p += data_point.outlier_prob\n\n                    else:\n                        log_p += data_point.outlier_prob_not", "new": "                    log_p += data_point.outlier_prob if node == outlier_node_name else data_point.outlier_prob_not"},
    {"name": "benign-eq-direct-return", "kind": "benign", "file": _T, "old": "        self_key = (self.get_clades(), frozenset(self.outliers))\n\n        other_key = (other.get_clades(), frozenset(other.outliers))\n\n        return self_key == other_key", "new": "        return (other.get_clades(), frozenset(other.outliers)) == (self.get_clades(), frozenset(self.outliers))"},
    {"name": "TS-number-of-clones-counts-root", "kind": "break", "rule": "TS", "file": "phyclone/tree/tree.py", "old": "        return self._graph.num_nodes() - 1", "new": "        return self._graph.num_nodes()"},
    {"name": "TS-roots-are-all-nodes", "kind": "break", "rule": "TS", "file": "phyclone/tree/tree.py", "old": "        node_idx = self._node_indices[self._ROOT_NODE_NAME]\n        return [child.node_id for child in self._graph.successors(node_idx)]\n\n    @classmethod", "new": "        node_idx = self._node_indices[self._ROOT_NODE_NAME]\n        return [child.node_id for child in self._graph.nodes() if child.node_id != self._ROOT_NODE_NAME]\n\n    @classmethod"},
]
