"""C09 — data orders are drawn uniformly from the orders compatible with the tree.

Decided: the sampler's random primitives (shuffle, bridge-shuffle interleaving) and the counting
terms of log_count are those of the statement, arm by arm (so every shuffle has its factorial and
every interleaving its multinomial), descendants come first, the bridge shuffle pops from the front
of the list its sentinel names, log_pdf = -log_count, subtree sizes and the outlier count.
NOT decided: uniformity as a probabilistic fact (follows given a uniform Generator.shuffle).
"""
from ..formula import extract, same, same_events, spec

NOIN = ["interleave_lists", "RootPermutationDistribution.log_count", "RootPermutationDistribution.sample"]

SPEC_LOG_COUNT = """
def s(tree, source=None):
    import math
    if source is None:
        rec = sum(RootPermutationDistribution.log_count(tree, source=r) for r in tree.roots)
        sizes = [tree.get_subtree_data_len(r) for r in tree.roots]
        n = len(tree.data)
        o = len(tree.outliers)
        # interleavings of the outliers with the tree order, times the orders of the outliers themselves
        own = math.lgamma(n + 1) - math.lgamma(o + 1) - math.lgamma(n - o + 1) + math.lgamma(o + 1)
    else:
        rec = sum(RootPermutationDistribution.log_count(tree, source=c) for c in tree.get_children(source))
        sizes = [tree.get_subtree_data_len(c) for c in tree.get_children(source)]
        own = math.lgamma(tree.get_data_len(source) + 1)
    # number of interleavings of the children's orders (0 for no child; the helper itself is specified in C05.M)
    interleavings = log_multinomial_coefficient(sizes)
    return rec + interleavings + own
"""

SPEC_SAMPLE = """
def s(tree, rng, source=None):
    if source is None:
        parts = [RootPermutationDistribution.sample(tree, rng, source=r) for r in tree.roots]
        sigma = interleave_lists(parts, rng)
        out = list(tree.outliers)
        rng.shuffle(out)
        return interleave_lists([sigma, out], rng)
    else:
        parts = [RootPermutationDistribution.sample(tree, rng, source=c) for c in tree.get_children(source)]
        sigma = interleave_lists(parts, rng)
        own = tree.get_data(source)
        rng.shuffle(own)
        sigma.extend(own)
        return sigma
"""

SPEC_INTERLEAVE = """
def s(lists, rng):
    sentinels = []
    for i, l in enumerate(lists):
        sentinels.extend(repeat(i, len(l)))
    rng.shuffle(sentinels)
    return [lists[k].pop(0) for k in sentinels]
"""


def run(ctx):
    ctx.assume("numpy Generator.shuffle is a uniform permutation")
    ctx.soft(rule_P)


def rule_P(ctx):
    """P1-P4 as one rule object (imported by C01: the order of the conditional path is drawn from, and scored
    with, this distribution)."""
    prog = ctx.prog
    # the counting terms are built from log_factorial / log_binomial_coefficient / log_multinomial_coefficient
    # (same rule object as C05.E2 / M; runs wherever P1-P4 run)
    from ..formula import imported
    from . import C05

    if getattr(ctx, "_own_rules", None) is None:
        ctx._own_rules = {"P1", "P2", "P3", "P4"} | set(ctx.rule_min)
    imported(ctx, C05.rule_E2_M)
    # the order sampler pops the lists it interleaves: the lists the tree hands it must be copies (same rule object as
    # C07.Q1), or drawing an order edits the tree and the next draw sees another tree
    from . import C07 as _C07

    if "Q1" not in ctx.rule_min:
        imported(ctx, _C07.rule_Q1)
    ctx.rule("P1", "sampler primitives pair with counting terms: shuffle(L) <-> log(len L)!, interleave <-> multinomial / binomial, sizes from the same collections", 3)
    ctx.rule("P2", "descendants first: own data appended after the interleaving of the children's orders; all children / roots; outliers interleaved once at top level", 2)
    ctx.rule("P3", "bridge shuffle: sentinel i repeated len(lists[i]) times, shuffled by the passed generator, elements popped from the front", 2)
    ctx.rule("P4", "log_pdf = -log_count; subtree size = own + all descendants; tree.data counts outliers", 3)

    lc = prog.fn("RootPermutationDistribution.log_count")
    ex = extract(prog, lc, no_inline=NOIN)
    sp = spec(prog, SPEC_LOG_COUNT, lc, no_inline=NOIN)
    same(ctx, "P1", "RootPermutationDistribution.log_count (both arms)", lc, ex.result, sp.result, "log number of compatible orders")

    sm = prog.fn("RootPermutationDistribution.sample")
    ex = extract(prog, sm, no_inline=NOIN)
    sp = spec(prog, SPEC_SAMPLE, sm, no_inline=NOIN)
    same_events(ctx, "P1", "RootPermutationDistribution.sample: shuffles", sm, ex.calls(".shuffle"), sp.calls(".shuffle"), "rng.shuffle calls")
    same_events(ctx, "P1", "RootPermutationDistribution.sample: interleavings", sm, ex.calls("interleave_lists"), sp.calls("interleave_lists"), "interleave_lists calls")
    same(ctx, "P2", "RootPermutationDistribution.sample: order returned (descendants first, outliers interleaved at top level)", sm, ex.result, sp.result, "sigma")
    same_events(ctx, "P2", "RootPermutationDistribution.sample: recursion over all roots / all children", sm, ex.calls("RootPermutationDistribution.sample"), sp.calls("RootPermutationDistribution.sample"), "recursive calls")

    il = prog.fn("smc.utils.interleave_lists")
    ex = extract(prog, il)
    sp = spec(prog, SPEC_INTERLEAVE, il)
    same(ctx, "P3", "interleave_lists: result pops the front of the list each sentinel names", il, ex.result, sp.result, "interleaved list")
    same_events(ctx, "P3", "interleave_lists: sentinel vector shuffled by the passed generator", il, ex.calls(".shuffle"), sp.calls(".shuffle"), "rng.shuffle(sentinels)")
    same_events(ctx, "P3", "interleave_lists: pops", il, ex.calls(".pop"), sp.calls(".pop"), "pop(0) calls")
    # how often each sentinel is repeated: the counting domains of the shuffled vector (range(n) per input list)
    from ..termflow import AList, Valuation, key_atom, poly_from_key, show, _is_polykey

    def counts(e):
        evs = e.calls(".shuffle")
        if len(evs) != 1 or not evs[0].args or not isinstance(evs[0].args[0], AList):
            return None
        out = []
        for d in evs[0].args[0].doms:
            a = key_atom(d) if isinstance(d, tuple) else None
            if a is not None and a[0] == "call" and a[1] == "range" and a[2]:
                out.append(a[2][-1] if len(a[2]) <= 2 else None)
        return out

    gc, wc = counts(ex), counts(sp)
    if gc is not None and wc is not None and None not in gc + wc:
        v = Valuation(3, salt="s0")
        img = lambda ks: sorted(repr(v.image(k)) for k in ks)
        ctx.check(img(gc) == img(wc), "P3", "interleave_lists: sentinel i occurs len(lists[i]) times", il.where(), "the sentinel of a list is repeated %s times; it must occur once per element of that list (%s)" % ([show(poly_from_key(k)) if _is_polykey(k) else str(k) for k in gc], [show(poly_from_key(k)) if _is_polykey(k) else str(k) for k in wc]), construct=il.qualname, stmt="sentinel multiplicity")

    pdf = prog.fn("RootPermutationDistribution.log_pdf")
    ex = extract(prog, pdf, no_inline=NOIN)
    sp = spec(prog, "def s(tree):\n    return -RootPermutationDistribution.log_count(tree)\n", pdf, no_inline=NOIN)
    same(ctx, "P4", "RootPermutationDistribution.log_pdf = -log_count", pdf, ex.result, sp.result, "log density")
    sl = prog.fn("Tree.get_subtree_data_len")
    ex = extract(prog, sl, opaque_self_methods={"get_data_len", "get_descendants"})
    sp = spec(prog, "def s(self, node):\n    return self.get_data_len(node) + sum(self.get_data_len(d) for d in self.get_descendants(node))\n", sl, opaque_self_methods={"get_data_len", "get_descendants"})
    same(ctx, "P4", "Tree.get_subtree_data_len = own + all descendants", sl, ex.result, sp.result, "subtree size")
    dl = prog.fn("Tree.get_data_len")
    ex = extract(prog, dl)
    sp = spec(prog, "def s(self, node):\n    return len(self._data[node])\n", dl)
    same(ctx, "P4", "Tree.get_data_len", dl, ex.result, sp.result, "clone size")
    gd = prog.fn("Tree.get_data")
    ex = extract(prog, gd)
    sp = spec(prog, "def s(self, node):\n    return list(self._data[node])\n", gd)
    same(ctx, "P4", "Tree.get_data returns the clone's own points (a fresh list: it is shuffled in place)", gd, ex.result, sp.result, "clone data")
    import ast as _ast
    from ..astutil import u

    fresh = any(isinstance(n, _ast.Return) and isinstance(n.value, _ast.Call) and u(n.value.func) in ("list", "sorted") for n in _ast.walk(gd.node))
    ctx.check(fresh, "P4", "Tree.get_data hands out a fresh list", gd.where(), "get_data returns the stored list itself; RootPermutationDistribution.sample shuffles it in place and would reorder the tree's own data", construct=gd.qualname, stmt="return list(...)")
    td = prog.fn("Tree.data@getter")
    ex = extract(prog, td)
    sp = spec(prog, "def s(self):\n    return sorted(chain.from_iterable(self._data.values()), key=lambda d: d.idx)\n", td)
    same(ctx, "P4", "Tree.data ranges over every entry of the data map (outliers included)", td, ex.result, sp.result, "all data points")
    gdesc = prog.fn("Tree.get_descendants")
    ex = extract(prog, gdesc)
    sp = spec(prog, """
def s(self, source=None):
    if source is None:
        source = self._ROOT_NODE_NAME
    return [self._graph[c].node_id for c in rx.descendants(self._graph, self._node_indices[source])]
""", gdesc)
    same(ctx, "P4", "Tree.get_descendants = names of all rustworkx descendants", gdesc, ex.result, sp.result, "descendants")
    ctx.analysed(lc, sm, il, pdf, sl, dl, gd, td, gdesc)


_U = "phyclone/smc/utils.py"
_T = "phyclone/tree/tree.py"
SELFTEST = [
    {"name": "P1-revert-F3", "kind": "break", "rule": "P1", "file": _U, "old": "            # Permute the outliers\n            count += log_factorial(num_outlier_data_points)\n", "new": ""},
    {"name": "P1-drop-multinomial-children", "kind": "break", "rule": "P1", "file": _U, "old": "            # Bridge shuffle\n            count += log_multinomial_coefficient(subtree_sizes)\n", "new": ""},
    {"name": "P1-drop-own-factorial", "kind": "break", "rule": "P1", "file": _U, "old": "            count += log_factorial(tree.get_data_len(source))", "new": "            count += 0"},
    {"name": "P1-binomial-over-tree-points-only", "kind": "break", "rule": "P1", "file": _U, "old": "num_data_points = len(tree.data)", "new": "num_data_points = len(tree.data) - len(tree.outliers)"},
    {"name": "P1-sizes-own-not-subtree", "kind": "break", "rule": "P1", "file": _U, "old": "                subtree_sizes.append(tree.get_subtree_data_len(child))", "new": "                subtree_sizes.append(tree.get_data_len(child))"},
    {"name": "P1-outliers-not-shuffled", "kind": "break", "rule": "P1", "file": _U, "old": "            rng.shuffle(outliers)\n", "new": ""},
    {"name": "P1-own-data-not-shuffled", "kind": "break", "rule": "P1", "file": _U, "old": "            rng.shuffle(source_sigma)\n", "new": ""},
    {"name": "P2-own-data-first", "kind": "break", "rule": "P2", "file": _U, "old": "            sigma.extend(source_sigma)", "new": "            sigma = source_sigma + sigma"},
    {"name": "P2-outliers-appended-not-interleaved", "kind": "break", "rule": ["P1", "P2"], "file": _U, "old": "            sigma = interleave_lists([sigma, outliers], rng)", "new": "            sigma = sigma + outliers"},
    {"name": "P2-skip-first-child", "kind": "break", "rule": ["P1", "P2"], "file": _U, "old": "            for child in children:\n                child_sigma.append(", "new": "            for child in children[1:]:\n                child_sigma.append("},
    {"name": "P3-pop-from-back", "kind": "break", "rule": "P3", "file": _U, "old": "result = [lists[idx].pop(0) for idx in sentinels]", "new": "result = [lists[idx].pop() for idx in sentinels]"},
    {"name": "P3-sentinel-once", "kind": "break", "rule": "P3", "file": _U, "old": "sentinels.extend(repeat(i, len(l)))", "new": "sentinels.extend(repeat(i, 1))"},
    {"name": "P3-sentinels-not-shuffled", "kind": "break", "rule": "P3", "file": _U, "old": "    rng.shuffle(sentinels)\n", "new": "    sentinels.sort()\n"},
    {"name": "P4-log_pdf-sign", "kind": "break", "rule": "P4", "file": _U, "old": "return -RootPermutationDistribution.log_count(tree)", "new": "return RootPermutationDistribution.log_count(tree)"},
    {"name": "P4-subtree-len-children-only", "kind": "break", "rule": "P4", "file": _T, "old": "        for desc in self.get_descendants(node):\n            data_len += self.get_data_len(desc)", "new": "        for desc in self.get_children(node):\n            data_len += self.get_data_len(desc)"},
    {"name": "P4-get_data-aliases-store", "kind": "break", "rule": "P4", "file": _T, "old": "    def get_data(self, node):\n        return list(self._data[node])", "new": "    def get_data(self, node):\n        return self._data[node]"},
    {"name": "benign-comprehension-log_count", "kind": "benign", "file": _U, "old": "            for child in children:\n                count += RootPermutationDistribution.log_count(tree, source=child)\n\n                subtree_sizes.append(tree.get_subtree_data_len(child))", "new": "            count += sum(RootPermutationDistribution.log_count(tree, source=c) for c in children)\n            subtree_sizes = [tree.get_subtree_data_len(c) for c in children]"},
    {"name": "benign-rename-sigma", "kind": "benign", "file": _U, "old": "            source_sigma = tree.get_data(source)\n\n            rng.shuffle(source_sigma)\n\n            sigma.extend(source_sigma)", "new": "            own = tree.get_data(source)\n\n            rng.shuffle(own)\n\n            sigma.extend(own)"},
    {"name": "benign-reorder-count-terms", "kind": "benign", "file": _U, "old": "            count += log_binomial_coefficient(num_data_points, num_outlier_data_points)\n\n            # Permute the outliers\n            count += log_factorial(num_outlier_data_points)", "new": "            count += log_factorial(num_outlier_data_points)\n            count = count + log_binomial_coefficient(num_data_points, num_outlier_data_points)"},
    {"name": "benign-binomial-as-factorials", "kind": "benign", "file": _U, "old": "            count += log_binomial_coefficient(num_data_points, num_outlier_data_points)\n", "new": "            count += log_factorial(num_data_points) - log_factorial(num_outlier_data_points) - log_factorial(num_data_points - num_outlier_data_points)\n"},
]
