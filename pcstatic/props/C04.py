"""C04 — data-point, prune-regraft and subtree moves preserve the same posterior.

A Gibbs move over a finite candidate family is invariant exactly when the family is the same from
every member state and the selection weights are proportional to the target.  Decided: the Gibbs
weights are log_p_one of each candidate and nothing else, the candidate families (each clone + the
outlier set iff enabled; each remaining node + the virtual root) built on copies, the scope of the
"would empty a clone" guard, faithful selection (index and candidate list agree), the order of the
subtree-PG weight correction, and that a move which consumes its argument has its result rebound.
NOT decided: whether the subtree move needs a term for the random choice of the subtree (the authors'
own TODO); irreducibility; numerics.
"""
import ast

from ..astutil import calls, call_name, u
from ..formula import extract, same, same_events, spec
from ..model import AnalysisError

CI = dict(copy_is_identity=False)

SPEC_DP_INNER = """
def s(self, data_idx, tree, old_node):
    dp = tree.data[data_idx]
    cands = []
    for node in tree.nodes:
        t = tree.copy()
        t.remove_data_point_from_node(dp, old_node)
        t.add_data_point_to_node(dp, node)
        cands.append(t)
    if self.outliers:
        t = tree.copy()
        t.remove_data_point_from_node(dp, old_node)
        t.add_data_point_to_outliers(dp)
        cands.append(t)
    w = np.array([self.tree_dist.log_p_one(x) for x in cands])
    p = np.exp(w - log_sum_exp(w))
    p = p / sum(p)
    return cands[self._rng.multinomial(1, p).argmax()]
"""

SPEC_DP_OUTER = """
def s(self, tree):
    labels = tree.labels
    idxs = list(labels.keys())
    self._rng.shuffle(idxs)
    for i in idxs:
        old = labels[i]
        # a move may not empty a clone; the outlier set may become empty
        if old == tree.outlier_node_name or tree.get_data_len(old) > 1:
            tree = self._sample_tree(i, tree, old)
            labels = tree.labels
    return tree
"""

SPEC_PRG = """
def s(self, tree):
    if tree.get_number_of_nodes() <= 1:
        return tree
    pruned = tree.copy()
    subtree = pruned.get_subtree(self._rng.choice(pruned.nodes))
    pruned.remove_subtree(subtree)
    remaining = pruned.nodes
    if len(remaining) == 0:
        return tree
    cands = []
    for parent in remaining + [None]:
        t = pruned.copy()
        t.add_subtree(subtree, parent=parent)
        t.update()
        cands.append(t)
    w = np.array([self.tree_dist.log_p_one(x) for x in cands])
    p = np.exp(w - log_sum_exp(w))
    p = p / sum(p)
    return cands[self._rng.multinomial(1, p).argmax()]
"""

SPEC_CORRECT = """
def s(self, parent, swarm, tree):
    new_swarm = ParticleSwarm()
    for p, w in zip(swarm.particles, swarm.unnormalized_log_weights):
        subtree = p.tree
        before = p.log_p_one
        full = tree.copy()
        full.add_subtree(subtree, parent=parent)
        for dp in subtree.outliers:
            full.add_data_point_to_outliers(dp)
        full.update()
        p.tree = full
        new_swarm.add_particle(w - before + p.log_p_one, p)
    return new_swarm
"""

SPEC_SUBTREE = """
def s(self, tree):
    nodes = [label for label in tree.labels.values() if label != tree.outlier_node_name]
    if len(nodes) == 0:
        return self._sample_tree_from_swarm(self.sample_swarm(tree))
    child = self._rng.choice(nodes)
    subtree_root = tree.get_parent(child)
    parent = tree.get_parent(subtree_root)
    subtree = tree.get_subtree(subtree_root)
    tree.remove_subtree(subtree)
    for dp in tree.outliers:
        tree.remove_data_point_from_outliers(dp)
        subtree.add_data_point_to_outliers(dp)
    swarm = self._correct_weights(parent, self.sample_swarm(subtree), tree)
    return self._sample_tree_from_swarm(swarm)
"""


def _selection(ctx, rule_w, rule_sel, f, ex, label):
    """G1: the vector handed to multinomial is the normalised exp of [log_p_one(candidate)] and nothing
    else.  G4: the returned tree is the candidate at the drawn index of that same list."""
    prog = ctx.prog
    from ..termflow import AList, Poly, key_atom, show, vkey

    lp = [e for e in ex.events if e.name == ".log_p_one"]
    mn = [e for e in ex.events if e.name == ".multinomial"]
    if not mn or not lp:
        used = sorted({e.name for e in ex.events if e.recv is not None and show(e.recv) == "P0.tree_dist"})
        ctx.fail(rule_w, label + ": Gibbs weights", f.where(), "the candidates are not weighted by tree_dist.log_p_one (the density the trace records); density calls found: %s" % (used or "none"), construct=f.qualname, stmt="Gibbs weights")
        return
    # group the log_p_one events by the guards of the multinomial they feed (branches give one draw each)
    for m in mn:
        from ..termflow import TRUE, g_and, g_not, make_cond

        # a candidate evaluated under a test the draw is not under (`nodes + [outliers] if enabled else nodes` in one
        # comprehension) is an entry that is present under that test; one evaluated under the opposite of a test
        # the draw is under belongs to the other branch
        cands = []
        for e in lp:
            extra = [g for g in e.guards if g not in m.guards]
            if any(g_not(g) in m.guards for g in extra):
                continue
            cands.append((e, extra))
        # keep the last evaluation per candidate position (branches re-evaluate the shared prefix)
        seen, uniq, items = set(), [], []
        for e, extra in cands:
            k = vkey(e.args[0])
            if k not in seen:
                seen.add(k)
                uniq.append(e)
                atom = Poly.atom(("mcall", "log_p_one", vkey(e.recv), (vkey(e.args[0]),), ()))
                items.append(atom if not extra else make_cond([(g_and(extra), atom), (TRUE, Poly.atom(("absent",)))]))
        W = AList(items)
        want = spec(prog, "def s(self, W):\n    p = np.exp(W - log_sum_exp(W))\n    return p / sum(p)\n", f, args=[None, W]).result
        ok_recv = all(show(e.recv) == "P0.tree_dist" for e in uniq)
        ctx.check(ok_recv, rule_w, label + ": every weight is evaluated with the sampler's own tree_dist", f.where(), "a candidate is weighted by a different density object", construct=f.qualname, stmt="tree_dist.log_p_one")
        same(ctx, rule_w, label + ": multinomial(1, normalise(exp([log_p_one(candidate)]))) — %d candidates" % len(uniq), f, m.args[1], want, "selection probabilities", stmt="Gibbs weights")
        one = m.args[0]
        ctx.check(isinstance(one, Poly) and one.is_const() and one.const_value() == 1, rule_sel, label + ": a single draw", f.where(), "multinomial is not drawn once", construct=f.qualname, stmt="multinomial(1, …)")


def rule_G(ctx):
    prog = ctx.prog
    ctx.rule("G1", "Gibbs weights are the target density log_p_one of each candidate and nothing else", 4)
    ctx.rule("G2", "candidate family is closed and state-independent, each candidate built on a copy", 2)
    ctx.rule("G3", "the 'would empty a clone' skip protects clones only; scan over all data points in shuffled order", 1)
    ctx.rule("G4", "faithful selection: the returned tree is the candidate at the drawn index of the weighted list", 4)

    from ..termflow import rewrite, rewrite_events
    from ._premises import tree_vocabulary as _tv

    f = prog.fn("DataPointSampler._sample_tree")
    ex = extract(prog, f, **CI)
    sp = spec(prog, SPEC_DP_INNER, f, **CI)
    _selection(ctx, "G1", "G4", f, ex, "DataPointSampler._sample_tree")
    same_events(ctx, "G2", "DataPointSampler._sample_tree: candidates = copy, remove(old) + add(each clone), plus the outlier set iff enabled", f,
                _dedupe(rewrite_events(ex.calls(".log_p_one"), _tv)), _dedupe(rewrite_events(sp.calls(".log_p_one"), _tv)), "candidates handed to log_p_one", guards=True)
    same(ctx, "G4", "DataPointSampler._sample_tree returns candidates[drawn index]", f, rewrite(ex.result, _tv), rewrite(sp.result, _tv), "returned tree")

    g = prog.fn("PruneRegraphSampler.sample_tree")
    ex = extract(prog, g, **CI)
    sp = spec(prog, SPEC_PRG, g, **CI)
    _selection(ctx, "G1", "G4", g, ex, "PruneRegraphSampler.sample_tree")
    same_events(ctx, "G2", "PruneRegraphSampler: candidates = copy of the pruned tree + the same subtree under each remaining node and the virtual root", g,
                _dedupe(ex.calls(".log_p_one")), _dedupe(sp.calls(".log_p_one")), "candidates handed to log_p_one", guards=True)
    same_events(ctx, "G2", "PruneRegraphSampler: subtree root drawn uniformly from the nodes of the copy", g, ex.calls(".choice"), sp.calls(".choice"), "rng.choice(nodes)", guards=True)
    # the returned value: candidates[idx] (the code stores [n_children, tree] pairs: project the tree)
    _returned_candidate(ctx, g, ex, sp)

    h = prog.fn("DataPointSampler.sample_tree")
    ex = extract(prog, h, opaque_self_methods={"_sample_tree"})
    sp = spec(prog, SPEC_DP_OUTER, h, opaque_self_methods={"_sample_tree"})
    same(ctx, "G3", "DataPointSampler.sample_tree: guard scope, scan and rebinding", h, ex.result, sp.result, "tree after the scan")
    same_events(ctx, "G3", "DataPointSampler.sample_tree: scan order shuffled by the sampler's generator", h, ex.calls(".shuffle"), sp.calls(".shuffle"), "rng.shuffle(indices)")
    ctx.analysed(f, g, h)


def _dedupe(evs):
    """One event per (receiver, candidate): branches re-evaluate the shared prefix of the candidate list.  The merged
    event happens whenever one of them does (g under one branch, not g under the other: always)."""
    from ..termflow import Event, TRUE, g_and, g_not, g_or, vkey

    seen, out = {}, []
    for e in evs:
        k = (vkey(e.recv), vkey(e.args[0]))
        if k not in seen:
            n = Event(e.name, list(e.args), dict(e.kwargs), list(e.guards), e.node, recv=e.recv)
            n.guards = list(e.guards)
            n.full_guards = list(getattr(e, "full_guards", e.guards))
            seen[k] = n
            out.append(n)
        else:
            n = seen[k]
            a, b = g_and(n.full_guards), g_and(getattr(e, "full_guards", e.guards))
            if a == TRUE or b == TRUE or a == g_not(b) or b == g_not(a):
                merged = []
            else:
                merged = [g_or([a, b])]
            # guards common to both stay; what differs is replaced by the disjunction
            common = [g for g in n.full_guards if g in getattr(e, "full_guards", e.guards)]
            rest_a = g_and([g for g in n.full_guards if g not in common])
            rest_b = g_and([g for g in getattr(e, "full_guards", e.guards) if g not in common])
            if rest_a == TRUE or rest_b == TRUE or rest_a == g_not(rest_b) or rest_b == g_not(rest_a):
                merged = list(common)
            else:
                merged = list(common) + [g_or([rest_a, rest_b])]
            n.guards = merged
            n.full_guards = merged
    return out


def _returned_candidate(ctx, g, ex, sp):
    """The code may keep auxiliary data next to each candidate ([n_children, tree] pairs); the rule is
    that what is returned is the *candidate* stored at the drawn index."""
    from ..termflow import AList, ATuple, Poly, key_atom, show, vkey, make_cond, poly_from_key

    def project(v):
        # follow cond alternatives to the non-trivial arm(s): collect (list items, index key, projection)
        out = []
        a = v.as_atom() if isinstance(v, Poly) else None
        if a is not None and a[0] == "cond":
            for _, val in a[1]:
                ka = key_atom(val)
                if ka is not None and ka[0] == "sub":
                    out.append(ka)
        elif a is not None and a[0] == "sub":
            out.append(a)
        return out

    def peel(sub):
        proj = []
        cur = sub
        while True:
            base = key_atom(cur[1]) if not (isinstance(cur[1], tuple) and cur[1] and cur[1][0] == "list") else cur[1]
            if isinstance(cur[1], tuple) and cur[1] and cur[1][0] == "list":
                return cur[1], cur[2], proj
            if base is not None and base[0] == "sub":
                proj.append(cur[2])
                cur = base
                continue
            if base is not None and base[0] == "val" and isinstance(base[1], tuple) and base[1][0] == "list":
                return base[1], cur[2], proj
            return None, None, None

    got, want = project(ex.result), project(sp.result)
    ok = bool(got) and len(got) == len(want)
    why = "the returned value is not an element of the candidate list"
    if ok:
        for gs, ws in zip(got, want):
            gl, gi, gp = peel(gs)
            wl, wi, wp = peel(ws)
            if gl is None or wl is None:
                ok = False
                break
            gitems = gl[1]
            witems = wl[1]
            # project code items the same way the result was projected
            def proj_item(k, proj):
                for pkey in reversed(proj):
                    if isinstance(k, tuple) and k[0] == "list":
                        from ..termflow import _const_of_key
                        c = _const_of_key(pkey)
                        if c is None:
                            return None
                        k = k[1][int(c)]
                    else:
                        return None
                return k
            gproj = [proj_item(k, gp) for k in gitems]
            if None in gproj or len(gproj) != len(witems) or any(a != b for a, b in zip(gproj, witems)):
                ok = False
                why = "the candidates stored in the selection list differ from the specified family"
                break
            if gi != wi:
                ok = False
                why = "the index used to pick the returned tree (%s) is not the drawn index (%s)" % (show(poly_from_key(gi)) if gi[0] == "poly" else gi, show(poly_from_key(wi)) if wi[0] == "poly" else wi)
                break
    ctx.check(ok, "G4", "PruneRegraphSampler.sample_tree returns the candidate at the drawn index", g.where(), why, construct=g.qualname, stmt="return trees[idx]")


def rule_P1(ctx):
    prog = ctx.prog
    ctx.rule("P1", "subtree-PG weight correction: subtract the subtree's log_p_one before, add the full tree's after the particle's tree is replaced; every particle re-added; outliers carried over", 3)
    f = prog.fn("ParticleGibbsSubtreeSampler._correct_weights")
    ex = extract(prog, f, **CI)
    sp = spec(prog, SPEC_CORRECT, f, **CI)
    # grafting the subtree and carrying its outliers over commute (normal form: outliers last)
    from ..termflow import rewrite as _rw, rewrite_events as _rwe
    from ._premises import outliers_last as _ol

    same_events(ctx, "P1", "_correct_weights: (corrected weight, particle) pairs", f, _rwe(ex.calls(".add_particle"), _ol), _rwe(sp.calls(".add_particle"), _ol), "add_particle calls")
    gs = [e for e in ex.events if e.name == "store_attr" and e.kwargs.get("attr") == "tree"]
    ws = [e for e in sp.events if e.name == "store_attr" and e.kwargs.get("attr") == "tree"]
    same_events(ctx, "P1", "_correct_weights: particle.tree := copy of the remainder + subtree under the recorded parent + its outliers, refreshed", f, _rwe(gs, _ol), _rwe(ws, _ol), "p.tree = full tree")
    same(ctx, "P1", "_correct_weights returns the new swarm", f, _rw(ex.result, _ol), _rw(sp.result, _ol), "returned swarm")
    g = prog.fn("ParticleGibbsSubtreeSampler.sample_tree")
    om = {"sample_swarm", "_correct_weights", "_sample_tree_from_swarm"}
    ex = extract(prog, g, opaque_self_methods=om, no_inline=["ParticleGibbsTreeSampler.sample_tree"], **CI)
    sp = spec(prog, SPEC_SUBTREE, g, opaque_self_methods=om, no_inline=["ParticleGibbsTreeSampler.sample_tree"], **CI)
    ctx.rule("P2", "subtree move: subtree of a uniformly chosen data point's grandparent, outliers moved into it, cSMC on the subtree, weights corrected against the remainder under the recorded parent", 2)
    # the whole-tree fallback for a tree without clones may be written as super().sample_tree(tree)
    exr = extract(prog, g, opaque_self_methods=om, **CI)
    same(ctx, "P2", "ParticleGibbsSubtreeSampler.sample_tree: returned tree", g, exr.result, sp.result, "returned tree")
    same_events(ctx, "P2", "ParticleGibbsSubtreeSampler.sample_tree: subtree chosen through a uniformly drawn non-outlier data point", g, exr.calls(".choice"), sp.calls(".choice"), "rng.choice(labels of non-outlier points)")
    ctx.analysed(f, g)


MUTATING_TREE_CALLS = {"remove_subtree", "remove_data_point_from_outliers", "remove_data_point_from_node", "add_data_point_to_node",
                       "add_data_point_to_outliers", "add_subtree", "create_root_node", "relabel_nodes"}


def rule_P3(ctx):
    """Block choice of the subtree move.  A Gibbs update of a randomly chosen block is invariant when the
    probability of choosing the block does not depend on the variables inside it (or the weights carry the ratio
    of the selection probabilities).  Here the block is selected through a data point drawn uniformly from ALL
    non-outlier points of the current tree — a clone is hit in proportion to its size, and the block is the
    subtree of that clone's grandparent, so the clones that select the block are inside it and are re-formed by
    the move — while _correct_weights adds the two density terms only.  Fires on the pinned tree: recorded as a
    known finding (F11; the authors' own TODO), with the exact-kernel demonstration in notes/triage."""
    prog = ctx.prog
    ctx.rule("P3", "the block (subtree) selection of the subtree move is independent of the state inside the block, or the corrected weight carries a selection term", 1)
    f = prog.fn("ParticleGibbsSubtreeSampler.sample_tree")
    ex = extract(prog, f, opaque_self_methods={"sample_swarm", "_correct_weights", "_sample_tree_from_swarm"}, **CI)
    draws = ex.calls(".choice")
    if len(draws) != 1:
        raise AnalysisError("P3: expected one subtree-selecting draw in %s, found %d" % (f.qualname, len(draws)))
    from ..termflow import show

    pop = show(draws[0].args[0])
    reads_block_state = ("labels" in pop) or (".nodes" in pop) or ("get_data_len" in pop)
    g = prog.fn("ParticleGibbsSubtreeSampler._correct_weights")
    exg = extract(prog, g, **CI)
    adds = exg.calls(".add_particle")
    extra = False
    for ev in adds:
        txt = show(ev.args[0])
        # besides the incoming weight and the two log_p_one terms, is there any term that could be a selection ratio?
        extra = extra or any(k in txt for k in ("len(", "get_data_len", "log(", "labels", "get_number_of_nodes"))
    ok = (not reads_block_state) or extra
    ctx.check(ok, "P3", "subtree move: block selection vs weight correction", f.where(draws[0].node),
              "the subtree is selected by rng.choice over %s (one entry per non-outlier data point of the whole current tree, so a clone is chosen in proportion to its size and the chosen clone lies inside the block that is then re-formed), but the corrected particle weights contain only the two joint-density terms: the probability of selecting the same block differs between the current tree and a proposed one and is not compensated, so the move is not posterior-invariant (exact kernel on 3 data points, 2 particles, fully adapted: |pi P - pi|_1 = 1.5e-2, whole-tree move 1e-14)" % pop[:120],
              construct=f.qualname, stmt="subtree selection")
    ctx.analysed(f, g)


def rule_C1(ctx):
    prog = ctx.prog
    ctx.rule("C1", "a move that edits the tree it is given has its result rebound to the chain's tree at every call site", 3)
    runmod = prog.module("phyclone.run")
    holder = prog.cls("run.SamplersHolder")
    field_cls = {}
    for st in holder.node.body:
        if isinstance(st, ast.AnnAssign) and isinstance(st.target, ast.Name):
            field_cls[st.target.id] = u(st.annotation)
    n = 0
    for fname in ("run._run_main_sampler", "run._run_burnin"):
        f = prog.fn(fname)
        local_cls = {}

        plain = {}
        for st in ast.walk(f.node):
            if isinstance(st, ast.Assign) and isinstance(st.targets[0], ast.Name) and isinstance(st.value, ast.Attribute) and u(st.value.value) == "samplers":
                plain.setdefault(st.targets[0].id, []).append(st.value.attr)

        def fields_of(v):
            """Holder fields an expression can denote: `samplers.x`, a local bound to one, or `a if c else b` of those."""
            if isinstance(v, ast.Attribute) and u(v.value) == "samplers":
                return [v.attr]
            if isinstance(v, ast.Name) and len(plain.get(v.id, [])) == 1:
                return list(plain[v.id])
            if isinstance(v, ast.IfExp):
                a, b = fields_of(v.body), fields_of(v.orelse)
                return a + b if a and b else []
            return []

        for st in ast.walk(f.node):
            if isinstance(st, ast.Assign) and isinstance(st.targets[0], ast.Name):
                fs = fields_of(st.value)
                if fs:
                    local_cls.setdefault(st.targets[0].id, [])
                    local_cls[st.targets[0].id] += [field_cls.get(x) for x in fs]
        pm = {}
        for p in ast.walk(f.node):
            for c in ast.iter_child_nodes(p):
                pm[id(c)] = p
        sites = []
        for c in calls(f.node, last="sample_tree"):
            recv = u(c.func.value)
            cnames = local_cls.get(recv)
            if cnames is None and isinstance(c.func.value, ast.Attribute) and u(c.func.value.value) == "samplers":
                cnames = [field_cls.get(c.func.value.attr)]  # samplers.x.sample_tree(tree), without a local alias
            cis = [prog.resolve_class(cn, runmod) if cn else None for cn in (cnames or [None])]
            if any(ci is None for ci in cis):
                raise AnalysisError("cannot resolve the class of sampler %r in %s" % (recv, f.qualname))
            sites += [(c, recv, ci) for ci in cis]
        for c, recv, ci in sites:
            m = prog.method(ci, "sample_tree")
            param = m.params[1]
            edits = sorted({x.func.attr for x in ast.walk(m.node) if isinstance(x, ast.Call) and isinstance(x.func, ast.Attribute) and u(x.func.value) == param and x.func.attr in MUTATING_TREE_CALLS})
            stmt = pm.get(id(c))
            rebound = isinstance(stmt, ast.Assign) and len(stmt.targets) == 1 and c.args and u(stmt.targets[0]) == u(c.args[0])
            n += 1
            if edits:
                ctx.check(rebound, "C1", "%s: %s.sample_tree edits its argument (%s): result rebound" % (f.name, ci.name, ", ".join(edits)), f.where(c), "%s.sample_tree prunes the tree it is given in place; its result is not rebound to %s, so the chain would continue with a pruned tree" % (ci.name, u(c.args[0]) if c.args else "?"), construct=f.qualname, stmt="%s = %s.sample_tree(...)" % (u(c.args[0]) if c.args else "?", recv))
            else:
                ctx.ok("C1", "%s: %s.sample_tree is pure on its argument (result %s)" % (f.name, ci.name, "rebound" if rebound else "dropped: identity move"), f.where(c))
        ctx.analysed(f)


def rule_C2(ctx):
    """One model for all moves: the data-point move considers the outlier set exactly when the SMC kernel proposes
    it, i.e. both switches are the same test on the run's outlier probability; the proposal probability the kernel
    gets is a probability.  (With outlier probability 0 the density has no outlier terms: a move that could still
    place points in the outlier set would target a different posterior than the whole-tree update.)"""
    from ..formula import extract
    from ..termflow import Poly, equivalent, show, _is_polykey, poly_from_key

    prog = ctx.prog
    ctx.rule("C2", "outlier modelling is switched on for the data-point move iff it is for the SMC kernel (one test on the run's outlier probability); the kernel's outlier proposal probability is a constant in [0, 1)", 3)
    ss = prog.fn("run.setup_samplers")
    sk = prog.fn("run.setup_kernel")
    exs = extract(prog, ss)
    dps = [e for e in exs.events if e.name == "new:DataPointSampler"]
    if len(dps) != 1:
        raise AnalysisError("setup_samplers: expected one DataPointSampler(...) construction, found %d" % len(dps))
    flag = dps[0].kwargs.get("outliers")
    if flag is None and len(dps[0].args) > 2:
        flag = dps[0].args[2]
    # the kernel side: path-wise, the probability handed to the kernel class under the path's guards
    exk = extract(prog, sk)
    ks = [e for e in exk.events if "outlier_proposal_prob" in e.kwargs]
    if not ks:
        raise AnalysisError("setup_kernel: no kernel construction with outlier_proposal_prob=...")
    op_name = {p: i for i, p in enumerate(ss.params)}.get("outlier_prob")
    ok_name = {p: i for i, p in enumerate(sk.params)}.get("outlier_prob")
    if op_name is None or ok_name is None:
        raise AnalysisError("setup_samplers / setup_kernel: no outlier_prob parameter")
    from ..termflow import subst

    ren = {Poly.atom(("v", "P%d" % ok_name)).key(): Poly.atom(("v", "P%d" % op_name))}
    from ..termflow import Valuation

    bad = None
    n = 0
    expanded = []
    for e in ks:
        val = e.kwargs["outlier_proposal_prob"]
        a = val.as_atom() if isinstance(val, Poly) else None
        if a is not None and a[0] == "cond":
            # a conditional expression instead of an if / else statement: one case per alternative
            neg = []
            for g, vk in a[1]:
                from ..termflow import g_not, _is_polykey, poly_from_key

                expanded.append((e, poly_from_key(vk) if _is_polykey(vk) else None, list(e.full_guards) + neg + [g]))
                neg.append(g_not(g))
        else:
            expanded.append((e, val, list(e.full_guards)))
    for e, val, eguards in expanded:
        if not (isinstance(val, Poly) and val.is_const()):
            raise AnalysisError("setup_kernel: outlier_proposal_prob is the non-constant %s" % (show(val)[:80] if val is not None else "?"))
        c = val.const_value()
        ctx.check(0 <= c < 1, "C2", "setup_kernel: outlier proposal probability %s is in [0, 1)" % c, sk.where(e.node), "the kernel is built with outlier_proposal_prob = %s: the proposals' mixture weights (1 - q) / 2, (1 - q) and q are not probabilities" % c, construct=sk.qualname, stmt="outlier_proposal_prob constant")
        n += 1
        # under this path's guards the flag of the data-point move must be (c > 0)
        guards = [subst(g, ren) if not isinstance(g, tuple) else __import__("pcstatic.termflow", fromlist=["subst_key"]).subst_key(g, ren) for g in eguards]
        on = c > 0
        for t in range(16):
            v = Valuation(t, salt="s0")
            try:
                if all(v.truth(g) for g in guards):
                    f = flag if isinstance(flag, bool) else (v.truth(flag) if isinstance(flag, tuple) else bool(v.image(flag.key())))
                    if f != on:
                        bad = (e, c, f)
            except (ValueError, OverflowError, ZeroDivisionError):
                continue
    ctx.check(bad is None and flag is not None, "C2", "DataPointSampler(outliers=...) is on exactly when the kernel's outlier proposal probability is positive", ss.where(dps[0].node),
              "the data-point move is built with outliers=%s, but under the same outlier probability the kernel gets outlier_proposal_prob=%s: one of the two moves considers the outlier set and the other does not" % (show(flag)[:80] if flag is not None else "<default False>", bad[1] if bad else "?"), construct=ss.qualname, stmt="outliers switch")
    ctx.analysed(ss, sk)


def run(ctx):
    ctx.assume("numpy Generator.multinomial(1, p).argmax() draws an index with probabilities p; Generator.choice/shuffle are uniform")
    ctx.note("the subtree move's missing term for the size-weighted random choice of the subtree (authors' TODO) is not claimed")
    ctx.soft(rule_G)
    ctx.soft(rule_P1)
    ctx.soft(rule_P3)
    ctx.soft(rule_C1)
    ctx.soft(rule_C2)
    # the Gibbs weights are log_p_one of *edited copies*: they are the target's values only if every edit of
    # a tree refreshes the cached likelihoods it invalidates (same rule objects as C06.M1 / M2)
    from ..effects import TreeFx
    from ..formula import imported
    from . import C06

    from . import _premises

    _premises.refresh(ctx)
    # "the same posterior": the moves weigh candidates with log_p_one, the whole-tree update with the fused form —
    # both must be the specified density (C03.T1-T3); candidates are built with the tree editor (TS) from copies
    # that share nothing with the current state (C06.M4), and no candidate loses a data point (C07.L1)
    _premises.density(ctx)
    _premises.tree_editor(ctx)
    _premises.deep_copies(ctx)
    _premises.linear_use(ctx)
    # the candidate family of a move is that move's: nothing carried over from an earlier call (C14.K7 / K8)
    _premises.no_call_state(ctx)


_G = "phyclone/mcmc/gibbs_mh.py"
_P = "phyclone/mcmc/particle_gibbs.py"
_R = "phyclone/run.py"
SELFTEST = [
    {"name": "C2-data-point-move-always-considers-outliers", "kind": "break", "rule": "C2", "file": _R, "old": "outliers=(outlier_prob > 0))", "new": "outliers=(outlier_prob >= 0))"},
    {"name": "C2-data-point-move-outliers-always-on", "kind": "break", "rule": "C2", "file": _R, "old": "outliers=(outlier_prob > 0))", "new": "outliers=True)"},
    {"name": "C2-kernel-proposes-outliers-without-outlier-model", "kind": "break", "rule": "C2", "file": _R, "old": "    if outlier_prob > 0:\n        outlier_proposal_prob = 0.1", "new": "    if outlier_prob >= 0:\n        outlier_proposal_prob = 0.1"},
    {"name": "C2-outlier-proposal-probability-above-one", "kind": "break", "rule": "C2", "file": _R, "old": "        outlier_proposal_prob = 0.1\n", "new": "        outlier_proposal_prob = 1.1\n"},
    {"name": "benign-C2-switch-in-a-local", "kind": "benign", "file": _R, "old": "    dp_sampler = DataPointSampler(tree_dist, rng, outliers=(outlier_prob > 0))", "new": "    model_outliers = 0 < outlier_prob\n    dp_sampler = DataPointSampler(tree_dist, rng, outliers=model_outliers)"},
    {"name": "benign-C2-proposal-probability-0.2", "kind": "benign", "file": _R, "old": "        outlier_proposal_prob = 0.1\n", "new": "        outlier_proposal_prob = 0.2\n"},
    # ---- imported premises (density, tree editor)
    {"name": "T2-log_p_one-skips-outlier-prior-without-outliers", "kind": "break", "rule": ["T2", "T3"], "file": "phyclone/tree/distributions.py", "old": "                if data_point.outlier_prob != 0:\n                    if node == outlier_node_name:", "new": "                if data_point.outlier_prob != 0 and outlier_node_name in tree_node_data and len(tree_node_data[outlier_node_name]) > 0:\n                    if node == outlier_node_name:"},
    {"name": "TS-add_subtree-falsy-parent", "kind": "break", "rule": "TS", "file": "phyclone/tree/tree.py", "old": "        if parent is None:\n            parent = self._ROOT_NODE_NAME", "new": "        if not parent:\n            parent = self._ROOT_NODE_NAME"},
    {"name": "G1-log_p-instead-of-log_p_one", "kind": "break", "rule": "G1", "file": _G, "old": "log_q = np.array([self.tree_dist.log_p_one(x) for x in new_trees])", "new": "log_q = np.array([self.tree_dist.log_p(x) for x in new_trees])"},
    {"name": "G1-extra-term-data-point", "kind": "break", "rule": "G1", "file": _G, "old": "log_q = np.array([self.tree_dist.log_p_one(x) for x in new_trees])", "new": "log_q = np.array([self.tree_dist.log_p_one(x) + np.log(len(new_trees)) * x.get_number_of_nodes() for x in new_trees])"},
    {"name": "G1-revert-F5", "kind": "break", "rule": "G1", "file": _G, "old": "log_p = np.array([self.tree_dist.log_p_one(x) for _, x in trees])", "new": "log_p = np.array([np.log(n + 1) + self.tree_dist.log_p_one(x) for n, x in trees])"},
    {"name": "G1-tempered-weights", "kind": "break", "rule": "G1", "file": _G, "old": "        p, _ = exp_normalize(log_p)\n", "new": "        p, _ = exp_normalize(0.5 * log_p)\n"},
    {"name": "G2-skip-current-clone", "kind": "break", "rule": "G2", "file": _G, "old": "        for new_node in tree.nodes:\n            new_tree = tree.copy()", "new": "        for new_node in [x for x in tree.nodes if x != old_node]:\n            new_tree = tree.copy()"},
    {"name": "G2-candidates-not-copied", "kind": "break", "rule": "G2", "file": _G, "old": "        for parent in remaining_nodes:\n            new_tree = pruned_tree.copy()", "new": "        for parent in remaining_nodes:\n            new_tree = pruned_tree"},
    {"name": "G2-no-root-attachment", "kind": "break", "rule": "G2", "file": _G, "old": "        remaining_nodes.append(None)\n", "new": ""},
    {"name": "G2-outlier-candidate-always", "kind": "break", "rule": "G2", "file": _G, "old": "        if self.outliers:\n            new_tree = tree.copy()", "new": "        if True:\n            new_tree = tree.copy()"},
    {"name": "G2-outlier-candidate-keeps-point-in-clone", "kind": "break", "rule": "G2", "file": _G, "old": "            new_tree = tree.copy()\n\n            new_tree.remove_data_point_from_node(data_point, old_node)\n\n            new_tree.add_data_point_to_outliers(data_point)", "new": "            new_tree = tree.copy()\n\n            new_tree.add_data_point_to_outliers(data_point)"},
    {"name": "G3-revert-F6", "kind": "break", "rule": "G3", "file": _G, "old": "if old_node == tree.outlier_node_name or tree.get_data_len(old_node) > 1:", "new": "if tree.get_data_len(old_node) > 1:"},
    {"name": "G3-guard-allows-emptying", "kind": "break", "rule": "G3", "file": _G, "old": "if old_node == tree.outlier_node_name or tree.get_data_len(old_node) > 1:", "new": "if old_node == tree.outlier_node_name or tree.get_data_len(old_node) >= 1:"},
    {"name": "G3-stale-labels", "kind": "break", "rule": "G3", "file": _G, "old": "                tree = self._sample_tree(data_idx, tree, old_node)\n                tree_labels = tree.labels\n", "new": "                tree = self._sample_tree(data_idx, tree, old_node)\n"},
    {"name": "G4-index-candidate-mismatch", "kind": "break", "rule": "G4", "file": _G, "old": "        return new_trees[tree_idx]", "new": "        return new_trees[::-1][tree_idx]"},
    {"name": "G4-prg-returns-neighbour", "kind": "break", "rule": "G4", "file": _G, "old": "        return trees[idx][1]", "new": "        return trees[idx - 1][1]"},
    {"name": "P1-add-before-subtract", "kind": "break", "rule": "P1", "file": _P, "old": "            w -= p.log_p_one\n\n            new_tree = tree.copy()", "new": "            w += p.log_p_one\n\n            new_tree = tree.copy()"},
    {"name": "P1-correction-after-store-only", "kind": "break", "rule": "P1", "file": _P, "old": "            subtree = p.tree\n\n            w -= p.log_p_one\n", "new": "            subtree = p.tree\n"},
    {"name": "P1-outliers-not-readded", "kind": "break", "rule": "P1", "file": _P, "old": "            for data_point in subtree.outliers:\n                new_tree.add_data_point_to_outliers(data_point)\n", "new": ""},
    {"name": "P1-graft-under-root", "kind": "break", "rule": "P1", "file": _P, "old": "new_tree.add_subtree(subtree, parent=parent)", "new": "new_tree.add_subtree(subtree)"},
    {"name": "P1-remainder-not-copied", "kind": "break", "rule": "P1", "file": _P, "old": "            new_tree = tree.copy()\n\n            new_tree.add_subtree", "new": "            new_tree = tree\n\n            new_tree.add_subtree"},
    {"name": "P2-parent-of-child-not-grandparent", "kind": "break", "rule": "P2", "file": _P, "old": "        parent = tree.get_parent(subtree_root)", "new": "        parent = tree.get_parent(subtree_root_child)"},
    {"name": "P2-weights-not-corrected", "kind": "break", "rule": "P2", "file": _P, "old": "        swarm = self._correct_weights(parent, swarm, tree)\n", "new": ""},
    {"name": "C1-subtree-result-dropped", "kind": "break", "rule": "C1", "file": _R, "old": "                tree = subtree_sampler.sample_tree(tree)", "new": "                subtree_sampler.sample_tree(tree)"},
    {"name": "benign-helper-exp_normalize", "kind": "benign", "file": _G, "old": "        log_q = log_normalize(log_q)\n\n        q = np.exp(log_q)\n\n        q = q / sum(q)\n", "new": "        q, _ = exp_normalize(log_q)\n"},
    {"name": "benign-inline-candidate-builder", "kind": "benign", "file": _G, "old": "        log_p = np.array([self.tree_dist.log_p_one(x) for _, x in trees])", "new": "        weights = []\n        for pair in trees:\n            weights.append(self.tree_dist.log_p_one(pair[1]))\n        log_p = np.array(weights)"},
    {"name": "benign-guard-operands-swapped", "kind": "benign", "file": _G, "old": "if old_node == tree.outlier_node_name or tree.get_data_len(old_node) > 1:", "new": "if 1 < tree.get_data_len(old_node) or tree.outlier_node_name == old_node:"},
    {"name": "benign-correct-weights-local", "kind": "benign", "file": _P, "old": "            w -= p.log_p_one\n", "new": "            sub_val = p.log_p_one\n            w = w - sub_val\n"},
    {"name": "benign-pure-move-result-dropped", "kind": "benign", "file": _R, "old": "            for _ in range(num_samples_prune_regraph):\n                tree = prg_sampler.sample_tree(tree)\n\n            tree.relabel_nodes()\n\n            if concentration_update:", "new": "            for _ in range(num_samples_prune_regraph):\n                prg_sampler.sample_tree(tree)\n\n            tree.relabel_nodes()\n\n            if concentration_update:"},
]
