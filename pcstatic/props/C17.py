"""C17 — input loading is order-independent and filters exactly as documented (structural premises).

The load path (`load_data` -> `load_pyclone_data` -> filters -> `_create_loaded_pyclone_data_dict`
-> `_create_clustered_data_arr`) is abstractly interpreted into *provenance terms*: same-module helper
calls are inlined, locals substituted, in-place frame mutations (`df[c] = v`, `df.loc[:, c] = v`,
`set_index(..., inplace=True)`) become explicit `setcol/setloc/method` wrappers that are written back
to the caller, `if`s become `cond` terms, loops bind `elem(iter)`, and every insertion into a python
container (`d[k] = v`, `l.append(v)`, `d[k].append(v)`) is recorded as an event carrying the loop nest
it happens in.  The rules are pattern matches over those terms, so renaming locals, splitting or
merging statements and extracting / inlining helpers do not move them.

Decided: L1 the two row filters and where `samples` is computed; L2 row order of the input frames never
reaches the order of samples / mutations / per-sample vectors / clusters (row-order taint over the
enumerated pandas idioms); L3 the two defaults; L4 copy-number validation exists, precedes the genotype
loop and is not swallowed on the way up; L5 numbering and separator fallback.
NOT decided: pandas semantics; the two degenerate mixes the statement excludes; the optional
loss-probability assignment (`_assign_out_prob`), which is outside the claim.
"""
import ast
import os

from ..astutil import func_defaults, parents, u, kwarg
from ..model import AnalysisError

OPAQUE_MUTATORS = {"_assign_out_prob": 0}  # callee name -> index of the frame argument it mutates (outside the claim)
CONTAINER_CTORS = {"OrderedDict": "odict", "dict": "dict", "list": "list", "defaultdict": "ddict"}
CONTAINER_MUTATORS = {"append", "add", "extend", "insert", "update", "setdefault", "pop", "popitem", "clear", "remove", "sort", "reverse", "move_to_end"}


class Unsupported(AnalysisError):
    pass


# --------------------------------------------------------------------------------------------------
# provenance terms: nested tuples
#   ("param", name) ("const", v) ("global", dotted) ("attr", b, name) ("sub", b, idx) ("slice", lo, hi, st)
#   ("call", fname, args, kws) ("method", recv, name, args, kws) ("callv", callee, args, kws)
#   ("cmp", op, l, r) ("op", opname, operands) ("tuple", items) ("list", items) ("cond", test, a, b)
#   ("elem", iter) ("item", t, i) ("new", kind, n) ("setcol", b, key, v) ("setloc", b, how, key, v)
#   ("mutated_by", b, fname) ("comp", kind, elt, iter, conds) ("lambda", params, body) ("undef",)
# --------------------------------------------------------------------------------------------------
NONE = ("const", None)


def kws(d):
    return tuple(sorted(d.items()))


def show(t, depth=4):
    """Short pseudo-python rendering of a term for messages."""
    if not isinstance(t, tuple) or not t:
        return repr(t)
    if depth <= 0:
        return "…"
    s = lambda x: show(x, depth - 1)
    k = t[0]
    if k == "param":
        return t[1]
    if k == "const":
        return repr(t[1])
    if k == "global":
        return t[1]
    if k == "attr":
        return "%s.%s" % (s(t[1]), t[2])
    if k == "sub":
        return "%s[%s]" % (s(t[1]), s(t[2]))
    if k == "slice":
        return ":".join("" if x == NONE else s(x) for x in t[1:])
    if k in ("call", "method", "callv"):
        if k == "call":
            head, args, kw = t[1], t[2], t[3]
        elif k == "method":
            head, args, kw = "%s.%s" % (s(t[1]), t[2]), t[3], t[4]
        else:
            head, args, kw = s(t[1]), t[2], t[3]
        return "%s(%s)" % (head, ", ".join([s(a) for a in args] + ["%s=%s" % (n, s(v)) for n, v in kw]))
    if k == "cmp":
        return "(%s %s %s)" % (s(t[2]), t[1], s(t[3]))
    if k == "op":
        return "%s(%s)" % (t[1], ", ".join(s(x) for x in t[2]))
    if k in ("tuple", "list"):
        return ("(%s)" if k == "tuple" else "[%s]") % ", ".join(s(x) for x in t[1])
    if k == "cond":
        return "(%s if %s else %s)" % (s(t[2]), s(t[1]), s(t[3]))
    if k == "elem":
        return "elem(%s)" % s(t[1])
    if k == "item":
        return "%s[%d]" % (s(t[1]), t[2])
    if k == "new":
        return "<%s#%d>" % (t[1], t[2])
    if k == "setcol":
        return "%s{[%s]=%s}" % (s(t[1]), s(t[2]), s(t[3]))
    if k == "setloc":
        return "%s{.%s[%s]=%s}" % (s(t[1]), t[2], s(t[3]), s(t[4]))
    if k == "mutated_by":
        return "%s{%s}" % (s(t[1]), t[2])
    return "<%s>" % k


_DESUGARED = {}


def _loops_for_comprehensions(body):
    """`xs = [e for t in it if c]` / `return [e for ...]` as a statement is read as the loop it abbreviates
    (`xs = []; for t in it: if c: xs.append(e)`): this interpreter follows lists that are built in place."""
    key = id(body)
    if key in _DESUGARED:
        return _DESUGARED[key][1]

    def expand(name, comp, at):
        stmts = [ast.Assign(targets=[ast.Name(id=name, ctx=ast.Store())], value=ast.List(elts=[], ctx=ast.Load()))]
        inner = [ast.Expr(value=ast.Call(func=ast.Attribute(value=ast.Name(id=name, ctx=ast.Load()), attr="append", ctx=ast.Load()), args=[comp.elt], keywords=[]))]
        for g in reversed(comp.generators):
            for c in reversed(g.ifs):
                inner = [ast.If(test=c, body=inner, orelse=[])]
            inner = [ast.For(target=g.target, iter=g.iter, body=inner, orelse=[])]
        stmts += inner
        for st in stmts:
            ast.copy_location(st, at)
            ast.fix_missing_locations(st)
        return stmts

    def rec(stmts):
        out = []
        for st in stmts:
            if isinstance(st, ast.Assign) and len(st.targets) == 1 and isinstance(st.targets[0], ast.Name) and isinstance(st.value, ast.ListComp) and not any(g.is_async for g in st.value.generators):
                out += expand(st.targets[0].id, st.value, st)
            elif isinstance(st, ast.Return) and isinstance(st.value, ast.ListComp):
                out += expand("__comp_result", st.value, st)
                out.append(ast.copy_location(ast.Return(value=ast.copy_location(ast.Name(id="__comp_result", ctx=ast.Load()), st)), st))
            elif isinstance(st, (ast.If, ast.For, ast.With, ast.Try)):
                import copy

                n = copy.copy(st)
                for f in ("body", "orelse", "finalbody"):
                    if getattr(n, f, None):
                        setattr(n, f, rec(getattr(n, f)))
                out.append(n)
            else:
                out.append(st)
        return out

    res = rec(body)
    _DESUGARED[key] = (body, res)
    return res


class _Frame:
    def __init__(self, fi, depth):
        self.fi = fi
        self.depth = depth
        self.rebound = set()
        self.returns = []


def _is_literal_term(t):
    return t[0] == "const" or (t[0] == "tuple" and all(_is_literal_term(x) for x in t[1]))


def _without_continue(body):
    """`if t: A; continue` followed by R, directly in a loop body, is `if t: A else: R` (other placements are left alone
    and rejected by the caller)."""
    out = []
    for i, st in enumerate(body):
        if isinstance(st, ast.If) and st.body and isinstance(st.body[-1], ast.Continue) and not any(isinstance(n, (ast.Break, ast.Continue, ast.For, ast.While)) for b in st.body[:-1] for n in ast.walk(b)):
            rest = _without_continue(body[i + 1:])
            orelse = _without_continue(st.orelse) + rest if st.orelse else rest
            new = ast.If(test=st.test, body=(st.body[:-1] or [ast.Pass()]), orelse=orelse)
            ast.copy_location(new, st)
            out.append(new)
            return out
        if isinstance(st, ast.If) and st.orelse and isinstance(st.orelse[-1], ast.Continue) and not any(isinstance(n, (ast.Break, ast.Continue, ast.For, ast.While)) for b in st.orelse[:-1] + st.body for n in ast.walk(b)):
            rest = _without_continue(body[i + 1:])
            new = ast.If(test=st.test, body=st.body + rest, orelse=(st.orelse[:-1] or [ast.Pass()]))
            ast.copy_location(new, st)
            out.append(new)
            return out
        out.append(st)
    return out


class Flow:
    """Abstract interpreter producing provenance terms (see module docstring)."""

    def __init__(self, prog, opaque=()):
        self.prog = prog
        self.opaque = set(opaque) | set(OPAQUE_MUTATORS)
        self.events = []  # dicts: kind, container, key, value, loops, guards, fn, node
        self.created = {}  # container number -> loops at creation
        self.n_new = 0
        self.inlined = []  # FunctionInfo in call order

    # ---- containers ------------------------------------------------------------------------
    def new(self, kind, loops):
        self.n_new += 1
        self.created[self.n_new] = loops
        return ("new", kind, self.n_new)

    def event(self, **kw):
        self.events.append(kw)

    # ---- functions -------------------------------------------------------------------------
    def call(self, fi, args, kwargs, depth=0, loops=(), guards=(), closure=None):
        if depth > 8:
            raise Unsupported("inlining depth exceeded at %s" % fi.qualname)
        a = fi.node.args
        if a.vararg or a.kwarg:
            raise Unsupported("%s takes *args/**kwargs" % fi.qualname)
        pos = [x.arg for x in a.posonlyargs + a.args]
        names = pos + [x.arg for x in a.kwonlyargs]
        defaults = func_defaults(fi.node)
        fr = _Frame(fi, depth)
        env = dict(closure or {})  # a function defined inside another one reads the enclosing function's variables
        if len(args) > len(pos):
            raise Unsupported("too many positional arguments for %s" % fi.qualname)
        for i, n in enumerate(names):
            if i < len(args):
                env[n] = args[i]
            elif n in kwargs:
                env[n] = kwargs[n]
            elif n in defaults:
                env[n] = self.ev(defaults[n], {}, fr, (), ())
            else:
                raise Unsupported("call of %s does not bind parameter %s" % (fi.qualname, n))
        extra = set(kwargs) - set(names)
        if extra:
            raise Unsupported("call of %s passes unknown keyword(s) %s" % (fi.qualname, sorted(extra)))
        init = {n: env[n] for n in names if n in env}
        self.inlined.append(fi)
        live = self.block(_loops_for_comprehensions(fi.node.body), env, fr, loops, guards)
        rets = list(fr.returns)
        if live:
            rets.append((NONE, guards, env))
        if not rets:
            return ("undef",), {}
        if len(rets) == 1:
            val, _, renv = rets[0]
        else:
            val = rets[-1][0]
            renv = rets[-1][2]
            for v, g, e in reversed(rets[:-1]):
                own = g[len(guards):]
                if not own:
                    raise Unsupported("unconditional early return in %s" % fi.qualname)
                test = own[-1][0] if len(own) == 1 else ("op", "and", tuple(x[0] if x[1] else ("op", "not", (x[0],)) for x in own))
                pol = own[-1][1] if len(own) == 1 else True
                val = ("cond", test, v, val) if pol else ("cond", test, val, v)
                for n in init:
                    if n not in fr.rebound and e.get(n) != renv.get(n):
                        raise Unsupported("%s mutates parameter %s differently on different return paths" % (fi.qualname, n))
        wb = {n: renv[n] for n in init if n not in fr.rebound and renv.get(n) is not init[n] and renv.get(n) != init[n]}
        return val, wb

    # ---- statements ------------------------------------------------------------------------
    def block(self, stmts, env, fr, loops, guards):
        for s in stmts:
            if not self.stmt(s, env, fr, loops, guards):
                return False
        return True

    def merge(self, env, test, e1, e2):
        env.clear()
        for n in list(e1) + [x for x in e2 if x not in e1]:
            a, b = e1.get(n, ("undef",)), e2.get(n, ("undef",))
            env[n] = a if (a is b or a == b) else ("cond", test, a, b)

    def stmt(self, s, env, fr, loops, guards):
        if isinstance(s, ast.Assign):
            v = self.ev(s.value, env, fr, loops, guards)
            for t in s.targets:
                self.assign(t, v, env, fr, loops, guards)
            return True
        if isinstance(s, ast.AnnAssign):
            if s.value is not None:
                self.assign(s.target, self.ev(s.value, env, fr, loops, guards), env, fr, loops, guards)
            return True
        if isinstance(s, ast.AugAssign):
            v = self.ev(s.value, env, fr, loops, guards)
            if not isinstance(s.target, ast.Name):
                raise Unsupported("augmented assignment to %s in %s" % (u(s.target), fr.fi.qualname))
            env[s.target.id] = ("op", type(s.op).__name__, (env.get(s.target.id, ("undef",)), v))
            fr.rebound.add(s.target.id)
            return True
        if isinstance(s, ast.Expr):
            if not isinstance(s.value, ast.Constant):
                self.ev(s.value, env, fr, loops, guards)
            return True
        if isinstance(s, ast.If):
            t = self.ev(s.test, env, fr, loops, guards)
            e1, e2 = dict(env), dict(env)
            l1 = self.block(s.body, e1, fr, loops, guards + ((t, True),))
            l2 = self.block(s.orelse, e2, fr, loops, guards + ((t, False),))
            if l1 and l2:
                self.merge(env, t, e1, e2)
            elif l1 or l2:
                keep = e1 if l1 else e2
                env.clear()
                env.update(keep)
            else:
                return False
            return True
        if isinstance(s, ast.For):
            it = self.ev(s.iter, env, fr, loops, guards)
            if s.orelse:
                raise Unsupported("for/else in %s" % fr.fi.qualname)
            body = _without_continue(s.body)
            if it[0] in ("tuple", "list") and 0 < len(it[1]) <= 8 and all(_is_literal_term(x) for x in it[1]):
                # a loop over a literal table is the sequence of its passes
                for st_ in body:
                    for n in ast.walk(st_):
                        if isinstance(n, (ast.Break, ast.Continue)):
                            raise Unsupported("break/continue in a loop of %s" % fr.fi.qualname)
                for item in it[1]:
                    self.assign(s.target, item, env, fr, loops, guards)
                    if not self.block(body, env, fr, loops, guards):
                        return False
                return True
            for st_ in body:
                for n in ast.walk(st_):
                    if isinstance(n, (ast.Break, ast.Continue)):
                        raise Unsupported("break/continue in a loop of %s" % fr.fi.qualname)
            self.event(kind="loop", iter=it, loops=loops, guards=guards, fn=fr.fi, node=s)
            self.assign(s.target, ("elem", it), env, fr, loops, guards)
            self.block(body, env, fr, loops + (it,), guards)
            return True
        if isinstance(s, ast.Return):
            v = self.ev(s.value, env, fr, loops, guards) if s.value is not None else NONE
            fr.returns.append((v, guards, dict(env)))
            return False
        if isinstance(s, ast.Raise):
            exc = self.ev(s.exc, env, fr, loops, guards) if s.exc is not None else ("reraise",)
            self.event(kind="raise", exc=exc, loops=loops, guards=guards, fn=fr.fi, node=s)
            return False
        if isinstance(s, (ast.Assert, ast.Pass, ast.Import, ast.ImportFrom)):
            return True
        if isinstance(s, ast.Try):
            e0 = dict(env)
            live = self.block(s.body, env, fr, loops, guards)
            if live and s.orelse:
                live = self.block(s.orelse, env, fr, loops, guards)
            for h in s.handlers:
                ht = ("except", u(h.type) if h.type is not None else "BaseException")
                eh = dict(e0)
                if h.name:
                    eh[h.name] = ("caught", ht)
                lh = self.block(h.body, eh, fr, loops, guards + ((ht, True),))
                if lh and live:
                    cur = dict(env)
                    self.merge(env, ht, eh, cur)
                elif lh:
                    env.clear()
                    env.update(eh)
                    live = True
            if s.finalbody and live:
                live = self.block(s.finalbody, env, fr, loops, guards)
            return live
        if isinstance(s, ast.With):
            for item in s.items:
                v = self.ev(item.context_expr, env, fr, loops, guards)
                if item.optional_vars is not None:
                    self.assign(item.optional_vars, ("with", v), env, fr, loops, guards)
            return self.block(s.body, env, fr, loops, guards)
        if isinstance(s, (ast.FunctionDef, ast.AsyncFunctionDef)):
            env[s.name] = ("localfn", fr.fi.qualname + "." + s.name)
            fr.rebound.add(s.name)
            return True
        if isinstance(s, ast.Delete):
            for t in s.targets:
                if isinstance(t, ast.Name):
                    env.pop(t.id, None)
                else:
                    raise Unsupported("del %s in %s" % (u(t), fr.fi.qualname))
            return True
        raise Unsupported("statement %s in %s" % (type(s).__name__, fr.fi.qualname))

    def assign(self, target, v, env, fr, loops, guards):
        if isinstance(target, ast.Name):
            env[target.id] = v
            fr.rebound.add(target.id)
            return
        if isinstance(target, (ast.Tuple, ast.List)):
            n = len(target.elts)
            for i, e in enumerate(target.elts):
                if isinstance(e, ast.Starred):
                    raise Unsupported("starred assignment target in %s" % fr.fi.qualname)
                if v[0] == "tuple" and len(v[1]) == n:
                    self.assign(e, v[1][i], env, fr, loops, guards)
                else:
                    self.assign(e, ("item", v, i), env, fr, loops, guards)
            return
        if isinstance(target, ast.Subscript):
            key = self.ev(target.slice, env, fr, loops, guards)
            b = target.value
            if isinstance(b, ast.Name):
                cur = self.lookup(b.id, env, fr)
                if cur[0] == "new":
                    self.event(kind="setitem", container=cur, key=key, value=v, loops=loops, guards=guards, fn=fr.fi, node=target)
                else:
                    env[b.id] = ("setcol", cur, key, v)
                return
            if isinstance(b, ast.Attribute) and isinstance(b.value, ast.Name) and b.attr in ("loc", "iloc", "at", "iat"):
                cur = self.lookup(b.value.id, env, fr)
                env[b.value.id] = ("setloc", cur, b.attr, key, v)
                return
            raise Unsupported("store to %s in %s" % (u(target), fr.fi.qualname))
        if isinstance(target, ast.Attribute) and isinstance(target.value, ast.Name):
            cur = self.lookup(target.value.id, env, fr)
            env[target.value.id] = ("setattr", cur, target.attr, v)
            return
        raise Unsupported("assignment target %s in %s" % (u(target), fr.fi.qualname))

    # ---- expressions -----------------------------------------------------------------------
    def lookup(self, name, env, fr):
        if name in env:
            return env[name]
        tgt = fr.fi.module.imports.get(name)
        if not tgt:
            # a module-level name bound once, at top level, to a literal: the literal (moving `1e-3` to
            # DEFAULT_ERROR_RATE = 1e-3 changes nothing)
            mod = fr.fi.module
            binds = [n for n in ast.walk(mod.tree) if isinstance(n, (ast.Assign, ast.AnnAssign, ast.AugAssign)) and any(isinstance(x, ast.Name) and x.id == name and isinstance(x.ctx, ast.Store) for t in (n.targets if isinstance(n, ast.Assign) else [n.target]) for x in ast.walk(t))]
            declared = any(isinstance(n, (ast.Global, ast.Nonlocal)) and name in n.names for n in ast.walk(mod.tree))
            if len(binds) == 1 and binds[0] in mod.tree.body and isinstance(binds[0], (ast.Assign, ast.AnnAssign)) and not declared:
                v = binds[0].value
                if isinstance(v, ast.UnaryOp) and isinstance(v.op, ast.USub) and isinstance(v.operand, ast.Constant) and isinstance(v.operand.value, (int, float)):
                    return ("const", -v.operand.value)
                if isinstance(v, ast.Constant) and isinstance(v.value, (int, float, str, bool, type(None))):
                    return ("const", v.value)
                # a literal table: (nested) tuples / lists of literals and of names of such constants
                seen = getattr(self, "_lit_stack", set())
                if isinstance(v, (ast.Tuple, ast.List)) and name not in seen:
                    self._lit_stack = seen | {name}
                    try:
                        t = self._literal(v, fr)
                    finally:
                        self._lit_stack = seen
                    if t is not None:
                        return t
        return ("global", tgt or name)

    def _literal(self, v, fr):
        if isinstance(v, ast.Constant) and isinstance(v.value, (int, float, str, bool, type(None))):
            return ("const", v.value)
        if isinstance(v, ast.UnaryOp) and isinstance(v.op, ast.USub) and isinstance(v.operand, ast.Constant) and isinstance(v.operand.value, (int, float)):
            return ("const", -v.operand.value)
        if isinstance(v, (ast.Tuple, ast.List)):
            items = [self._literal(x, fr) for x in v.elts]
            return None if any(i is None for i in items) else ("tuple", tuple(items))
        if isinstance(v, ast.Name):
            t = self.lookup(v.id, {}, fr)
            return t if t[0] in ("const", "tuple") else None
        return None

    def ev(self, e, env, fr, loops, guards):
        E = lambda x: self.ev(x, env, fr, loops, guards)
        if isinstance(e, ast.Name):
            return self.lookup(e.id, env, fr)
        if isinstance(e, ast.Constant):
            return ("const", e.value)
        if isinstance(e, ast.Attribute):
            return ("attr", E(e.value), e.attr)
        if isinstance(e, ast.Subscript):
            return self.subscript(E(e.value), E(e.slice))
        if isinstance(e, ast.Slice):
            return ("slice",) + tuple(E(x) if x is not None else NONE for x in (e.lower, e.upper, e.step))
        if isinstance(e, ast.Tuple):
            return ("tuple", tuple(E(x) for x in e.elts))
        if isinstance(e, ast.List):
            if not e.elts:
                return self.new("list", loops)
            return ("list", tuple(E(x) for x in e.elts))
        if isinstance(e, ast.Dict):
            if not e.keys:
                return self.new("dict", loops)
            return ("dictlit", tuple((E(k) if k is not None else ("undef",), E(v)) for k, v in zip(e.keys, e.values)))
        if isinstance(e, ast.Set):
            return ("call", "set", (("list", tuple(E(x) for x in e.elts)),), ())
        if isinstance(e, ast.Compare):
            parts = []
            left = E(e.left)
            for op, r in zip(e.ops, e.comparators):
                right = E(r)
                parts.append(("cmp", type(op).__name__, left, right))
                left = right
            return parts[0] if len(parts) == 1 else ("op", "and", tuple(parts))
        if isinstance(e, ast.BinOp):
            return ("op", type(e.op).__name__, (E(e.left), E(e.right)))
        if isinstance(e, ast.UnaryOp):
            if isinstance(e.op, ast.USub) and isinstance(e.operand, ast.Constant) and isinstance(e.operand.value, (int, float)):
                return ("const", -e.operand.value)
            return ("op", type(e.op).__name__, (E(e.operand),))
        if isinstance(e, ast.BoolOp):
            return ("op", "and" if isinstance(e.op, ast.And) else "or", tuple(E(x) for x in e.values))
        if isinstance(e, ast.IfExp):
            return ("cond", E(e.test), E(e.body), E(e.orelse))
        if isinstance(e, ast.JoinedStr):
            return ("fstr", tuple(E(x.value) for x in e.values if isinstance(x, ast.FormattedValue)))
        if isinstance(e, (ast.ListComp, ast.GeneratorExp, ast.SetComp, ast.DictComp)):
            if len(e.generators) != 1:
                raise Unsupported("nested comprehension in %s" % fr.fi.qualname)
            g = e.generators[0]
            it = E(g.iter)
            sub = dict(env)
            self.assign(g.target, ("elem", it), sub, _Frame(fr.fi, fr.depth), loops, guards)
            S = lambda x: self.ev(x, sub, fr, loops + (it,), guards)
            conds = tuple(S(c) for c in g.ifs)
            if isinstance(e, ast.DictComp):
                elt = ("tuple", (S(e.key), S(e.value)))
            else:
                elt = S(e.elt)
            kind = {ast.ListComp: "list", ast.GeneratorExp: "gen", ast.SetComp: "set", ast.DictComp: "dict"}[type(e)]
            return ("comp", kind, elt, it, conds)
        if isinstance(e, ast.Lambda):
            sub = dict(env)
            ps = [x.arg for x in e.args.args]
            for p in ps:
                sub[p] = ("lparam", p)
            return ("lambda", tuple(ps), self.ev(e.body, sub, fr, loops, guards))
        if isinstance(e, ast.Call):
            return self.ev_call(e, env, fr, loops, guards)
        if isinstance(e, ast.Starred):
            raise Unsupported("starred expression in %s" % fr.fi.qualname)
        raise Unsupported("expression %s in %s" % (type(e).__name__, fr.fi.qualname))

    def subscript(self, b, i):
        """tuple[const] and (tuple if c else tuple)[const] are resolved; everything else stays symbolic."""
        if i[0] == "const" and isinstance(i[1], int) and not isinstance(i[1], bool):
            if b[0] == "tuple" and -len(b[1]) <= i[1] < len(b[1]):
                return b[1][i[1]]
            if b[0] == "cond" and all(x[0] in ("tuple", "cond") for x in b[2:4]):
                x, y = self.subscript(b[2], i), self.subscript(b[3], i)
                if x[0] != "sub" and y[0] != "sub":
                    return ("cond", b[1], x, y)
        return ("sub", b, i)

    def ev_call(self, e, env, fr, loops, guards):
        E = lambda x: self.ev(x, env, fr, loops, guards)
        if isinstance(e.func, ast.Name) and e.func.id == "print" and "print" not in env:
            # printing is a sink: its arguments (starred or not) are evaluated for their effects only
            for a in e.args:
                E(a.value if isinstance(a, ast.Starred) else a)
            return NONE
        if any(isinstance(a, ast.Starred) for a in e.args) or any(k.arg is None for k in e.keywords):
            raise Unsupported("*args/**kwargs at call %s in %s" % (u(e)[:60], fr.fi.qualname))
        args = [E(a) for a in e.args]
        kw = {k.arg: E(k.value) for k in e.keywords}
        f = e.func
        if isinstance(f, ast.Name):
            if f.id in env:
                lf = env[f.id]
                if isinstance(lf, tuple) and lf and lf[0] == "localfn" and lf[1] in self.prog.functions and fr.depth < 8:
                    nfi = self.prog.functions[lf[1]]
                    if not nfi.node.decorator_list:
                        own = set(nfi.params)
                        val, wb = self.call(nfi, args, kw, fr.depth + 1, loops, guards, closure={k: v for k, v in env.items() if k not in own})
                        return val
                return ("callv", env[f.id], tuple(args), kws(kw))
            if f.id in OPAQUE_MUTATORS:
                i = OPAQUE_MUTATORS[f.id]
                if i < len(e.args) and isinstance(e.args[i], ast.Name):
                    nm = e.args[i].id
                    env[nm] = ("mutated_by", self.lookup(nm, env, fr), f.id)
                    return NONE
                raise Unsupported("call of %s with a non-name frame argument" % f.id)
            fi = self.prog.resolve_function(f.id, fr.fi.module)
            if fi is not None and fi.parent is None and fi.cls is None and f.id not in self.opaque and not fi.node.decorator_list:
                val, wb = self.call(fi, args, kw, fr.depth + 1, loops, guards)
                params = fi.params
                for pname, newterm in wb.items():
                    i = params.index(pname)
                    src = e.args[i] if i < len(e.args) else next((k.value for k in e.keywords if k.arg == pname), None)
                    if isinstance(src, ast.Name):
                        env[src.id] = newterm
                    elif src is not None and not isinstance(src, ast.Constant):
                        raise Unsupported("%s mutates its argument %s, which is not a plain name at the call in %s" % (fi.qualname, pname, fr.fi.qualname))
                return val
            if f.id in CONTAINER_CTORS and (not args or (f.id == "defaultdict" and len(args) == 1)) and not kw:
                return self.new(CONTAINER_CTORS[f.id], loops)
            return ("call", f.id, tuple(args), kws(kw))
        if isinstance(f, ast.Attribute):
            recv = E(f.value)
            name = f.attr
            if recv[0] == "new" and name in CONTAINER_MUTATORS:
                self.event(kind=name, container=recv, key=None, value=tuple(args), loops=loops, guards=guards, fn=fr.fi, node=e)
                return NONE
            if recv[0] == "sub" and recv[1][0] == "new" and name in CONTAINER_MUTATORS:
                self.event(kind=name + "_sub", container=recv[1], key=recv[2], value=tuple(args), loops=loops, guards=guards, fn=fr.fi, node=e)
                return NONE
            if kw.get("inplace") == ("const", True):
                if not isinstance(f.value, ast.Name):
                    raise Unsupported("inplace=True on a non-name receiver in %s" % fr.fi.qualname)
                kw2 = {k: v for k, v in kw.items() if k != "inplace"}
                env[f.value.id] = ("method", recv, name, tuple(args), kws(kw2))
                return NONE
            return ("method", recv, name, tuple(args), kws(kw))
        return ("callv", E(f), tuple(args), kws(kw))


# --------------------------------------------------------------------------------------------------
# classification of provenance terms (the frozen idiom tables of DESIGN §2.6 for row-order taint)
# --------------------------------------------------------------------------------------------------
SOURCES = {"read_table", "read_csv"}
# frame -> frame, row order and row set preserved
F_PRESERVE = {"astype", "copy", "reset_index", "rename", "fillna", "assign", "infer_objects", "convert_dtypes"}
# frame -> frame, rows removed, order of the survivors preserved
F_ROWFILTER = {"query", "dropna", "drop_duplicates"}
# order-insensitive reductions of a frame / series (value does not depend on row order)
F_AGGREGATE_M = {"nunique", "sum", "size", "count", "min", "max", "mean", "any", "all", "value_counts"}
F_AGGREGATE_A = {"columns", "shape", "dtypes", "empty", "size"}
POSITIONAL_A = {"iloc", "iat", "values", "array"}
POSITIONAL_M = {"head", "tail", "first", "last", "nth", "to_numpy", "tolist", "to_list", "item", "squeeze", "take", "sample", "itertuples", "iterrows", "to_records"}

RANK = {"sorted": 0, "desc": 1, "rows": 2, "hash": 3}


def worst(*sts):
    return max(sts, key=lambda s: RANK[s[0]])


def const_str(t):
    return t[1] if t[0] == "const" and isinstance(t[1], str) else None


def kwget(kw, name, default=None):
    for k, v in kw:
        if k == name:
            return v
    return default


def is_source(t):
    return len(t) == 5 and t[0] == "method" and t[2] in SOURCES


def is_mask(t):
    """A boolean row mask: comparison / boolean combination / isin / transform-compare."""
    if t[0] == "cmp":
        return True
    if t[0] == "op" and t[1] in ("and", "or", "BitAnd", "BitOr", "Invert", "not", "Not"):
        return all(is_mask(x) for x in t[2])
    if t[0] == "method" and t[2] in ("isin", "notna", "isna", "notnull", "isnull", "duplicated", "eq", "ne", "gt", "ge", "lt", "le"):
        return True
    return False


class Tables:
    """Frame / order classification with id-keyed memoisation (terms share sub-objects physically)."""

    def __init__(self, flow):
        self.flow = flow
        self._base = {}
        self._src = {}
        self.keep = []

    # -- does the term derive from an input frame at all? ---------------------------------------
    def has_source(self, t):
        if not isinstance(t, tuple):
            return False
        k = id(t)
        if k in self._src:
            return self._src[k]
        self._src[k] = False
        if t and t[0] == "new" and len(t) == 3:
            r = any(self.has_source(e.get("key")) or self.has_source(e.get("value")) for e in self.events_of(t))
        else:
            r = is_source(t) or any(self.has_source(x) for x in t if isinstance(x, tuple))
        self._src[k] = r
        self.keep.append(t)
        return r

    # -- one step down the frame chain ----------------------------------------------------------
    def step(self, t):
        """(kind, base, info) for a frame-valued term, None if `t` is not recognised as a frame.
        kinds: source, pass (same rows same order), project, rowfilter, sort, setindex, cond, group, merge"""
        k = t[0]
        if is_source(t):
            return ("source", None, t[2])
        if k in ("setcol", "mutated_by", "setattr"):
            return ("pass", t[1], t)
        if k == "setloc":
            return ("pass", t[1], t)
        if k == "cond":
            return ("cond", None, t) if self.is_frame(t[2]) and self.is_frame(t[3]) else None
        if k == "item" and t[2] == 1 and t[1][0] == "elem" and self.is_groupby(t[1][1]):
            return ("group", t[1][1][1], t[1][1])
        if k == "sub":
            b, idx = t[1], t[2]
            if b[0] == "attr" and b[2] == "loc" and self.is_frame(b[1]):
                if is_mask(idx):
                    return ("rowfilter", b[1], idx)
                if idx[0] == "tuple" and len(idx[1]) == 2 and idx[1][0][0] == "slice" and idx[1][0][1:] == (NONE, NONE, NONE):
                    return ("project", b[1], idx[1][1])
                if idx[0] == "tuple" and len(idx[1]) == 2 and is_mask(idx[1][0]):
                    return ("rowfilter", b[1], idx[1][0])
                return None
            if self.is_frame(b):
                if const_str(idx) is not None:
                    return ("project", b, idx)
                if idx[0] == "list" and all(const_str(x) is not None for x in idx[1]):
                    return ("project", b, idx)
                if is_mask(idx):
                    return ("rowfilter", b, idx)
            return None
        if k == "method" and self.is_frame(t[1]):
            m = t[2]
            if m in F_PRESERVE:
                return ("pass", t[1], t)
            if m in F_ROWFILTER:
                return ("rowfilter", t[1], t)
            if m in ("sort_values", "sort_index"):
                return ("sort", t[1], t)
            if m == "set_index":
                return ("setindex", t[1], t)
            if m == "merge":
                return ("merge", t[1], t)
            return None
        if k == "method" and t[2] == "merge" and t[3] and self.is_frame(t[3][0]):
            return ("merge", t[3][0], t)
        return None

    def is_groupby(self, t):
        return t[0] == "method" and t[2] == "groupby" and self.is_frame(t[1])

    def is_frame(self, t):
        k = id(t)
        if k not in self._base:
            self._base[k] = None
            self.keep.append(t)
            self._base[k] = self.step(t)
        return self._base[k] is not None

    def chain(self, t):
        """Nodes from `t` down to the source(s), outermost first.  A `cond` whose arms share a suffix is
        represented as ("condnode", test, arm_true_prefix, arm_false_prefix) followed by the shared suffix."""
        out = []
        while True:
            if not self.is_frame(t):
                raise Unsupported("not a recognised data-frame expression: %s" % show(t, 3))
            kind, base, info = self._base[id(t)]
            if kind == "cond":
                ca, cb = self.chain(t[2]), self.chain(t[3])
                common = []
                while ca and cb and (ca[-1] is cb[-1] or ca[-1] == cb[-1]):
                    common.insert(0, ca.pop())
                    cb.pop()
                out.append(("condnode", t[1], ca, cb))
                out.extend(common)
                return out
            out.append(t)
            if base is None:
                return out
            t = base

    def kind(self, t):
        self.is_frame(t)
        return self._base[id(t)]

    # -- what column are the rows sorted by / indexed by? ---------------------------------------
    def sorted_by(self, t):
        """(column, ascending) if the rows of frame `t` are sorted by a column on every path, else None."""
        for n in self.chain(t):
            if n[0] == "condnode":
                a = self._sorted_in(n[2])
                b = self._sorted_in(n[3])
                if a is not None and a == b:
                    return a
                if a is not None or b is not None:
                    return None
                continue
            kind, base, info = self.kind(n)
            if kind == "sort":
                return self._sort_key(n)
            if kind == "merge":
                return None
        return None

    def _sorted_in(self, nodes):
        for n in nodes:
            if n[0] == "condnode":
                return None
            kind, base, info = self.kind(n)
            if kind == "sort":
                return self._sort_key(n)
            if kind == "merge":
                return None
        return None

    def _sort_key(self, n):
        if n[2] == "sort_index":
            idx = self.index_of(n[1])
            asc = kwget(n[4], "ascending", ("const", True))
            return (idx, asc == ("const", True)) if idx else None
        by = kwget(n[4], "by", n[3][0] if n[3] else None)
        if by is None:
            return None
        if by[0] == "list" and len(by[1]) >= 1:
            by = by[1][0]
        col = const_str(by)
        asc = kwget(n[4], "ascending", n[3][1] if len(n[3]) > 1 else ("const", True))
        if col is None or asc[0] != "const":
            raise Unsupported("sort_values with a non-literal key/direction: %s" % show(n, 2))
        return (col, asc[1] is True)

    def index_of(self, t):
        for n in self.chain(t):
            if n[0] == "condnode":
                return None
            kind, base, info = self.kind(n)
            if kind == "setindex":
                return const_str(n[3][0]) if n[3] else const_str(kwget(n[4], "keys", NONE))
            if kind == "pass" and n[0] == "method" and n[2] == "reset_index":
                return None
        return None

    # -- iteration order of a sequence-valued term ----------------------------------------------
    def order(self, t, seen=()):
        """('sorted'|'desc'|'rows'|'hash', reason).  sorted = ascending by the iterated identifier;
        desc = deterministic but not ascending; rows = follows input row order; hash = set order."""
        k = t[0]
        if k == "call":
            name, args, kw = t[1], t[2], t[3]
            if name == "sorted" and len(args) == 1:
                if kwget(kw, "key") is not None:
                    # deterministic, but not the natural ascending order of the identifiers themselves
                    return ("desc", "sorted(..., key=%s): ordered by a key, not by the identifiers' own order" % show(kwget(kw, "key"), 2))
                rev = kwget(kw, "reverse", ("const", False))
                if rev[0] != "const":
                    raise Unsupported("sorted(reverse=<non-literal>)")
                return ("desc", "sorted(reverse=True)") if rev[1] else ("sorted", "sorted(...)")
            if name in ("set", "frozenset"):
                return ("hash", "%s(...) iterates in hash order" % name)
            if name in ("list", "tuple", "enumerate", "iter") and args:
                return self.order(args[0], seen)
            if name == "reversed" and len(args) == 1:
                st = self.order(args[0], seen)
                return {"sorted": ("desc", "reversed(" + st[1] + ")"), "desc": ("desc", "reversed")}.get(st[0], st)
            if name == "zip" and args:
                return worst(*[self.order(a, seen) for a in args])
            if name == "range":
                return ("sorted", "range")
        if k == "method":
            recv, m, args, kw = t[1], t[2], t[3], t[4]
            if recv[0] == "global" and recv[1] in ("numpy", "np") and m in ("unique", "sort"):
                return ("sorted", "np.%s" % m)
            if m in ("items", "keys", "values", "copy") and not args and (recv[0] == "new" or not self.is_frame(recv)):
                return self.order(recv, seen)
            if m in ("tolist", "to_list", "to_numpy", "copy", "astype", "dropna"):
                return self.order(recv, seen)
            if m == "unique" and not args:
                st = self.order(recv, seen)
                return st if st[0] != "rows" else ("rows", ".unique() lists values in order of first appearance in %s" % st[1])
            if m == "groupby" and self.is_frame(recv):
                return self.order_groupby(t)
            if m == "sort_values" and self.is_frame(recv) and self.kind(recv)[0] == "project":
                asc = kwget(kw, "ascending", ("const", True))
                return ("sorted", "Series.sort_values") if asc == ("const", True) else ("desc", "Series.sort_values(descending)")
            if m == "to_dict":
                return self.order(recv, seen)
            if m in ("itertuples", "iterrows", "to_records"):
                # positional iteration over the rows of a frame: follows the frame's row order
                st = self.order(recv, seen)
                return st if st[0] != "sorted" else ("rows", "rows of a frame sorted by another column than the one iterated")
        if k == "attr" and t[2] in ("values", "index", "array"):
            return self.order(t[1], seen)
        if k == "sub" and t[2][0] == "slice":
            return self.order(t[1], seen)
        if k == "cond":
            return worst(self.order(t[2], seen), self.order(t[3], seen))
        if k == "comp":
            if t[1] == "set":
                return ("hash", "set comprehension")
            return self.order(t[3], seen)
        if k in ("list", "tuple"):
            vals = [x[1] for x in t[1] if x[0] == "const"]
            if len(vals) == len(t[1]):
                try:
                    return ("sorted", "literal") if vals == sorted(vals) else ("desc", "literal sequence")
                except TypeError:
                    pass
            return ("desc", "literal sequence")
        if k == "new":
            return self.order_container(t, seen)
        if self.is_frame(t):
            kind, base, info = self.kind(t)
            if kind == "project" and const_str(info) is not None:
                frame = base
                sb = self.sorted_by(frame)
                if sb and sb[0] == const_str(info):
                    return ("sorted", "column of a frame sorted by it") if sb[1] else ("desc", "column of a frame sorted descending")
                return ("rows", "column %r in input row order" % const_str(info))
            return ("rows", "frame rows in input row order")
        raise Unsupported("order of %s is not an idiom this analysis recognises" % show(t, 3))

    def order_groupby(self, t):
        recv, args, kw = t[1], t[3], t[4]
        key = kwget(kw, "by", args[0] if args else None)
        if key is None:
            raise Unsupported("groupby without a key: %s" % show(t, 2))
        if key[0] == "list" and len(key[1]) == 1:
            key = key[1][0]
        col = const_str(key)
        if col is None and self.is_frame(key) and self.kind(key)[0] == "project":
            col = const_str(self.kind(key)[2])
        if col is None:
            raise Unsupported("groupby key is not a single literal column: %s" % show(key, 2))
        sort = kwget(kw, "sort", ("const", True))
        if sort[0] != "const":
            raise Unsupported("groupby(sort=<non-literal>)")
        if sort[1]:
            return ("sorted", "groupby(%r) sorts group keys" % col)
        sb = self.sorted_by(recv)
        if sb and sb[0] == col:
            return ("sorted", "sort_values(by=%r) then groupby(sort=False)" % col) if sb[1] else ("desc", "descending sort_values then groupby(sort=False)")
        return ("rows", "groupby(%r, sort=False) on a frame not sorted by %r yields groups in order of first appearance" % (col, col))

    def events_of(self, c):
        return [e for e in self.flow.events if e.get("container") is not None and e["container"] == c]

    def own_loops(self, c, ev):
        n0 = len(self.flow.created[c[2]])
        return ev["loops"][n0:]

    def order_container(self, c, seen=()):
        if c in seen:
            raise Unsupported("cyclic container order")
        evs = self.events_of(c)
        if not evs:
            return ("sorted", "empty container")
        sts = []
        for e in evs:
            if e["kind"] not in ("setitem", "append", "append_sub"):
                raise Unsupported("container %s is modified by .%s(), which this analysis does not model" % (show(c), e["kind"]))
            own = self.own_loops(c, e)
            for lp in own:
                sts.append(self.order(lp, seen + (c,)))
            if own and e["kind"] in ("setitem", "append_sub"):
                # keys appear in loop order; that is *ascending key order* only if the key is the loop's own key
                lv = ("elem", own[-1])
                inner = own[-1]
                while inner[0] == "call" and inner[1] in ("enumerate",) and inner[2]:
                    lv, inner = ("item", lv, 1), inner[2][0]
                if e["key"] not in (lv, ("item", lv, 0)):
                    sts.append(("desc", "keys %s are inserted in the order of a loop over something else" % show(e["key"], 2)))
        if len(evs) > 1 and any(self.own_loops(c, e) for e in evs):
            # several insertion sites: sequential concatenation, deterministic but not globally sorted
            sts.append(("desc", "several insertion sites"))
        return worst(*sts) if sts else ("sorted", "single insertion")


# --------------------------------------------------------------------------------------------------
# the load path, interpreted once
# --------------------------------------------------------------------------------------------------
def _unlist(t):
    """list(x) / tuple-free copies of a list built in place denote the same sequence of elements."""
    while isinstance(t, tuple) and t and t[0] == "call" and t[1] == "list" and len(t[2]) == 1 and not t[3] and isinstance(t[2][0], tuple) and t[2][0] and t[2][0][0] == "new":
        t = t[2][0]
    return t


class Load:
    def __init__(self, ctx):
        prog = ctx.prog
        self.prog = prog
        self.fi = prog.fn("data.pyclone.load_data")
        self.mod = self.fi.module
        self.flow = Flow(prog)
        val, _ = self.flow.call(self.fi, [], {p: ("param", p) for p in self.fi.params})
        if val[0] != "tuple" or len(val[1]) != 2:
            raise Unsupported("load_data does not return a (data, samples) pair: %s" % show(val, 2))
        self.data, self.samples = val[1]
        self.T = Tables(self.flow)
        self.pcls = prog.cls("data.pyclone.DataPoint")
        self.bcls = prog.cls("data.base.DataPoint")
        T = self.T
        # the mutation mapping: container whose entries are pyclone.DataPoint(samples, per-sample vector)
        muts = [e for e in self.flow.events if e["kind"] == "setitem" and self.ctor(e["value"]) is self.pcls]
        if len(muts) != 1:
            raise Unsupported("expected exactly one site storing a per-mutation DataPoint into a mapping, found %d" % len(muts))
        self.mut_ev = muts[0]
        self.mutdict = self.mut_ev["container"]
        b = self.bind(self.pcls, self.mut_ev["value"])
        self.mut_samples, self.vector = b.get("samples"), _unlist(b.get("sample_data_points"))
        if self.mut_samples is None or self.vector is None or self.vector[0] != "new":
            raise Unsupported("per-mutation DataPoint is not built from (samples, <list built in place>)")
        own = T.own_loops(self.mutdict, self.mut_ev)
        if len(own) == 1 and own[0][0] == "new":
            # the loop runs over a list that another loop filled, one entry per pass (a generator of (mutation, rows)
            # pairs): its order is the order of that loop
            fills = [e for e in T.events_of(own[0]) if e["kind"] == "append"]
            if len(fills) == 1 and len(T.events_of(own[0])) == 1 and len(T.own_loops(own[0], fills[0])) == 1 and self._unconditional_in_loop(fills[0], T.own_loops(own[0], fills[0])[0]):
                self.relay = own[0]
                own = (T.own_loops(own[0], fills[0])[0],)
        if len(own) != 1 or not T.is_groupby(own[0]):
            raise Unsupported("mutations are not inserted by one loop over a groupby: %s" % [show(x, 2) for x in own])
        self.groupby = own[0]
        self.frame = self.groupby[1]  # the frame the per-mutation records are built from
        self.vec_evs = T.events_of(self.vector)
        # the final data points, one list per arm of `cluster_file is None`
        self.arms = []
        self._arms(self.data, ())
        if not self.arms:
            raise Unsupported("no data list found in the return value of load_data")

    def _unconditional_in_loop(self, ev, loop):
        """Is the event reached on every pass of `loop` (no test between the loop head and the event)?"""
        heads = [e for e in self.flow.events if e["kind"] == "loop" and e["iter"] == loop and e["fn"] is ev["fn"]]
        return len(heads) == 1 and len(ev["guards"]) == len(heads[0]["guards"])

    def _arms(self, t, guards):
        t = _unlist(t)
        if t[0] == "cond":
            self._arms(t[2], guards + ((t[1], True),))
            self._arms(t[3], guards + ((t[1], False),))
        elif t[0] == "new":
            evs = [e for e in self.T.events_of(t)]
            if len(evs) != 1 or evs[0]["kind"] != "append" or self.ctor(evs[0]["value"][0]) is not self.bcls:
                raise Unsupported("data list %s is not filled by a single append of a base.DataPoint" % show(t))
            self.arms.append({"guards": guards, "list": t, "ev": evs[0], "dp": self.bind(self.bcls, evs[0]["value"][0])})
        else:
            raise Unsupported("data returned by load_data is %s, not a list built in place" % show(t, 2))

    def ctor(self, t):
        """ClassInfo if `t` is a constructor call of a repository class."""
        if not isinstance(t, tuple):
            return None
        if t[0] == "call":
            return self.prog.resolve_class(t[1], self.mod)
        if t[0] == "method":
            parts = [t[2]]
            r = t[1]
            while r[0] == "attr":
                parts.append(r[2])
                r = r[1]
            if r[0] == "global":
                return self.prog.classes.get(".".join([r[1]] + parts[::-1]))
        return None

    def bind(self, ci, t):
        init = ci.methods.get("__init__")
        if init is None:
            raise Unsupported("%s has no __init__" % ci.qualname)
        names = init.params[1:]
        args, kw = (t[2], t[3]) if t[0] == "call" else (t[3], t[4])
        out = dict(zip(names, args))
        out.update(dict(kw))
        return out

    def arm_label(self, arm):
        return "cluster file" if any(not pol for _, pol in arm["guards"]) else "no cluster file"


def _where(L, name=None, ev=None):
    """Best location for a message: the statement of an event, else the helper that hosts the idiom today."""
    if ev is not None:
        return ev["fn"].where(ev["node"])
    if name and L.prog.has_fn("data.pyclone." + name):
        return L.prog.fn("data.pyclone." + name).where()
    return L.fi.where()


def seq_source(T, s):
    """Peel order wrappers off a sequence term down to a column projection: (frame, column, wrappers)."""
    wr = []
    while True:
        if s[0] == "call" and s[1] in ("sorted", "list", "tuple", "set") and len(s[2]) == 1:
            wr.append(s[1])
            s = s[2][0]
        elif s[0] == "method" and s[2] in ("unique", "tolist", "to_list", "to_numpy", "dropna", "astype", "sort_values", "drop_duplicates") and s[1][0] != "global":
            wr.append(s[2])
            s = s[1]
        elif s[0] == "method" and s[1][0] == "global" and s[2] in ("unique", "sort") and len(s[3]) == 1:
            wr.append("np." + s[2])
            s = s[3][0]
        elif s[0] == "attr" and s[2] == "values":
            s = s[1]
        else:
            break
    if T.is_frame(s) and T.kind(s)[0] == "project" and const_str(T.kind(s)[2]) is not None:
        return T.kind(s)[1], const_str(T.kind(s)[2]), wr
    raise Unsupported("sample list is not derived from one column of a frame: %s" % show(s, 3))


def col_of(T, t, frame):
    """Column name if `t` is `frame[col]` / `frame.col` for exactly this frame term, else None."""
    if t[0] == "sub" and (t[1] is frame or t[1] == frame):
        return const_str(t[2])
    if t[0] == "attr" and (t[1] is frame or t[1] == frame):
        return t[2]
    return None


FLIP = {"Gt": "Lt", "Lt": "Gt", "GtE": "LtE", "LtE": "GtE", "Eq": "Eq", "NotEq": "NotEq"}
NEGATE = {"Gt": "LtE", "Lt": "GtE", "GtE": "Lt", "LtE": "Gt", "Eq": "NotEq", "NotEq": "Eq"}
SYM = {"Gt": ">", "Lt": "<", "GtE": ">=", "LtE": "<=", "Eq": "==", "NotEq": "!="}


# --------------------------------------------------------------------------------------------------
# L1 filters
# --------------------------------------------------------------------------------------------------
def classify_filter(L, node):
    """('cn', op, const) | ('group', op, count_term, group_key, how) for a row-filter node of the chain."""
    T = L.T
    kind, base, info = T.kind(node)
    if node[0] == "method" and node[2] == "drop_duplicates":
        return ("dedup", kwget(node[4], "subset", node[3][0] if node[3] else None))
    if node[0] == "method" and node[2] == "query" and node[3] and const_str(node[3][0]) is not None:
        try:
            q = ast.parse(const_str(node[3][0]), mode="eval").body
        except SyntaxError:
            raise Unsupported("unparsable query string %r" % const_str(node[3][0]))
        if isinstance(q, ast.Compare) and len(q.ops) == 1:
            l, r = q.left, q.comparators[0]
            op = type(q.ops[0]).__name__
            if isinstance(r, ast.Name) and isinstance(l, ast.Constant):
                l, r, op = r, l, FLIP.get(op)
            if isinstance(l, ast.Name) and l.id == "major_cn" and isinstance(r, ast.Constant) and op in FLIP:
                return ("cn", op, r.value)
        raise Unsupported("query(%r) is not a recognised filter idiom" % const_str(node[3][0]))
    mask = info
    if isinstance(mask, tuple) and mask[0] == "op" and mask[1] in ("Invert", "Not") and len(mask[2]) == 1 and mask[2][0][0] == "cmp" and mask[2][0][1] in NEGATE:
        inner = mask[2][0]
        mask = ("cmp", NEGATE[inner[1]], inner[2], inner[3])
    if not (isinstance(mask, tuple) and mask[0] == "cmp" and mask[1] in FLIP):
        raise Unsupported("row filter with an unrecognised mask: %s" % show(mask, 3))
    op, l, r = mask[1], mask[2], mask[3]
    for a, b, o in ((l, r, op), (r, l, FLIP[op])):
        if col_of(T, a, base) == "major_cn" and b[0] == "const":
            return ("cn", o, b[1])
        if a[0] == "method" and a[2] == "transform":
            g = a[1]
            if g[0] == "sub" and T.is_groupby(g[1]):
                g = g[1]
            if not T.is_groupby(g):
                raise Unsupported("transform on something that is not a groupby: %s" % show(a, 3))
            if not (g[1] is base or g[1] == base):
                raise Unsupported("group sizes are computed on a different frame than the one being filtered")
            key = kwget(g[4], "by", g[3][0] if g[3] else None)
            if key is not None and key[0] == "list" and len(key[1]) == 1:
                key = key[1][0]
            kcol = const_str(key) if key is not None else None
            if kcol is None and key is not None:
                kcol = col_of(T, key, base)
            how = const_str(a[3][0]) if a[3] else None
            if kcol is None or how is None:
                raise Unsupported("unrecognised group-size idiom: %s" % show(a, 3))
            return ("group", o, b, kcol, how)
    raise Unsupported("row filter %s is neither the copy-number nor the group-size idiom" % show(mask, 3))


_SIZE_METHODS = ("nunique", "count", "size", "__len__")


def _size_expr(t):
    """Is `t` a number that depends on its operands only through their sizes (len / nunique / shape / constants)?"""
    if t[0] == "const":
        return isinstance(t[1], (int, float)) and not isinstance(t[1], bool)
    if t[0] == "call" and t[1] == "len" and len(t[2]) == 1:
        return True
    if t[0] == "method" and t[2] in _SIZE_METHODS:
        return True
    if t[0] == "sub" and t[1][0] == "attr" and t[1][2] == "shape":
        return True
    if t[0] == "attr" and t[2] == "size":
        return True
    if t[0] == "op" and t[1] in ("Mult", "Add", "Sub", "FloorDiv", "Div"):
        return all(_size_expr(x) for x in t[2])
    return False


def _size_only_test(test):
    """A comparison between two size expressions that is not an emptiness test (x == 0 / len(x) < 1 ...)."""
    if test[0] == "op" and test[1] == "Not" and len(test[2]) == 1:
        return _size_only_test(test[2][0])
    if test[0] != "cmp" or test[1] not in ("Eq", "NotEq", "Lt", "LtE", "Gt", "GtE"):
        return False
    a, b = test[2], test[3]
    if not (_size_expr(a) and _size_expr(b)):
        return False
    for x in (a, b):
        if x[0] == "const" and x[1] in (0, 1) and test[1] in ("Eq", "NotEq", "Lt", "LtE", "Gt", "GtE") and (x[1] == 0 or test[1] in ("Lt", "GtE")):
            return False  # emptiness
    return True


def _some_row_test(test):
    """The mask M if `test` says "at least one row satisfies M" (M.sum() > 0, sum(M) != 0, M.any() ...), else None."""
    if test[0] == "method" and test[2] == "any" and not test[3]:
        return test[1]
    if test[0] == "cmp":
        for a, b, o in ((test[2], test[3], test[1]), (test[3], test[2], FLIP.get(test[1]))):
            if b[0] == "const" and ((b[1] == 0 and o in ("Gt", "NotEq")) or (b[1] == 1 and o == "GtE")):
                if a[0] == "method" and a[2] == "sum" and not a[3]:
                    return a[1]
                if a[0] == "call" and a[1] in ("sum", ("global", "sum")) and len(a[2]) == 1:
                    return a[2][0]
    return None


def _is_complement(mask, of):
    return mask[0] == "op" and mask[1] in ("Invert", "Not") and len(mask[2]) == 1 and (mask[2][0] is of or mask[2][0] == of)


def _as_unconditional(T, n):
    """The row filter of `if M.any(): df = df[~M]` (a condnode): without a row in M the filter keeps every row,
    so it is the unconditional filter by ~M.  None for any other conditional."""
    some = _some_row_test(n[1])
    steps = ("rowfilter", "merge", "group")
    if some is None or [m for m in n[3] if m[0] == "condnode" or T.kind(m)[0] in steps]:
        return None
    fs = [m for m in n[2] if m[0] == "condnode" or T.kind(m)[0] in steps]
    if len(fs) == 1 and fs[0][0] != "condnode" and T.kind(fs[0])[0] == "rowfilter" and _is_complement(T.kind(fs[0])[2], some):
        return fs[0]
    return None


def _plain(T, chain):
    """The unconditional steps of a chain, `if M.any(): df = df[~M]` counted as its filter."""
    for n in chain:
        if n[0] == "condnode":
            f = _as_unconditional(T, n)
            if f is not None:
                yield f
        else:
            yield n


def rule_L1(ctx, L):
    T = L.T
    fi = L.fi
    ctx.rule("L1", "rows kept iff major_cn > 0; mutation kept iff its row count over mutation_id == number of samples; samples computed after the copy-number filter and before the group filter", 4)
    filters = []
    for n in T.chain(L.frame):
        if n[0] == "condnode":
            f = _as_unconditional(T, n)
            if f is not None:
                filters.append((f, classify_filter(L, f)))
                continue
            for arm in (n[2], n[3]):
                for m in arm:
                    if m[0] != "condnode" and T.kind(m)[0] == "rowfilter" and _size_only_test(n[1]):
                        # a documented filter that runs only when some row / sample / mutation *count* has a certain
                        # value: no count decides which rows the per-row / per-mutation criterion removes
                        ctx.rule("L1", "rows kept iff major_cn > 0; mutation kept iff its row count over mutation_id == number of samples; samples computed after the copy-number filter and before the group filter", 4)
                        ctx.fail("L1", "the documented row filters run on every load", _where(L, "load_pyclone_data"), "a row filter (%s) is applied only under the size test %s: a table for which the test decides otherwise is not filtered as documented (e.g. as many surplus rows as missing ones)" % (show(m, 2), show(n[1], 2)), construct="phyclone.data.pyclone:load path", stmt="filter under a size test")
                        raise Unsupported("rows are filtered under a condition (%s)" % show(n[1], 2))
                    if m[0] == "condnode" and _size_only_test(n[1]):
                        inner = [x for arm2 in (m[2], m[3]) for x in arm2 if x[0] != "condnode"]
                        cols = [sc[0] for sc in (_set_col(x) for x in inner) if sc and sc[0] in dict(DEFAULTS)]
                        if cols:
                            ctx.rule("L3", "error_rate <- 1e-3 and tumour_content <- 1.0 only when the column is absent, on the frame the records are read from", 3)
                            ctx.fail("L3", "the documented defaults are assigned on every load", _where(L, "_process_required_cols_on_df"), "the default for %s is assigned only under the size test %s: loads for which the test decides otherwise get no default (KeyError on an absent column)" % (", ".join(sorted(set(cols))), show(n[1], 2)), construct="phyclone.data.pyclone:_process_required_cols_on_df", stmt="default under a size test")
                            raise Unsupported("defaults are assigned under a condition (%s)" % show(n[1], 2))
                    if m[0] == "condnode" or T.kind(m)[0] in ("rowfilter", "merge", "group"):
                        raise Unsupported("rows are filtered under a condition (%s): not an idiom of the load path" % show(n[1], 2))
            continue
        k = T.kind(n)[0]
        if k == "rowfilter":
            filters.append((n, classify_filter(L, n)))
        elif k in ("merge", "group"):
            raise Unsupported("the mutation table passes through %s" % k)
    where = _where(L, "load_pyclone_data")
    w_cn, w_gr = _where(L, "_remove_cn_zero_mutations"), _where(L, "_remove_duplicated_and_partially_absent_mutations")
    construct = "phyclone.data.pyclone:load_pyclone_data"
    cn = [(n, c) for n, c in filters if c[0] == "cn"]
    gr = [(n, c) for n, c in filters if c[0] == "group"]
    dd = [(n, c) for n, c in filters if c[0] == "dedup"]
    if dd:
        # exact or keyed de-duplication anywhere on the way to the records: a duplicated mutation is no longer "one row too many"
        before = not gr or any(n is dd[0][0] or n == dd[0][0] for n in T.chain(T.kind(gr[0][0])[1]) if n[0] != "condnode")
        if not before:
            raise Unsupported("drop_duplicates after the group-size filter")
        ctx.fail("L1", "no de-duplication before the group-size filter", where, "drop_duplicates(%s) collapses duplicated rows before the group-size filter, so a duplicated mutation is kept (with a row chosen by input order when payloads differ) instead of dropped" % (show(dd[0][1], 2) if dd[0][1] is not None else ""), construct=construct, stmt="drop_duplicates")
    if len(cn) > 1 or len(gr) > 1:
        raise Unsupported("more than one copy-number / group-size filter on the load path")
    # (1) copy-number predicate
    if not cn:
        ctx.fail("L1", "copy-number filter", w_cn, "no filter on major_cn lies between the input table and the per-mutation records: rows with major copy number zero are kept", construct=construct, stmt="major_cn filter")
    else:
        _, (_, op, c) = cn[0]
        ok = (op == "Gt" and c == 0 and c is not True) or (op == "GtE" and c == 1)
        ctx.check(ok, "L1", "copy-number filter keeps rows iff major_cn > 0", w_cn, "rows are kept iff major_cn %s %r, not iff major_cn > 0" % (SYM[op], c), construct=construct, stmt="major_cn filter", detail="major_cn %s %r" % (SYM[op], c))
    # (2) group-size predicate
    s_frame = s_col = None
    if not gr:
        ctx.fail("L1", "group-size filter", w_gr, "no group-size filter: mutations missing from a sample or duplicated are kept", construct=construct, stmt="group-size filter")
    else:
        gnode, (_, op, cnt, kcol, how) = gr[0]
        why = None
        if kcol != "mutation_id":
            why = "group sizes are taken over %r, not over mutation_id" % kcol
        elif how not in ("size", "count"):
            raise Unsupported("group transform %r is not a size idiom" % how)
        elif op != "Eq":
            why = "a mutation is kept iff its row count %s the number of samples; the property requires ==" % SYM[op]
        elif not (cnt[0] == "call" and cnt[1] == "len" and len(cnt[2]) == 1):
            if cnt[0] == "const" or T.has_source(cnt):
                why = "row count is compared with %s, not with the number of samples" % show(cnt, 3)
            else:
                raise Unsupported("row count is compared with %s" % show(cnt, 3))
        else:
            s_frame, s_col, _ = seq_source(T, cnt[2][0])
            if s_col != "sample_id":
                why = "the count compared with the group size is the number of distinct %r values, not of samples" % s_col
            elif not (cnt[2][0] is L.samples or cnt[2][0] == L.samples):
                why = "the sample list used by the group-size filter is not the one returned and iterated"
        ctx.check(why is None, "L1", "group filter keeps a mutation iff row count over mutation_id == len(samples)", w_gr, why or "", construct=construct, stmt="group-size filter")
    # (3) samples computed after the copy-number filter, before the group filter; (4) group filter runs on the copy-number-filtered frame
    r_frame, r_col, _ = seq_source(T, L.samples)
    ch = T.chain(r_frame)
    has_cn = any(T.kind(n)[0] == "rowfilter" and classify_filter(L, n)[0] == "cn" for n in _plain(T, ch))
    has_gr = any(T.kind(n)[0] == "rowfilter" and classify_filter(L, n)[0] == "group" for n in _plain(T, ch))
    why = None
    if r_col != "sample_id":
        why = "samples are the values of column %r" % r_col
    elif not has_cn:
        why = "samples are computed before the copy-number filter: a sample whose rows all have major_cn == 0 still counts, and a mutation with a zero-copy-number row is no longer one row short"
    elif has_gr:
        why = "samples are computed after the group-size filter"
    ctx.check(why is None, "L1", "samples = distinct sample_id of the copy-number-filtered frame", where, why or "", construct=construct, stmt="samples computed after cn filter")
    ok = False
    if cn and gr:
        gbase = T.kind(gr[0][0])[1]
        chg = T.chain(gbase)
        ok = any(n is cn[0][0] or n == cn[0][0] for n in _plain(T, chg))
    if True:
        ctx.check(ok, "L1", "group filter runs on the copy-number-filtered frame", where, "the group-size filter runs before the copy-number filter: a mutation with a zero-copy-number row in one sample survives with a row missing", construct=construct, stmt="filter order")
    ctx.analysed(*L.flow.inlined)


# --------------------------------------------------------------------------------------------------
# L2 row-order taint
# --------------------------------------------------------------------------------------------------
class Scan:
    """Walk a value term; every input-frame-derived sub-term must sit under a recognised keyed access
    or order-insensitive reduction.  Positional idioms are violations; anything else is Unsupported."""

    def __init__(self, L):
        self.L = L
        self.T = L.T
        self.bad = []  # (message)
        self.keyed = []  # (frame, key, column-or-None)
        self.seen = set()

    def scan(self, t):
        T = self.T
        if not isinstance(t, tuple) or not t:
            return
        if not isinstance(t[0], str):
            for x in t:
                self.scan(x)
            return
        if id(t) in self.seen or not T.has_source(t):
            return
        self.seen.add(id(t))
        k = t[0]
        if k == "new":
            for e in T.events_of(t):
                self.scan(e.get("key"))
                self.scan(e.get("value"))
            return
        if k in ("elem",) or (k == "item" and t[1][0] == "elem" and not T.is_frame(t)):
            # loop variables: their order is classified where the loop feeds a sink.  An element of a list that was
            # built in place (rows carried as records through a helper) carries what was put into that list.
            base = t[1] if k == "elem" else None
            while base is not None and base[0] == "call" and base[1] in ("list", "tuple") and len(base[2]) == 1:
                base = base[2][0]
            if base is not None and base[0] == "new":
                self.scan(base)
            return
        if k == "sub" and t[1][0] == "attr" and T.is_frame(t[1][1]):
            how, G, key = t[1][2], t[1][1], t[2]
            if how in ("at", "loc"):
                col = None
                if key[0] == "tuple" and len(key[1]) == 2:
                    key, col = key[1][0], const_str(key[1][1])
                if key[0] == "slice" or key[0] == "const" and isinstance(key[1], int):
                    self.bad.append("%s selects rows by position/range" % show(t, 3))
                elif T.index_of(G) is None:
                    self.bad.append("%s is a label access on the default (positional) index, i.e. by input row number" % show(t, 3))
                self.keyed.append((G, key, col))
                self.scan(key)
                return
            if how in POSITIONAL_A:
                self.bad.append("%s reads rows by position, i.e. in input row order" % show(t, 3))
                return
        if k == "sub" and t[1][0] == "method" and t[1][2] == "to_dict":
            X = t[1][1]
            if X[0] == "method" and X[2] == "value_counts":
                pass
            elif T.is_frame(X):
                if T.index_of(X) is None:
                    self.bad.append("%s: to_dict() of a series on the default positional index" % show(t, 3))
            else:
                raise Unsupported("lookup in to_dict() of %s" % show(X, 3))
            self.scan(t[2])
            return
        if k == "call" and t[1] == "len" and len(t[2]) == 1 and T.is_frame(t[2][0]):
            return
        if (k == "call" and t[1] == "sorted") or (k == "method" and t[2] == "unique" and T.is_frame(t[1])):
            st = T.order(t)  # a sequence of column values: fine when its order is not the row order
            if st[0] in ("rows", "hash"):
                self.bad.append("%s is a sequence in %s order (%s)" % (show(t, 3), st[0], st[1]))
            return
        if k == "method" and t[2] in ("first", "last", "nth", "head", "tail"):
            # the first / last row of each group: which row that is depends on the order of the rows, unless the frame
            # was put into a determined order first
            r = t[1]
            while r[0] == "sub":
                r = r[1]
            if r[0] == "method" and r[2] == "groupby" and T.is_frame(r[1]):
                st = T.order(r[1])
                if st[0] in ("rows", "hash"):
                    self.bad.append("%s picks the %s row of each group of a frame in %s order (%s): the value depends on the order of the input rows" % (show(t, 3), t[2], st[0], st[1]))
                return
        if k == "method" and T.is_frame(t[1]):
            m = t[2]
            if T.is_frame(t):
                pass
            elif m in F_AGGREGATE_M or m == "to_dict":
                return
            elif m in POSITIONAL_M:
                self.bad.append("%s reads rows by position, i.e. in input row order" % show(t, 3))
                return
            else:
                raise Unsupported("method .%s() on an input frame on the way to the loaded data: %s" % (m, show(t, 3)))
        if k == "attr" and T.is_frame(t[1]):
            if t[2] in F_AGGREGATE_A:
                return
            if t[2] in POSITIONAL_A:
                self.bad.append("%s reads rows by position, i.e. in input row order" % show(t, 3))
                return
            if t[2] in ("at", "loc"):
                raise Unsupported("bare .%s accessor flows into a value" % t[2])
            if not T.is_frame(t):
                raise Unsupported("attribute .%s of an input frame on the way to the loaded data" % t[2])
        if k == "sub" and T.is_frame(t[1]) and not T.is_frame(t):
            self.bad.append("%s indexes a frame/series by its default row label, i.e. by input row number" % show(t, 3))
            return
        if T.is_frame(t):
            raise Unsupported("a whole frame/series (%s) flows into the loaded data by an idiom this analysis does not recognise" % show(t, 3))
        if k in ("call", "callv"):
            self.scan(t[2])
            for _, v in t[3]:
                self.scan(v)
            if k == "callv":
                self.scan(t[1])
            return
        if k == "method":
            self.scan(t[1])
            self.scan(t[3])
            for _, v in t[4]:
                self.scan(v)
            return
        for x in t[1:]:
            if isinstance(x, tuple):
                self.scan(x)


def _order_check(ctx, L, rule, label, term, stmt, allow=("sorted", "desc"), where=None):
    st = L.T.order(term) if term[0] != "new" else L.T.order_container(term)
    ctx.check(st[0] in allow, rule, label, where or L.fi.where(), "order follows %s: %s" % ({"rows": "the row order of the input file", "hash": "hash order", "desc": "a deterministic but not ascending order"}.get(st[0], st[0]), st[1]), construct="phyclone.data.pyclone:load_data", stmt=stmt, detail=st[1])
    return st


def rule_L2(ctx, L):
    T = L.T
    ctx.rule("L2", "input row order reaches none of: order of samples, order of mutations (idx), order of the per-sample vector, cluster order; payloads are read by key", 7)
    where = L.fi.where()
    C = "phyclone.data.pyclone:load_data"
    # (a) order of samples
    _order_check(ctx, L, "L2", "sink (a): order of the returned sample list", L.samples, "sink a samples", where=_where(L, "load_pyclone_data"))
    # (b) order in which mutations enter the mapping
    _order_check(ctx, L, "L2", "sink (b): order in which mutations enter the mapping", L.mutdict, "sink b mutation order", where=_where(L, ev=L.mut_ev))
    # (c) per-sample vector: built by one loop over exactly the returned sample list, every read keyed by that loop's sample
    why = None
    if not (L.mut_samples is L.samples or L.mut_samples == L.samples):
        why = "the sample list stored with each mutation is not the sample list returned"
    evs = L.vec_evs
    if len(evs) != 1 or evs[0]["kind"] != "append":
        raise Unsupported("the per-sample vector is not filled by exactly one append site")
    own = T.own_loops(L.vector, evs[0])
    if len(own) != 1:
        raise Unsupported("the per-sample vector is filled under %d loops" % len(own))
    if why is None and not (own[0] is L.samples or own[0] == L.samples):
        st = T.order(own[0])
        why = "the per-sample vector is filled by iterating %s, not the returned sample list (%s)" % (show(own[0], 3), st[1])
    where = _where(L, ev=evs[0])
    ctx.check(why is None, "L2", "sink (c): per-sample vector is filled by one pass over the returned sample list", where, why or "", construct=C, stmt="sink c vector order")
    sc = Scan(L)
    sc.scan(evs[0]["value"])
    lv = ("elem", own[0])
    group = ("item", ("elem", L.groupby), 1)
    for G, key, col in sc.keyed:
        idx = T.index_of(G)
        base_ok = any(n == group for n in T.chain(G) if n[0] != "condnode")
        if not base_ok:
            sc.bad.append("column %r is read from %s, not from this mutation's group" % (col, show(G, 2)))
        elif key != lv:
            sc.bad.append("column %r is read at key %s, not at the sample being appended" % (col, show(key, 2)))
        elif idx != seq_source(T, L.samples)[1]:
            sc.bad.append("rows are looked up by sample on an index over %r" % idx)
    if not sc.keyed:
        raise Unsupported("no keyed read of the group found in the per-sample record")
    ctx.check(not sc.bad, "L2", "sink (c): every per-sample payload is read by key (sample) from the mutation's own group", where, "; ".join(sc.bad[:3]), construct=C, stmt="sink c keyed reads", detail="%d keyed reads" % len(sc.keyed))
    L.vec_scan = sc
    # key under which the mutation is stored is the group's key
    ctx.check(L.mut_ev["key"] == ("item", ("elem", L.groupby), 0), "L2", "sink (b): a mutation's record is stored under its own group key", where, "record stored under %s" % show(L.mut_ev["key"], 3), construct=C, stmt="sink b key")
    # (d) order of the data list, per arm; payload of each data point read by key
    for arm in L.arms:
        lab = L.arm_label(arm)
        where = _where(L, ev=arm["ev"])
        _order_check(ctx, L, "L2", "sink (d): order of the data list (%s)" % lab, arm["list"], "sink d " + lab, where=where)
        sc = Scan(L)
        for v in arm["dp"].values():
            sc.scan(v)
        # containers the payload reads from: classify their membership keys too
        for e in L.flow.events:
            if e["kind"] == "append_sub" and any(arm["guards"] == e["guards"][: len(arm["guards"])] for _ in (0,)):
                sc.scan(e["key"])
                sc.scan(e["value"])
                st = T.order_container(e["container"])
                ctx.note("sink (e): members are appended to a cluster in %s order (%s); they are only summed (order-insensitive up to rounding) — recorded, not flagged" % (st[0], st[1]))
        ctx.check(not sc.bad, "L2", "sink (d): data-point payloads are read by key (%s)" % lab, where, "; ".join(sc.bad[:3]), construct=C, stmt="sink d payload " + lab)
    ctx.assume("to_dict() lookups are order-independent when the key column determines the value (one cluster and one outlier probability per mutation / cluster in the cluster file)")
    ctx.assume("pandas: sort_values + groupby(sort=False) yields groups in key order; groupby default sort=True; .at on a set_index frame is a label lookup")


# --------------------------------------------------------------------------------------------------
# L3 defaults
# --------------------------------------------------------------------------------------------------
DEFAULTS = (("error_rate", 1e-3), ("tumour_content", 1.0))


def _set_col(n):
    """(column, value, all_rows) if chain node `n` assigns a column."""
    if n[0] == "setcol":
        return const_str(n[2]), n[3], True
    if n[0] == "setloc":
        key = n[3]
        if key[0] == "tuple" and len(key[1]) == 2:
            rows = key[1][0]
            return const_str(key[1][1]), n[4], rows[0] == "slice" and rows[1:] == (NONE, NONE, NONE)
        return None, n[4], False
    if n[0] == "method" and n[2] == "assign":
        for k, v in n[4]:
            return k, v, True
    return None


def rule_L3(ctx, L):
    T = L.T
    ctx.rule("L3", "error_rate <- 1e-3 and tumour_content <- 1.0 only when the column is absent, on the frame the records are read from", 3)
    where = _where(L, "_process_required_cols_on_df")
    C = "phyclone.data.pyclone:_process_required_cols_on_df"
    chain = T.chain(L.frame)
    for col, want in DEFAULTS:
        uncond, cond = [], []
        for n in chain:
            if n[0] == "condnode":
                for pol, arm in ((True, n[2]), (False, n[3])):
                    for m in arm:
                        if m[0] == "condnode":
                            raise Unsupported("nested conditional frame edits")
                        sc = _set_col(m)
                        if sc and sc[0] == col:
                            cond.append((n, pol, sc))
            else:
                sc = _set_col(n)
                if sc and sc[0] == col:
                    uncond.append(sc)
        why = None
        if uncond:
            why = "column %r is assigned unconditionally (%s): a value supplied in the input is overwritten" % (col, show(uncond[0][1], 2))
        elif not cond:
            why = "no default is assigned to %r on the frame the records are read from (absent column -> KeyError / no default)" % col
        elif len(cond) > 1:
            raise Unsupported("column %r is defaulted at several sites" % col)
        else:
            n, pol, (c, val, allrows) = cond[0]
            test = n[1]
            shape = None
            if test[0] == "cmp" and test[1] in ("NotIn", "In") and const_str(test[2]) is not None and test[3][0] == "attr" and test[3][2] == "columns" and T.is_frame(test[3][1]):
                shape = (test[1] == "NotIn", const_str(test[2]))
            elif test[0] == "op" and test[1] == "Not" and test[2][0][0] == "cmp" and test[2][0][1] == "In" and const_str(test[2][0][2]) is not None:
                shape = (True, const_str(test[2][0][2]))
            if shape is None:
                raise Unsupported("default for %r is guarded by %s, not by a column-presence test" % (col, show(test, 3)))
            absent_when_true, tested = shape
            if tested != col:
                why = "the default for %r is guarded by the presence of column %r" % (col, tested)
            elif absent_when_true != pol:
                why = "the default for %r is assigned when the column is PRESENT" % col
            elif ((val[0] == "call" and isinstance(val[1], str) and val[1].split(".")[-1] == "Series" and not kwget(val[3], "index", None))
                  or (val[0] == "method" and val[2] == "Series" and val[1][0] == "global" and not kwget(val[4] if len(val) > 4 else (), "index", None))):
                # a Series carries an index of its own (0..n-1); assigned to a column of a frame whose rows were filtered
                # it is aligned on labels, not on positions: the rows whose labels it lacks get NaN
                why = "the default for %r is assigned as %s, a Series with a fresh 0..n-1 index: on a frame that lost rows to the filters the assignment aligns on index labels and leaves NaN in the rows with labels >= n" % (col, show(val, 2))
            elif val[0] != "const":
                raise Unsupported("default for %r is the non-literal %s" % (col, show(val, 2)))
            elif not (isinstance(val[1], (int, float)) and not isinstance(val[1], bool) and float(val[1]) == want):
                why = "default for %r is %r; the documented default is %r" % (col, val[1], want)
            elif not allrows:
                why = "default for %r is not assigned to all rows" % col
        ctx.check(why is None, "L3", "default %s = %r assigned iff the column is absent" % (col, want), where, why or "", construct=C, stmt="default " + col)
    # consumption: the per-sample record reads both columns from the defaulted frame; if error_rate is not
    # passed on, the signature default of get_major_cn_prior is what the loader uses
    reads = {c for _, _, c in L.vec_scan.keyed}
    g = L.prog.fn("data.pyclone.get_major_cn_prior")
    why = None
    if "tumour_content" not in reads:
        why = "the per-sample record never reads tumour_content"
    elif "error_rate" not in reads:
        d = func_defaults(g.node).get("error_rate")
        if not (isinstance(d, ast.Constant) and d.value == 1e-3):
            why = "error_rate column is not read and the signature default of get_major_cn_prior is %s" % (u(d) if d is not None else "missing")
        else:
            why = "the error_rate column is ignored (the signature default is used even when the input supplies the column)"
    ctx.check(why is None, "L3", "error_rate and tumour_content are read from the defaulted frame into each per-sample record", where, why or "", construct="phyclone.data.pyclone:_create_loaded_pyclone_data_dict", stmt="defaults consumed")
    readme = None
    try:
        import os
        with open(os.path.join(L.prog.repo, "README.md"), encoding="utf-8") as fh:
            readme = fh.read()
    except OSError:
        pass
    if readme is not None:
        ctx.note("README states defaults: 'Default value is 1.0' %s, 'Default value is 0.001' %s (documentation agreement is a note, not a rule)" % ("found" if "Default value is 1.0" in readme else "NOT found", "found" if "Default value is 0.001" in readme else "NOT found"))


# --------------------------------------------------------------------------------------------------
# L4 validation exists, precedes the genotype loop, and is not swallowed
# --------------------------------------------------------------------------------------------------
def _catches(prog, fi, handler, exc_ci):
    """Does this except clause catch MajorCopyNumberError?"""
    if handler.type is None:
        return True
    types = handler.type.elts if isinstance(handler.type, ast.Tuple) else [handler.type]
    names = {c.name for c in prog.mro(exc_ci)} | {"Exception", "BaseException"}
    for t in types:
        nm = t.attr if isinstance(t, ast.Attribute) else (t.id if isinstance(t, ast.Name) else None)
        if nm is None:
            raise Unsupported("except clause with a computed exception type in %s" % fi.qualname)
        if nm in names:
            return True
    return False


def _reraises(handler):
    """Every way out of the handler body is a raise."""
    from ..paths import enumerate_paths
    return all(oc == "raise" for _, oc in enumerate_paths(handler.body)) if not any(isinstance(n, (ast.Break, ast.Continue)) for n in ast.walk(handler)) else False


def rule_L4(ctx):
    prog = ctx.prog
    ctx.rule("L4", "MajorCopyNumberError is raised iff major_cn < minor_cn, before the genotype loop, and no handler between get_major_cn_prior and the command swallows it", 6)
    g = prog.fn("data.pyclone.get_major_cn_prior")
    exc_ci = prog.cls("utils.exceptions.MajorCopyNumberError")
    bases = [b.split(".")[-1] for b in exc_ci.bases]
    ctx.check(bases and all(b in ("Exception", "ValueError", "RuntimeError", "ArithmeticError") or prog.resolve_class(b, exc_ci.module) for b in bases), "L4", "MajorCopyNumberError is an exception class", exc_ci.where(), "MajorCopyNumberError derives from %s" % exc_ci.bases, construct=exc_ci.qualname, stmt="bases")
    fl = Flow(prog)
    params = g.params
    fl.call(g, [], {p: ("param", p) for p in params})
    raises = [e for e in fl.events if e["kind"] == "raise" and e["exc"][0] == "call" and prog.resolve_class(e["exc"][1], e["fn"].module) is exc_ci]
    C = g.qualname
    if not raises:
        ctx.fail("L4", "get_major_cn_prior raises MajorCopyNumberError", g.where(), "no raise of MajorCopyNumberError: a major copy number below the minor one is accepted", construct=C, stmt="raise MajorCopyNumberError")
    for e in raises:
        own = e["guards"]
        why = None
        if e["loops"]:
            why = "the check runs inside a loop"
        elif len(own) != 1 or own[0][0][0] != "cmp":
            raise Unsupported("MajorCopyNumberError is raised under %s" % [show(x[0], 2) for x in own])
        else:
            (test, pol) = own[0]
            op, l, r = test[1], test[2], test[3]
            if op not in FLIP:
                raise Unsupported("validation test %s" % show(test))
            if (l, r) == (("param", "minor_cn"), ("param", "major_cn")):
                l, r, op = r, l, FLIP[op]
            if (l, r) != (("param", "major_cn"), ("param", "minor_cn")):
                why = "the validation compares %s with %s, not major_cn with minor_cn" % (show(l), show(r))
            else:
                if not pol:
                    op = {"Lt": "GtE", "GtE": "Lt", "Gt": "LtE", "LtE": "Gt", "Eq": "NotEq", "NotEq": "Eq"}[op]
                if op != "Lt":
                    why = "the error is raised when major_cn %s minor_cn; the property rejects exactly major_cn < minor_cn" % SYM[op]
        ctx.check(why is None, "L4", "raised exactly under major_cn < minor_cn", g.where(e["node"]), why or "", construct=C, stmt="raise guard")
        # before the genotype loop: in event order, no loop of this call precedes the raise
        idx = fl.events.index(e)
        before = [x for x in fl.events[:idx] if x["kind"] == "loop"]
        ctx.check(not before, "L4", "validation precedes the genotype loop", g.where(e["node"]), "the genotype loop (range over major_cn) runs before the validation", construct=C, stmt="raise before loop")
    # call path upwards: every call site of the chain get_major_cn_prior <- ... <- run.run (<- cli)
    top = prog.fn("run.run")
    callers = {}  # callee qualname -> [(caller fi, call node)]
    for fi in prog.functions.values():
        for n in ast.walk(fi.node):
            if isinstance(n, ast.Call) and isinstance(n.func, ast.Name):
                tgt = prog.resolve_function(n.func.id, fi.module)
                if tgt is not None:
                    callers.setdefault(tgt.qualname, []).append((fi, n))
    seen, work, sites = {g.qualname}, [g], []
    while work:
        cur = work.pop()
        for fi, node in callers.get(cur.qualname, []):
            owner = fi
            while owner.parent is not None:
                owner = owner.parent
            sites.append((fi, node, cur))
            if owner.qualname not in seen:
                seen.add(owner.qualname)
                work.append(owner)
    if top.qualname not in seen:
        raise Unsupported("run.run does not reach get_major_cn_prior by direct calls")
    for fi, node, callee in sorted(sites, key=lambda x: (x[0].qualname, x[1].lineno)):
        pm = parents(fi.node)
        bad = None
        cur = node
        par = pm.get(id(cur))
        while par is not None:
            if isinstance(par, ast.Try) and any(cur is x for x in par.body):
                for h in par.handlers:
                    if _catches(prog, fi, h, exc_ci) and not _reraises(h):
                        bad = h
            cur, par = par, pm.get(id(par))
        ctx.check(bad is None, "L4", "%s -> %s: no swallowing handler" % (fi.qualname.replace("phyclone.", ""), callee.name), fi.where(node), "the call is inside a try whose handler `except %s` catches MajorCopyNumberError and does not re-raise: invalid copy numbers are silently accepted" % (u(bad.type) if bad is not None and bad.type is not None else ""), construct=fi.qualname, stmt="call " + callee.name)
        ctx.analysed(fi)
    ctx.analysed(g)


# --------------------------------------------------------------------------------------------------
# L5 numbering and separator fallback
# --------------------------------------------------------------------------------------------------
def _enum_loop(loop):
    """(inner iterable, ok_start) if `loop` is enumerate(X[, 0])."""
    if loop[0] == "call" and loop[1] == "enumerate" and loop[2]:
        start = kwget(loop[3], "start", loop[2][1] if len(loop[2]) > 1 else ("const", 0))
        return loop[2][0], start == ("const", 0)
    return None, False


def _is_str_of(t, x):
    if t == x:
        return True  # identifiers are already strings or printed as such downstream; same object
    if t[0] == "call" and t[1] == "str" and t[2] == (x,):
        return True
    if t[0] == "method" and t[2] == "format" and const_str(t[1]) == "{}" and t[3] == (x,):
        return True
    if t[0] == "fstr" and t[1] == (x,):
        return True
    return False


def _mut_loop(L, lp, lv):
    """(key, record) terms if `lp` iterates the mutation mapping and `lv` is its loop variable."""
    if lp[0] == "method" and lp[2] == "items" and not lp[3] and lp[1] == L.mutdict:
        return ("item", lv, 0), ("item", lv, 1)
    if lp == L.mutdict or (lp[0] == "method" and lp[2] == "keys" and lp[1] == L.mutdict):
        return lv, ("sub", L.mutdict, lv)
    return None


def rule_L5(ctx, L):
    T = L.T
    ctx.rule("L5", "data points are numbered by enumerate over the sorted mapping / sorted cluster ids, named after their key; samples ascending; tab-then-comma separator fallback", 7)
    where = L.fi.where()
    C = "phyclone.data.pyclone:load_data"
    _order_check(ctx, L, "L5", "samples are in ascending order", L.samples, "samples ascending", allow=("sorted",), where=_where(L, "load_pyclone_data"))
    _order_check(ctx, L, "L5", "mutations enter the mapping in ascending identifier order", L.mutdict, "mutations ascending", allow=("sorted",), where=_where(L, ev=L.mut_ev))
    for arm in L.arms:
        lab = L.arm_label(arm)
        ev, dp = arm["ev"], arm["dp"]
        where = _where(L, ev=ev)
        own = T.own_loops(arm["list"], ev)
        if len(own) != 1:
            raise Unsupported("data list (%s) is filled under %d loops" % (lab, len(own)))
        loop = own[0]
        inner, start_ok = _enum_loop(loop)
        idx = dp.get("idx")
        why = None
        if inner is None:
            why = "data points are not numbered by enumerate(...) over the loop that appends them (loop over %s)" % show(loop, 3)
        elif idx != ("item", ("elem", loop), 0):
            why = "idx is %s, not the enumerate counter of the appending loop" % show(idx, 3)
        elif not start_ok:
            why = "enumerate does not start at 0"
        else:
            # numbered 0..n-1 without gaps: every pass of the counting loop appends (a test inside the loop that skips
            # the append leaves a hole in the numbering; filtering belongs before the enumerate)
            lev = [e for e in T.flow.events if e["kind"] == "loop" and e["iter"] == loop and e["fn"] is ev["fn"]]
            if len(lev) != 1:
                raise Unsupported("the numbering loop (%s) is entered %d times" % (lab, len(lev)))
            inside = ev["guards"][len(lev[0]["guards"]):]
            if inside:
                why = "the data point is appended only when %s is %s, inside the loop whose enumerate counter numbers it: the identifiers have gaps (not 0..n-1)" % (show(inside[0][0], 3), bool(inside[0][1]))
        ctx.check(why is None, "L5", "idx = position in the appending loop, from 0 (%s)" % lab, where, why or "", construct=C, stmt="idx " + lab)
        if inner is None:
            continue
        entry = ("item", ("elem", loop), 1)
        name = dp.get("name")
        ml = _mut_loop(L, inner, entry)
        if ml is not None:
            # no cluster file: one data point per mutation, named by the mutation id, value from that mutation's record
            key, rec = ml
            why = None
            if name is None or not _is_str_of(name, key):
                why = "data point is named %s, not by the mutation it was built from" % show(name, 3)
            elif not _contains(dp.get("value"), rec):
                why = "data point value is not computed from the record of the enumerated mutation"
            ctx.check(why is None, "L5", "data point i carries the name and record of the i-th mutation (%s)" % lab, where, why or "", construct=C, stmt="name " + lab)
        elif "no cluster" in lab:
            # the arm without a cluster file does not enumerate the mutation mapping itself (a helper that re-packs it,
            # a generator of pairs): neither the per-mutation nor the per-cluster obligation describes it
            raise Unsupported("data points (%s) are enumerated from %s, not from the mutation mapping" % (lab, show(inner, 3)))
        else:
            st = T.order(inner)
            src = inner
            while src[0] in ("call", "method") and src[0] == "call" and src[1] in ("sorted", "list") and len(src[2]) == 1:
                src = src[2][0]
            if src[0] == "method" and src[2] == "keys":
                src = src[1]
            why = None
            if st[0] != "sorted":
                why = "clusters are numbered in %s order (%s), not ascending cluster id" % ({"desc": "a deterministic but not ascending", "rows": "input-row", "hash": "hash"}[st[0]], st[1])
            elif src[0] != "new":
                raise Unsupported("clusters are enumerated from %s" % show(src, 3))
            elif name is None or not _is_str_of(name, entry):
                why = "cluster data point is named %s, not str(cluster id)" % show(name, 3)
            elif not _contains(dp.get("value"), ("sub", src, entry)):
                why = "cluster data point value is not computed from the members stored under its own cluster id"
            ctx.check(why is None, "L5", "clusters numbered over sorted ids, named str(id), value from own members (%s)" % lab, where, why or "", construct="phyclone.data.pyclone:_create_clustered_data_arr", stmt="cluster numbering")
            # the members were filed under the cluster of the mutation whose record they are
            subs = [e for e in T.events_of(src) if e["kind"] == "append_sub"]
            if len(subs) != 1 or len(T.own_loops(src, subs[0])) != 1:
                raise Unsupported("cluster members are not filed by a single append under one loop")
            e = subs[0]
            lp = T.own_loops(src, e)[0]
            it = ("elem", lp)
            ml = _mut_loop(L, lp, it)
            if ml is None:
                raise Unsupported("cluster members are filed by a loop over %s, not over the mutation mapping" % show(lp, 3))
            ok = e["key"][0] == "sub" and e["key"][2] == ml[0] and _contains(e["value"][0], ml[1])
            ctx.check(ok, "L5", "each mutation's grid is filed under the cluster looked up by that mutation's id", where, "member %s filed under %s" % (show(e["value"][0], 2), show(e["key"], 3)), construct="phyclone.data.pyclone:_create_clustered_data_arr", stmt="cluster membership")
    # separator fallback: read_table(file) and, iff it yields one column, read_csv(file)
    root = T.chain(L.frame)[-1]
    F = "phyclone.data.pyclone:_create_raw_data_df"
    why = None
    if root[0] != "condnode":
        if is_source(root):
            why = "the input is read with %s only: no fallback to the other separator" % root[2]
        else:
            raise Unsupported("root of the frame chain is %s" % show(root, 2))
    else:
        test, a, b = root[1], root[2], root[3]
        if a and b and is_source(a[-1]) and is_source(b[-1]) and (len(a) > 1 or len(b) > 1):
            # the arms carry steps of their own (a fallback that returns early, steps repeated per arm): what is done
            # to the frame must not depend on the separator it was read with
            def steps(arm):
                def sub(t):
                    if t == arm[-1]:
                        return ("source",)
                    return tuple(sub(x) for x in t) if isinstance(t, tuple) else t
                return [sub(t) for t in arm[:-1]]
            sa, sb = steps(a), steps(b)
            if sa != sb:
                only = [t for t in sa if t not in sb] + [t for t in sb if t not in sa]
                ctx.check(False, "L5", "tab-separated read, comma-separated fallback iff one column", _where(L, "_create_raw_data_df"), "the frame is not prepared alike for the two separators: %s is applied after one read and not after the other" % show(only[0], 3), construct=F, stmt="separator fallback")
                return
            a, b = a[-1:], b[-1:]
        if len(a) != 1 or len(b) != 1 or not is_source(a[0]) or not is_source(b[0]):
            raise Unsupported("separator fallback: arms are not single reads")
        one = None
        if test[0] == "cmp" and test[1] in ("Eq", "NotEq", "Gt", "LtE", "Lt", "GtE") and test[3][0] == "const":
            lhs = test[2]
            if lhs[0] == "call" and lhs[1] == "len" and lhs[2][0][0] == "attr" and lhs[2][0][2] == "columns":
                probe = lhs[2][0][1]
            elif lhs[0] == "sub" and lhs[1][0] == "attr" and lhs[1][2] == "shape" and lhs[2] == ("const", 1):
                probe = lhs[1][1]
            else:
                probe = None
            if probe is not None:
                n = test[3][1]
                one = {("Eq", 1): True, ("LtE", 1): True, ("Lt", 2): True, ("NotEq", 1): False, ("Gt", 1): False, ("GtE", 2): False}.get((test[1], n), "wrong")
        if one is None:
            raise Unsupported("separator fallback is guarded by %s" % show(test, 3))
        if one == "wrong":
            why = "the fallback triggers on %s, not on a single-column parse" % show(test, 3)
        else:
            fb, first = (a[0], b[0]) if one else (b[0], a[0])
            sep = lambda t: kwget(t[4], "sep", kwget(t[4], "delimiter", ("const", "\t" if t[2] == "read_table" else ",")))
            if not (first is probe or first == probe):
                why = "the column-count probe is not the frame kept when it parses"
            elif sep(first) != ("const", "\t"):
                why = "the first attempt does not read tab-separated input"
            elif sep(fb) != ("const", ","):
                why = "the fallback does not read comma-separated input"
            elif fb[3][:1] != first[3][:1]:
                why = "the fallback reads a different file"
    ctx.check(why is None, "L5", "tab-separated read, comma-separated fallback iff one column", _where(L, "_create_raw_data_df"), why or "", construct=F, stmt="separator fallback")


IDENTIFIER_COLUMNS = ("mutation_id", "cluster_id")
_CONVERTERS = ("astype", "map", "apply", "to_numeric", "convert_dtypes", "infer_objects")


def rule_L6(ctx):
    """"Sorted identifier order" is the order of the identifiers as they are read: integers sort as integers, text
    as text.  The load path converts exactly one identifier column, sample_id, to text on read; a conversion of the
    mutation or cluster identifiers (or a dtype forced on read) changes which data point is number k
    (cluster 10 before cluster 2)."""
    prog = ctx.prog
    ctx.rule("L6", "mutation and cluster identifiers are sorted in the type they are read with: no conversion of those columns, no dtype forced on read (sample_id alone is converted to text)", 2)
    mods = [m for q, m in prog.modules.items() if ".data." in q or q.endswith(".data")]
    if not mods:
        raise AnalysisError("L6: no phyclone.data module found")
    n_reads = 0
    seen_sample = False
    for m in mods:
        rel = os.path.relpath(m.path, prog.repo)
        for n in ast.walk(m.tree):
            if isinstance(n, ast.Assign):
                for t in n.targets:
                    if isinstance(t, ast.Subscript):
                        col = _const_col(t.slice)
                        conv = [c for c in ast.walk(n.value) if isinstance(c, ast.Call) and ((isinstance(c.func, ast.Attribute) and c.func.attr in _CONVERTERS) or (isinstance(c.func, ast.Name) and c.func.id in ("str", "int", "float")))]
                        reads_self = any(isinstance(x, ast.Subscript) and _const_col(x.slice) == col for x in ast.walk(n.value))
                        if col == "sample_id" and conv and reads_self:
                            seen_sample = True
                        if col in IDENTIFIER_COLUMNS and conv and reads_self:
                            ctx.fail("L6", "column %r keeps the type it was read with" % col, "%s:%d" % (rel, n.lineno),
                                     "`%s` converts the %s column: identifiers that were numbers now sort as text (10 before 2), so the data points are numbered in a different order than the sorted identifiers of the input" % (u(n)[:90], col),
                                     construct="phyclone.data:%s" % col, stmt="conversion of %s" % col)
            if isinstance(n, ast.Call) and isinstance(n.func, ast.Attribute) and n.func.attr in ("read_csv", "read_table"):
                n_reads += 1
                d = kwarg(n, "dtype")
                conv = kwarg(n, "converters")
                bad = None
                for x in (d, conv):
                    if x is None:
                        continue
                    if isinstance(x, ast.Dict):
                        ks = [k.value for k in x.keys if isinstance(k, ast.Constant)]
                        if any(k in IDENTIFIER_COLUMNS for k in ks):
                            bad = u(x)
                    else:
                        bad = u(x)  # one dtype for every column
                ctx.check(bad is None, "L6", "`%s` reads the identifier columns in their own type" % u(n)[:60], "%s:%d" % (rel, n.lineno),
                          "the table is read with dtype / converters %s: mutation / cluster identifiers that are numbers are read as another type and sort differently" % (bad or ""),
                          construct="phyclone.data:read", stmt="dtype on read")
            if isinstance(n, ast.Call) and isinstance(n.func, ast.Attribute) and n.func.attr == "astype" and n.args and isinstance(n.args[0], ast.Dict):
                ks = [k.value for k in n.args[0].keys if isinstance(k, ast.Constant)]
                hit = [k for k in ks if k in IDENTIFIER_COLUMNS]
                if hit:
                    ctx.fail("L6", "column %r keeps the type it was read with" % hit[0], "%s:%d" % (rel, n.lineno), "`%s` converts the %s column" % (u(n)[:90], hit[0]), construct="phyclone.data:%s" % hit[0], stmt="conversion of %s" % hit[0])
    if n_reads == 0:
        raise AnalysisError("L6: no read_csv / read_table call in phyclone.data")
    ctx.check(seen_sample, "L6", "sample_id is converted to text on read (the one documented conversion)", "phyclone/data/pyclone.py", "the sample_id column is no longer converted to text: numeric sample names sort numerically, textual ones as text, and the per-sample likelihood rows follow", construct="phyclone.data:sample_id", stmt="sample_id astype(str)")


def _const_col(sl):
    return sl.value if isinstance(sl, ast.Constant) and isinstance(sl.value, str) else None


def _contains(t, needle, _seen=None):
    if _seen is None:
        _seen = set()
    if not isinstance(t, tuple):
        return False
    if t is needle or t == needle:
        return True
    if id(t) in _seen:
        return False
    _seen.add(id(t))
    return any(_contains(x, needle, _seen) for x in t if isinstance(x, tuple))


def run(ctx):
    ctx.assume("pandas semantics of read_table/read_csv, boolean masks, groupby/transform('size'), sort_values, set_index/.at, to_dict are the documented ones")
    ctx.assume("the optional loss-probability assignment (_assign_out_prob) is outside the claim; it is treated as an order-preserving column assignment")
    # "depends only on the table": nothing a load computes is remembered across rows / loads under a key that forgets an
    # input (same rule object as C14.K7)
    from ..formula import imported
    from . import C14

    ctx._own_rules = {"L1", "L2", "L3", "L4", "L5", "L6"}
    imported(ctx, C14.rule_K7)
    ctx.soft(rule_L4)
    ctx.soft(rule_L6)
    try:
        L = Load(ctx)
    except Unsupported as ex:
        if ctx.violations:  # an established violation stands even if the rest of the path is not analysable
            ctx.note("load path not analysable after the L4 violation: %s" % ex)
            return
        raise
    ctx.sample({"samples": show(L.samples, 6), "frame": show(L.frame, 5), "mutation key": show(L.mut_ev["key"], 3)})
    done = {"L4"}
    for rid, rule in (("L1", rule_L1), ("L2", rule_L2), ("L3", rule_L3), ("L5", rule_L5)):
        try:
            rule(ctx, L)
            done.add(rid)
        except Unsupported as ex:
            if not ctx.violations:
                raise
            # an established violation stands; the rules that could not be decided are dropped from this run
            ctx.note("rule %s not analysable in the presence of the reported violation(s): %s" % (rid, ex))
            for r in list(ctx.rule_min):
                if r not in done:
                    ctx.rule_min.pop(r)
            return


# Self-test catalogue: one textual edit each, applied to a scratch copy (see selftest.py).
_P = "phyclone/data/pyclone.py"
_CALL = """            cn, mu, log_pi = get_major_cn_prior(
                group.at[sample, "major_cn"],
                group.at[sample, "minor_cn"],
                group.at[sample, "normal_cn"],
                error_rate=group.at[sample, "error_rate"],
            )
"""
_CALL_TRY = """            try:
                cn, mu, log_pi = get_major_cn_prior(
                    group.at[sample, "major_cn"],
                    group.at[sample, "minor_cn"],
                    group.at[sample, "normal_cn"],
                    error_rate=group.at[sample, "error_rate"],
                )
            except MajorCopyNumberError:
                cn, mu, log_pi = get_major_cn_prior(
                    group.at[sample, "minor_cn"],
                    group.at[sample, "major_cn"],
                    group.at[sample, "normal_cn"],
                    error_rate=group.at[sample, "error_rate"],
                )
"""
_CALL_HELPER = """            cn, mu, log_pi = _prior_for(group, sample)
"""
_HELPER_DEF = """def _prior_for(group, sample):
    return get_major_cn_prior(
        group.at[sample, "major_cn"],
        group.at[sample, "minor_cn"],
        group.at[sample, "normal_cn"],
        error_rate=group.at[sample, "error_rate"],
    )


def get_major_cn_prior(major_cn, minor_cn, normal_cn, error_rate=1e-3):"""
SELFTEST = [
    {"name": "L1-group-filter-only-when-row-count-odd", "kind": "break", "rule": "L1", "file": _P, "old": "    df = df.loc[group_transform == samples_len]\n    return df", "new": "    if len(df) != samples_len * df[\"mutation_id\"].nunique():\n        df = df.loc[group_transform == samples_len]\n    return df"},
    {"name": "L1-cn-filter-only-for-large-tables", "kind": "break", "rule": "L1", "file": _P, "old": "    df = df.loc[df[\"major_cn\"] > 0]\n    return df", "new": "    if len(df) > 2:\n        df = df.loc[df[\"major_cn\"] > 0]\n    return df"},
    {"name": "L3-defaults-only-for-few-samples", "kind": "break", "rule": "L3", "file": _P, "old": "    if \"error_rate\" not in df.columns:\n        df.loc[:, \"error_rate\"] = 1e-3\n", "new": "    if len(samples) <= 10:\n        if \"error_rate\" not in df.columns:\n            df.loc[:, \"error_rate\"] = 1e-3\n"},
    # ---- Appendix A
    {"name": "L2-samples-not-sorted", "kind": "break", "rule": "L2", "file": _P, "old": 'samples = sorted(df["sample_id"].unique())', "new": 'samples = list(df["sample_id"].unique())'},
    {"name": "L2-sort_values-removed", "kind": "break", "rule": "L2", "file": _P, "old": '    df = df.sort_values(by="mutation_id", ascending=True)\n', "new": "    df = df.copy()\n"},
    {"name": "L1-cn-filter-ge-zero", "kind": "break", "rule": "L1", "file": _P, "old": 'df = df.loc[df["major_cn"] > 0]', "new": 'df = df.loc[df["major_cn"] >= 0]'},
    {"name": "L1-group-filter-ge", "kind": "break", "rule": "L1", "file": _P, "old": "df = df.loc[group_transform == samples_len]", "new": "df = df.loc[group_transform >= samples_len]"},
    {"name": "L3-error-rate-1e-2", "kind": "break", "rule": "L3", "file": _P, "old": 'df.loc[:, "error_rate"] = 1e-3', "new": 'df.loc[:, "error_rate"] = 1e-2'},
    {"name": "L3-tumour-content-0.9", "kind": "break", "rule": "L3", "file": _P, "old": 'df.loc[:, "tumour_content"] = 1.0', "new": 'df.loc[:, "tumour_content"] = 0.9'},
    {"name": "L3-default-unconditional", "kind": "break", "rule": "L3", "file": _P, "old": '    if "error_rate" not in df.columns:\n        df.loc[:, "error_rate"] = 1e-3\n', "new": '    df.loc[:, "error_rate"] = 1e-3\n'},
    {"name": "L4-swallowed-at-call", "kind": "break", "rule": "L4", "file": _P, "old": _CALL, "new": _CALL_TRY},
    {"name": "L5-idx-from-cluster-id", "kind": "break", "rule": "L5", "file": _P, "old": '            idx,\n            val,\n            name="{}".format(cluster_id),', "new": '            cluster_id,\n            val,\n            name="{}".format(cluster_id),'},
    # ---- subtler ones
    {"name": "L4-swallowed-in-load_data", "kind": "break", "rule": "L4", "file": _P, "old": "    pyclone_data, samples = load_pyclone_data(file_name)\n", "new": "    try:\n        pyclone_data, samples = load_pyclone_data(file_name)\n    except Exception:\n        pyclone_data, samples = OrderedDict(), []\n"},
    {"name": "L4-guard-le", "kind": "break", "rule": "L4", "file": _P, "old": "    if major_cn < minor_cn:", "new": "    if major_cn <= minor_cn:"},
    {"name": "L4-guard-wrong-operand", "kind": "break", "rule": "L4", "file": _P, "old": "    if major_cn < minor_cn:", "new": "    if major_cn < normal_cn:"},
    {"name": "L4-raise-removed", "kind": "break", "rule": "L4", "file": _P, "old": "        raise MajorCopyNumberError(major_cn, minor_cn)", "new": '        print("warning: major copy number below minor")'},
    {"name": "L1-samples-before-cn-filter", "kind": "break", "rule": "L1", "file": _P, "old": '    df = _remove_cn_zero_mutations(df)\n\n    samples = sorted(df["sample_id"].unique())\n', "new": '    samples = sorted(df["sample_id"].unique())\n\n    df = _remove_cn_zero_mutations(df)\n'},
    {"name": "L1-samples-after-group-filter", "kind": "break", "rule": "L1", "file": _P, "old": "    df = _remove_duplicated_and_partially_absent_mutations(df, samples)\n", "new": '    df = _remove_duplicated_and_partially_absent_mutations(df, samples)\n\n    samples = sorted(df["sample_id"].unique())\n'},
    {"name": "L1-count-off-by-one", "kind": "break", "rule": "L1", "file": _P, "old": "samples_len = len(samples)", "new": "samples_len = len(samples) - 1"},
    {"name": "L1-group-over-sample_id", "kind": "break", "rule": "L1", "file": _P, "old": 'df.groupby(df["mutation_id"])["sample_id"].transform("size")', "new": 'df.groupby(df["sample_id"])["sample_id"].transform("size")'},
    {"name": "L1-cn-filter-dropped", "kind": "break", "rule": "L1", "file": _P, "old": '    df = df.loc[df["major_cn"] > 0]\n    return df', "new": "    return df"},
    {"name": "L1-dedup-before-group-filter", "kind": "break", "rule": "L1", "file": _P, "old": "    df = _remove_cn_zero_mutations(df)\n", "new": "    df = _remove_cn_zero_mutations(df).drop_duplicates()\n"},
    {"name": "L1-cn-filter-complement-of-zero-under-any", "kind": "break", "rule": "L1", "file": _P, "old": '    df = df.loc[df["major_cn"] > 0]\n    return df', "new": '    is_zero = df["major_cn"] == 0\n    if is_zero.sum() > 0:\n        df = df.loc[~is_zero]\n    return df'},
    {"name": "benign-cn-filter-complement-under-any", "kind": "benign", "file": _P, "old": '    df = df.loc[df["major_cn"] > 0]\n    return df', "new": '    gone = df["major_cn"] <= 0\n    if gone.any():\n        df = df.loc[~gone]\n    return df'},
    {"name": "L6-cluster-id-to-text", "kind": "break", "rule": "L6", "file": _P, "old": '    cluster_df = pd.read_csv(cluster_file, sep="\\t")\n', "new": '    cluster_df = pd.read_csv(cluster_file, sep="\\t")\n    cluster_df["cluster_id"] = cluster_df["cluster_id"].astype(str)\n'},
    {"name": "L6-dtype-on-read", "kind": "break", "rule": "L6", "file": _P, "old": "    df = pd.read_table(file_name)\n", "new": "    df = pd.read_table(file_name, dtype=str)\n"},
    {"name": "benign-L6-usecols", "kind": "benign", "file": _P, "old": "    df = pd.read_table(file_name)\n", "new": "    df = pd.read_table(file_name, comment=None)\n"},
    {"name": "L1-cn-filter-not-equal", "kind": "break", "rule": "L1", "file": _P, "old": 'df = df.loc[df["major_cn"] > 0]', "new": 'df = df.loc[df["major_cn"] != 0]'},
    {"name": "L2-sort-on-wrong-key", "kind": "break", "rule": "L2", "file": _P, "old": 'df = df.sort_values(by="mutation_id", ascending=True)', "new": 'df = df.sort_values(by="sample_id", ascending=True)'},
    {"name": "L2-positional-read", "kind": "break", "rule": "L2", "file": _P, "old": 'a = group.at[sample, "ref_counts"]', "new": 'a = group["ref_counts"].iloc[0]'},
    {"name": "L2-vector-in-row-order", "kind": "break", "rule": "L2", "file": _P, "old": "        for sample in samples:\n\n            a = group.at", "new": "        for sample in group.index:\n\n            a = group.at"},
    {"name": "L2-read-at-other-sample", "kind": "break", "rule": "L2", "file": _P, "old": 'b = group.at[sample, "alt_counts"]', "new": 'b = group.at[samples[0], "alt_counts"]'},
    {"name": "L2-samples-from-set", "kind": "break", "rule": "L2", "file": _P, "old": 'samples = sorted(df["sample_id"].unique())', "new": 'samples = list(set(df["sample_id"]))'},
    {"name": "L3-presence-test-inverted", "kind": "break", "rule": "L3", "file": _P, "old": 'if "tumour_content" not in df.columns:', "new": 'if "tumour_content" in df.columns:'},
    {"name": "L3-guarded-by-other-column", "kind": "break", "rule": "L3", "file": _P, "old": 'if "error_rate" not in df.columns:', "new": 'if "tumour_content" not in df.columns:'},
    {"name": "L3-error-rate-column-ignored", "kind": "break", "rule": "L3", "file": _P, "old": '                error_rate=group.at[sample, "error_rate"],\n', "new": ""},
    {"name": "L5-clusters-unsorted", "kind": "break", "rule": "L5", "file": _P, "old": "enumerate(sorted(raw_data.keys()))", "new": "enumerate(raw_data.keys())"},
    {"name": "L5-enumerate-from-one", "kind": "break", "rule": "L5", "file": _P, "old": "enumerate(pyclone_data.items())", "new": "enumerate(pyclone_data.items(), 1)"},
    {"name": "L5-samples-descending", "kind": "break", "rule": "L5", "file": _P, "old": 'samples = sorted(df["sample_id"].unique())', "new": 'samples = sorted(df["sample_id"].unique(), reverse=True)'},
    {"name": "L5-mutations-descending", "kind": "break", "rule": "L5", "file": _P, "old": 'df.sort_values(by="mutation_id", ascending=True)', "new": 'df.sort_values(by="mutation_id", ascending=False)'},
    {"name": "L5-fallback-on-two-columns", "kind": "break", "rule": "L5", "file": _P, "old": "if len(df.columns) == 1:", "new": "if len(df.columns) == 2:"},
    {"name": "L5-fallback-returns-before-the-id-conversion", "kind": "break", "rule": "L5", "file": _P, "old": "    if len(df.columns) == 1:\n        df = pd.read_csv(file_name)\n", "new": "    if len(df.columns) == 1:\n        return pd.read_csv(file_name)\n"},
    {"name": "benign-L5-fallback-returns-after-its-own-conversion", "kind": "benign", "file": _P, "old": "    if len(df.columns) == 1:\n        df = pd.read_csv(file_name)\n", "new": "    if len(df.columns) == 1:\n        df = pd.read_csv(file_name)\n        df[\"sample_id\"] = df[\"sample_id\"].astype(str)\n        return df\n"},
    {"name": "L5-fallback-removed", "kind": "break", "rule": "L5", "file": _P, "old": "    if len(df.columns) == 1:\n        df = pd.read_csv(file_name)\n", "new": ""},
    {"name": "L5-cluster-value-from-other-key", "kind": "break", "rule": "L5", "file": _P, "old": "val = np.sum(np.array(raw_data[cluster_id]), axis=0)", "new": "val = np.sum(np.array(raw_data[idx]), axis=0)"},
    # ---- benign
    {"name": "benign-bracket-mask", "kind": "benign", "file": _P, "old": 'df = df.loc[df["major_cn"] > 0]', "new": 'df = df[df["major_cn"] > 0]'},
    {"name": "benign-commuted-compare", "kind": "benign", "file": _P, "old": 'df = df.loc[df["major_cn"] > 0]', "new": 'df = df.loc[0 < df["major_cn"]]'},
    {"name": "benign-query", "kind": "benign", "file": _P, "old": 'df = df.loc[df["major_cn"] > 0]', "new": 'df = df.query("major_cn > 0")'},
    {"name": "benign-split-mask", "kind": "benign", "file": _P, "old": "    df = df.loc[group_transform == samples_len]\n", "new": "    keep = samples_len == group_transform\n    kept = df.loc[keep]\n    df = kept\n"},
    {"name": "benign-split-samples", "kind": "benign", "file": _P, "old": 'samples = sorted(df["sample_id"].unique())', "new": 'sample_ids = df["sample_id"].unique()\n    samples = sorted(sample_ids)'},
    {"name": "benign-groupby-default-sort", "kind": "benign", "file": _P, "old": 'grouped = df.groupby("mutation_id", sort=False)', "new": 'grouped = df.groupby("mutation_id")'},
    {"name": "benign-str-name", "kind": "benign", "file": _P, "old": 'name="{}".format(cluster_id),', "new": "name=str(cluster_id),"},
    {"name": "benign-shape-probe", "kind": "benign", "file": _P, "old": "if len(df.columns) == 1:", "new": "if df.shape[1] == 1:"},
    {"name": "benign-guard-commuted", "kind": "benign", "file": _P, "old": "    if major_cn < minor_cn:", "new": "    if minor_cn > major_cn:"},
    {"name": "benign-extract-helper", "kind": "benign", "file": _P, "edits": [{"file": _P, "old": _CALL, "new": _CALL_HELPER}, {"file": _P, "old": "def get_major_cn_prior(major_cn, minor_cn, normal_cn, error_rate=1e-3):", "new": _HELPER_DEF}]},
    {"name": "benign-added-print", "kind": "benign", "file": _P, "old": "    total_cn = major_cn + minor_cn\n", "new": '    total_cn = major_cn + minor_cn\n    print("total copy number", total_cn)\n'},
    {"name": "benign-reraise-handler", "kind": "benign", "file": _P, "old": "    pyclone_data, samples = load_pyclone_data(file_name)\n", "new": "    try:\n        pyclone_data, samples = load_pyclone_data(file_name)\n    except MajorCopyNumberError as err:\n        print(err)\n        raise\n"},
    {"name": "benign-setcol-default", "kind": "benign", "file": _P, "old": 'df.loc[:, "error_rate"] = 1e-3', "new": 'df["error_rate"] = 0.001'},
]
