"""TS — translation validation of the tree editor against a frozen reference semantics.

The pairing rules of C06 / C07 decide that edits are followed by refreshes and that views move together;
they do not decide that an edit *does* what it is named for (that create_root_node re-parents the chosen
children, that add_data_point_to_outliers adds anything at all …).  This rule closes that gap: every
method of Tree / TreeNode / the two updating visitors is interpreted by TermFlow (same-class calls kept
opaque, copies not identified with their originals) and compared — returned value, effects in order with
the condition under which each happens, final attribute stores — with the frozen reference source in
_treespec_src.py (the pinned, repaired implementation, reviewed against the statements).  Semantics-
preserving refactors (renames, statement split/merge, helper extraction inside a method, commutative
reordering) are invisible; a dropped, added, reordered or re-conditioned effect is reported.
"""
import ast

from ..formula import extract, same, same_events, spec
from ..model import AnalysisError
from ..termflow import Unsupported, show
from ._treespec_src import REFERENCE

# pure queries: their order relative to other calls is immaterial, they are compared through the terms they feed
QUERIES = {
    ".successors", ".predecessors", ".node_indices", ".nodes", ".num_nodes", ".out_degree", ".in_degree", ".edge_list", ".items", ".values",
    ".keys", ".copy", ".get", ".weighted_edge_list", ".isdisjoint", ".subgraph", "rustworkx.descendants", "rustworkx.all_simple_paths",
    "len", "sorted", "list", "max", "min", "sum", "isinstance", "itertools.chain.from_iterable", "log", "np.full", "np.zeros", "str", "int", "frozenset", "set",
    "collections.defaultdict", "new:TreeNode", "new:Tree", "rustworkx.PyDiGraph", "new:PostOrderNodeUpdater", "new:PreOrderNodeRelabeller",
    "new:GraphToCladesVisitor", "new:GraphToNewickVisitor", "np.array_equal", "map",
}


def _effects(ex):
    out = []
    for e in ex.events:
        if e.name in QUERIES:
            continue
        if e.name.startswith(".get_") or e.name in (".get_parent", ".get_children", ".get_data", ".get_data_len", ".get_descendants"):
            continue
        out.append(e)
    return out


def _self_methods(prog, ci):
    names = set()
    for c in prog.mro(ci):
        names |= set(c.methods)
    return names - {"__init__"}


def rule_TS(ctx, owners=None, rule="TS", skip=()):
    prog = ctx.prog
    ctx.rule(rule, "tree editor methods agree with the frozen reference semantics (returned value, ordered effects with their conditions, final stores)", 30)
    done = 0
    for q, src in REFERENCE.items():
        owner = q.rsplit(".", 1)[0]
        if owners is not None and not any(owner.endswith(o) for o in owners):
            continue
        if q in skip:
            continue
        fi = prog.functions.get(q)
        short = q.split("phyclone.")[-1]
        if fi is None:
            ctx.fail(rule, short + " exists", "phyclone", "the reference method %s no longer exists under that name" % q, construct=q, stmt="method present")
            continue
        opaque = _self_methods(prog, fi.cls) if fi.cls is not None else set()
        opts = dict(opaque_self_methods=opaque, copy_is_identity=False, no_inline=["compute_log_S", "_clades", "get_clades"])
        try:
            ex = extract(prog, fi, **opts)
            sp = spec(prog, src, fi, **opts)
        except Unsupported as e:
            ctx.note("%s: not interpretable by TermFlow (%s) - covered by the pairing rules only" % (short, str(e)[:100]))
            continue
        ok = True
        ok &= same(ctx, rule, short + ": returned value", fi, ex.result, sp.result, "returned value", stmt="result")
        ok &= same_events(ctx, rule, short + ": effects", fi, _effects(ex), _effects(sp), "ordered effects", guards=True)
        gs, ws = ex.stores(), sp.stores()
        for k in sorted(set(gs) | set(ws), key=repr):
            if k not in gs or k not in ws:
                ctx.fail(rule, "%s: final store .%s" % (short, k[1]), fi.where(), "attribute .%s is %s in the code and %s in the reference" % (k[1], "stored" if k in gs else "not stored", "stored" if k in ws else "not stored"), construct=q, stmt="store ." + k[1])
                ok = False
            else:
                ok &= same(ctx, rule, "%s: final store .%s" % (short, k[1]), fi, gs[k], ws[k], "." + k[1], stmt="store ." + k[1])
        done += 1
        ctx.analysed(fi)
    return done
