"""TS — translation validation of the tree editor against a frozen reference semantics.

The pairing rules of C06 / C07 decide that edits are followed by refreshes and that views move together;
they do not decide that an edit *does* what it is named for (that create_root_node re-parents the chosen
children, that add_data_point_to_outliers adds anything at all, that get_parent reads the first
predecessor …).  This rule closes that gap.  Every method of Tree / TreeNode (and tree.utils' clade
helpers) is interpreted by TermFlow with same-class helpers inlined and compared with the frozen
reference source in _treespec_src.py (the pinned, repaired implementation, reviewed against the
statements):

* queries (no effects): the returned term;
* editors: in every guard scenario, the multiset of *primitive* effects — calls on the rustworkx graph,
  on node payloads, on the per-clone data lists, stores into the maps and slots — with their receivers and
  arguments; refresh calls (_update_path_to_root / update / _update_node) are excluded (where and whether
  to refresh is decided by C06.M1 / M2, which accept a full update() for a path refresh), printing too.

Insensitive to renaming, statement split/merge, helper extraction / inlining, reordering of independent
effects, `x += v` vs `x = x + v`, refreshing more than needed; sensitive to a dropped, added or
re-conditioned effect, a wrong receiver / argument / index, a changed returned value.
"""
import ast

from ..formula import extract, same, same_effects, spec
from ..model import AnalysisError
from ..termflow import ADict, AList, Poly, Unsupported, show
from ._treespec_src import REFERENCE

REFRESH = {"_update_path_to_root", "update", "_update_node", "update_node_from_child_r_vals"}
# never compared as effects: pure queries, constructors, printing, and the refresh calls
IGNORED = {
    ".successors", ".predecessors", ".node_indices", ".nodes", ".num_nodes", ".out_degree", ".in_degree", ".edge_list", ".items", ".values",
    ".keys", ".copy", ".get", ".weighted_edge_list", ".isdisjoint", ".subgraph", "rustworkx.descendants", "rustworkx.all_simple_paths",
    "len", "sorted", "list", "max", "min", "sum", "isinstance", "itertools.chain.from_iterable", "log", "np.full", "np.zeros", "str", "int", "frozenset", "set",
    "collections.defaultdict", "new:TreeNode", "new:Tree", "rustworkx.PyDiGraph", "new:PostOrderNodeUpdater", "new:PreOrderNodeRelabeller",
    "new:GraphToCladesVisitor", "new:GraphToNewickVisitor", "np.array_equal", "map", "print", "dict", ".__new__", "compute_log_S",
    "rustworkx.dfs_search", ".format", "reversed", "any", "all",
} | {"." + r for r in REFRESH}

# methods that only compute a value
QUERY_METHODS = {
    "graph@getter", "data@getter", "data_log_likelihood@getter", "labels@getter", "nodes@getter", "get_number_of_nodes", "node_data@getter",
    "outliers@getter", "roots@getter", "get_children", "get_number_of_children", "get_descendants", "get_number_of_descendants", "get_parent",
    "get_data", "get_data_len", "get_subtree_data_len", "multiplicity@getter", "node_last_added_to@getter", "root_node_name@getter",
    "outlier_node_name@getter", "to_newick_string", "get_clades", "to_dict", "_clades", "_is_data_point_in_tree",
}
SKIP = {"phyclone.tree.tree_node.TreeNode.copy"}
# the refresh machinery itself: compared with its own callees visible
REFRESH_IMPL = {"update", "_update_path_to_root", "_update_node", "update_node_from_child_r_vals"}
RECURSION = {"compute_log_S", "_sub_compute_S", "compute_log_D", "_convolve_two_children", "_np_conv_dims", "fft_convolve_two_children"}


def _as_attr_store(e):
    """`obj.attr += v` (a store to the attribute) and `a = obj.attr; a += v` (an in-place update of the array the
    attribute holds) leave the attribute holding the same value: one effect, two spellings."""
    from ..termflow import Event, poly_from_key, _is_polykey

    if e.name == "store_content" and len(e.args) == 2 and isinstance(e.args[0], Poly):
        a = e.args[0].as_atom()
        if a is not None and a[0] == "attr" and _is_polykey(a[1]):
            n = Event("store_attr", [poly_from_key(a[1]), e.args[1]], {"attr": a[2]}, e.guards, e.node)
            n.full_guards = list(e.full_guards)
            return n
    return e


def _object_stored(e):
    """`obj.slot = G` where G is a graph object that the function goes on editing: what is stored is the *object*; whether
    the edits happen before or after the store (a helper that builds and returns the graph, against edits through the slot)
    is visible in the edit effects themselves.  The stored value is reduced to the object under its `«edit»` marks when every
    alternative of a conditional value is the same object."""
    from ..termflow import Event, key_atom, poly_from_key, _is_polykey

    if e.name != "store_attr" or len(e.args) != 2 or not isinstance(e.args[1], Poly):
        return e

    def strip(k):
        a = key_atom(k) if isinstance(k, tuple) else None
        while a is not None and a[0] == "upd":
            k = a[2]
            a = key_atom(k)
        return k

    k = e.args[1].key()
    a = key_atom(k)
    if a is not None and a[0] == "cond":
        bases = {strip(v) for _, v in a[1]}
        if len(bases) != 1:
            return e
        base = bases.pop()
    else:
        base = strip(k)
    if base == k or not _is_polykey(base):
        return e
    ba = key_atom(base)
    if ba is None or ba[0] != "call" or "PyDiGraph" not in str(ba[1]):
        return e
    n = Event("store_attr", [e.args[0], poly_from_key(base)], dict(e.kwargs), e.guards, e.node)
    n.full_guards = list(getattr(e, "full_guards", e.guards))
    return n


def _effects(ex, ignored=IGNORED, keep_log_r=False):
    out = []
    for e in map(_object_stored, map(_as_attr_store, ex.events)):
        if e.name == ".update" and e.args:
            pass  # dict.update(mapping): an effect (only the argument-less Tree.update() is a refresh)
        elif e.name in ignored or e.name.startswith(".get_"):
            continue
        if e.name == "store_attr" and isinstance(e.kwargs.get("attr"), str) and e.kwargs["attr"].startswith("__"):
            continue
        if e.name == "store_sub" and e.args and isinstance(e.args[0], (ADict, AList)):
            continue  # filling a container created in this function: visible only through where the container goes
        if e.name == "store_attr" and e.kwargs.get("attr") == "log_r" and not keep_log_r:
            continue  # a cache: what it must hold after an edit is decided by C06.M2 / M3 and the refresh rules
        out.append(e)
    return out


def rule_TS(ctx, owners=None, rule="TS", only=None, minimum=8):
    prog = ctx.prog
    ctx.rule(rule, "tree editor methods agree with the frozen reference semantics: returned term of the queries; per guard scenario the multiset of primitive effects of the editors (refresh calls excluded)", minimum)
    done = 0
    # the reference of a method calls the *reference* helpers (a refactoring may change a private helper's calling
    # convention together with its callers)
    from ..model import FunctionInfo
    import textwrap

    override = {}
    for q, src in REFERENCE.items():
        cur = prog.functions.get(q)
        if cur is None:
            continue
        node = ast.parse(textwrap.dedent(src).strip("\n") + "\n").body[0]
        ref = FunctionInfo(q, node, cur.module, cls=cur.cls, parent=cur.parent)
        if node.decorator_list == [] and cur.node.decorator_list:
            node.decorator_list = [d for d in cur.node.decorator_list if ast.unparse(d) in ("staticmethod", "classmethod", "property")]
        override[q] = ref
    for q, src in REFERENCE.items():
        owner, name = q.rsplit(".", 1)
        if owners is not None and not any(owner.endswith(o) for o in owners):
            continue
        if q in SKIP or (only is not None and name not in only) or "visitors." in q or name in RECURSION:
            continue  # the recursion's numerics have their own shape rules (C02.N1-N4), which accept equivalent floors / fold orders
        fi = prog.functions.get(q)
        short = q.split("phyclone.")[-1]
        if fi is None:
            ctx.fail(rule, short + " exists", "phyclone", "the reference method %s no longer exists under that name" % q, construct=q, stmt="method present")
            continue
        opts = dict(opaque_self_methods=REFRESH, no_inline=["compute_log_S"], copy_is_identity=True, resolve_new_objects=True)
        if name in ("_clades", "get_clades") and owner.endswith("tree.utils"):
            opts["no_inline"] = ["compute_log_S", "_clades"]
        ignored = IGNORED
        if name in REFRESH_IMPL:
            opts["opaque_self_methods"] = REFRESH - {name} if name != "_update_path_to_root" else REFRESH
            ignored = IGNORED - {"." + r for r in REFRESH} - {"compute_log_S", "rustworkx.dfs_search"}
        if name in RECURSION:
            opts["no_inline"] = sorted(RECURSION - {name})
            ignored = IGNORED - {"compute_log_S"}
        try:
            ex = extract(prog, fi, **opts)
            sp = spec(prog, src, fi, override=override, **opts)
        except Unsupported as e:
            ctx.note("%s: not interpretable by TermFlow (%s) - covered by the pairing rules only" % (short, str(e)[:100]))
            continue
        keep = name not in ("add_data_point", "add_data_point_list", "remove_data_point")
        same_effects(ctx, rule, short + ": effects", fi, _effects(ex, ignored, keep), _effects(sp, ignored, keep), "primitive effects")
        if name in QUERY_METHODS or name in RECURSION:
            same(ctx, rule, short + ": value", fi, ex.result, sp.result, "returned value", stmt="result")
        else:
            if sp.result is not None and not (isinstance(sp.result, Poly) and "«" in show(sp.result)) and name not in ("copy", "__copy__", "get_subtree"):
                same(ctx, rule, short + ": value", fi, ex.result, sp.result, "returned value", stmt="result")
        done += 1
        ctx.analysed(fi)
    return done
