"""C05 — emission likelihood grids implement the PyClone mutation model (structural premises).

Decided here
  E1  the PyClone mixture: population weights (1-t, t(1-f), t f) paired with the (normal, reference,
      variant) columns of cn/mu, expected VAF, ll[c] = log_pi[c] + pmf(n = a+b, x = b, .), result
      log_sum_exp(ll); beta-binomial parameters (e_vaf s, s - e_vaf s); the two functions agree.
  E2  the pmf primitives of utils/math.py against formulas over interpreted primitives (lgamma, log).
  E3  the genotype table of get_major_cn_prior (rows, clamped VAFs, conditional extra row, uniform
      prior, lock-step growth of the three lists, MajorCopyNumberError guard).
  E4  grid = linspace(0, 1, grid_size); every (sample row, grid column) cell written; dispatch on
      the density string exhaustive for the CLI choices; cluster value = sum over members (axis 0);
      outlier prior terms (log p * size, log1p(-p) * size), (0, 0) when p == 0.
  E5  column -> field agreement (ref_counts -> a, alt_counts -> b, tumour_content -> t, prior
      arguments major/minor/normal/error_rate in the order E3's table reads them).
  M   specifications of the shared numeric helpers of utils/math.py that other properties use
      (log_sum_exp, log_normalize, exp_normalize, discrete_rvs, log_factorial,
      log_binomial_coefficient, log_multinomial_coefficient, log_beta, and the two cached wrappers).

Every utils/math.py specification is written over *interpreted* primitives (np.log, np.exp,
math.lgamma, np.log1p), never by calling the helper under test: TermFlow inlines utils/math.py on
both sides, so a spec that called the helper would mutate together with the code.

NOT decided: that the pmf sums to one numerically; numba typing / fastmath effects; math.lgamma
accuracy; pandas semantics of the column reads.
"""
import ast

from ..astutil import calls, call_name, kwarg, u
from ..formula import atoms_of, extract, same, same_events, spec, _clip
from ..model import AnalysisError
from ..paths import enumerate_paths
from ..termflow import (
    ATuple,
    Event,
    Poly,
    Unsupported,
    equivalent,
    g_and,
    g_cmp,
    key_atom,
    poly_from_key,
    _is_polykey,
    TRUE,
    show,
    show_key,
    vkey,
)

PYCLONE = "phyclone/data/pyclone.py"
MATH = "phyclone/utils/math.py"


# --------------------------------------------------------------------------- small helpers
def _equiv(rule, instance, a, b):
    try:
        return equivalent(a, b)[0]
    except Unsupported as e:
        raise AnalysisError("%s / %s: %s" % (rule, instance, e))


def _same_any(ctx, rule, instance, fi, got, wants, what):
    """Obligation: `got` equals one of the admissible specification terms `wants` (equivalent ways of
    writing the same value that TermFlow cannot identify, e.g. x.sum() / np.sum(x))."""
    for w in wants[:-1]:
        if _equiv(rule, instance, got, w):
            return same(ctx, rule, instance, fi, got, w, what)
    return same(ctx, rule, instance, fi, got, wants[-1], what)


def _nonraising(ex, mark_raises=False):
    """[(guard, value key)] of the normally-returning alternatives of a function's result (raising paths
    are dropped, so exception texts never enter a comparison; the last alternative is made unconditional)."""
    res = ex.result
    a = res.as_atom() if isinstance(res, Poly) else None
    if a is not None and a[0] == "cond":
        alts = []
        for g, v in a[1]:
            va = key_atom(v)
            if va is not None and va[0] == "raise":
                # where the function raises there is no returned value to compare: one marker on both sides (which
                # exception, under which test, is E3's last instance / L4's business)
                if mark_raises:
                    alts.append((g, ("const", "'<raises>'")))
                continue
            alts.append((g, v))
    else:
        alts = [(TRUE, vkey(res))]
    if not alts:
        raise AnalysisError("%s: no normally-returning path" % ex.fi.qualname)
    alts[-1] = (TRUE, alts[-1][1])
    return alts


def _as_value(alts):
    if len(alts) == 1:
        k = alts[0][1]
        return poly_from_key(k) if _is_polykey(k) else Poly.atom(("val", k))
    return Poly.atom(("cond", tuple(alts)))


def _returned(ex):
    """The value returned on the non-raising paths, as one guarded term."""
    return _as_value(_nonraising(ex))


def _returned_components(ex, n):
    """The n components of the tuple returned on the non-raising paths, each as one guarded term."""
    alts = _nonraising(ex, mark_raises=True)
    marker = ("const", "'<raises>'")
    for g, v in alts:
        if v != marker and not (isinstance(v, tuple) and v and v[0] == "tuple" and len(v) == n + 1):
            raise AnalysisError("%s: a returning path does not return a %d-tuple (unrecognised shape)" % (ex.fi.qualname, n))
    return [_as_value([(g, v if v == marker else v[1 + i]) for g, v in alts]) for i in range(n)]


def _subs_of(ex, basekey):
    return {k[1]: v for k, v in ex.sub_stores().items() if k[0] == basekey}


def _filtered(events, drop_kwargs=()):
    return [Event(e.name, e.args, {k: v for k, v in e.kwargs.items() if k not in drop_kwargs}, e.guards, e.node, recv=e.recv) for e in events]


def _events_named(ex, last):
    """Uninterpreted calls whose callee's last name component is `last` (new:X, a.b.X, X)."""
    return [e for e in ex.events if e.name.split(":")[-1].split(".")[-1] == last and not e.name.startswith(".")]


def _compare_store_tables(ctx, rule, label, fi, got, want, what):
    """`got`/`want`: {index key: value}.  Same index sets (= same loop domains), equal values."""
    gk, wk = set(got), set(want)
    res = ctx.check(
        gk == wk and len(gk) > 0, rule, "%s: cells written" % label, fi.where(),
        "%s is written at %s but the specification writes %s" % (what, sorted(show_key(k) for k in gk) or "no index", sorted(show_key(k) for k in wk)),
        construct=fi.qualname, stmt=what + " index set",
        detail="indices %s" % sorted(show_key(k) for k in gk),
    )
    for k in sorted(wk, key=repr):
        inst = "%s: %s[%s]" % (label, what, show_key(k))
        if k in got:
            res = same(ctx, rule, inst, fi, got[k], want[k], "%s[%s]" % (what, show_key(k)), stmt=what + " value") and res
        else:
            ctx.fail(rule, inst, fi.where(), "the specified cell %s[%s] is never written" % (what, show_key(k)), construct=fi.qualname, stmt=what + " value")
            res = False
    return res


# --------------------------------------------------------------------------- E1
MIX_NO_INLINE = ["log_binomial_pdf", "log_beta_binomial_pdf", "log_sum_exp"]

SPEC_MIX = """
def s(data, f%(extra)s):
    t = data.t
    w = (1 - t, t * (1 - f), t * f)
    ll = np.zeros(len(data.cn))
    for c in range(len(data.cn)):
        num = sum(w[i] * data.cn[c, i] * data.mu[c, i] for i in range(3))
        den = sum(w[i] * data.cn[c, i] for i in range(3))
        e_vaf = num / den
        ll[c] = data.log_pi[c] + %(pdf)s
    return log_sum_exp(ll)
"""
MIX = {
    "log_pyclone_binomial_pdf": ("log_binomial_pdf", {"extra": "", "pdf": "log_binomial_pdf(data.a + data.b, data.b, e_vaf)"}),
    "log_pyclone_beta_binomial_pdf": ("log_beta_binomial_pdf", {"extra": ", s", "pdf": "log_beta_binomial_pdf(data.a + data.b, data.b, e_vaf * s, s - e_vaf * s)"}),
}


def _lse_arg(res):
    """Key of X when the term is exactly log_sum_exp(X), else None."""
    a = res.as_atom() if isinstance(res, Poly) else None
    if a is not None and a[0] == "call" and a[1] == "log_sum_exp" and len(a[2]) == 1 and not a[3]:
        return a[2][0]
    return None


def rule_E1(ctx):
    prog = ctx.prog
    ctx.rule("E1", "PyClone mixture: weights (1-t, t(1-f), t f) x (normal, ref, var) columns -> e_vaf; ll[c] = log_pi[c] + pmf(a+b, b, .); log_sum_exp(ll); beta-binomial (e_vaf s, s - e_vaf s); siblings agree", 12)
    pdf_events = {}
    for name, (pdf, fill) in MIX.items():
        f = prog.fn("pyclone." + name)
        ex = extract(prog, f, no_inline=MIX_NO_INLINE)
        sp = spec(prog, SPEC_MIX % fill, f, no_inline=MIX_NO_INLINE)
        base = _lse_arg(ex.result)
        got = _subs_of(ex, base) if base is not None else {}
        ok = ctx.check(
            base is not None and len(got) > 0, "E1", name + ": returns log_sum_exp of the per-genotype array it filled", f.where(),
            "the result is %s, not log_sum_exp(<the array that receives log_pi[c] + pmf(...)>)" % _clip(show(ex.result)),
            construct=f.qualname, stmt="return log_sum_exp(ll)",
        )
        if ok:
            want = _subs_of(sp, _lse_arg(sp.result))
            _compare_store_tables(ctx, "E1", name, f, got, want, "ll")
            ctx.check(
                any(_mentions(base, k) for k in _genotype_tables()), "E1",
                name + ": the array is sized by the genotype table (data.cn / data.mu / data.log_pi)", f.where(),
                "the array reduced by log_sum_exp is %s, whose size does not derive from the genotype table" % _clip(show_key(base)),
                construct=f.qualname, stmt="ll size",
            )
            # one slot per genotype: the allocation's length is the length of the genotype table
            allocs = [a for a in atoms_of(base, tag="call") if a[1] in ("np.ones", "np.zeros", "np.full", "np.empty", "numpy.ones", "numpy.zeros", "numpy.full", "numpy.empty") and a[2]]
            if allocs:
                from ..termflow import equivalent, poly_from_key, _is_polykey

                n_key = allocs[0][2][0]
                n_got = poly_from_key(n_key) if _is_polykey(n_key) else Poly.atom(n_key)
                p0 = Poly.atom(("v", "P0"))
                cands = [Poly.atom(("call", "len", (("attr", p0.key(), a),), ())) for a in ("cn", "mu", "log_pi")]
                cands_k = [Poly.atom(("call", "len", (Poly.atom(("attr", p0.key(), a)).key(),), ())) for a in ("cn", "mu", "log_pi")]
                fine = any(equivalent(n_got, c)[0] for c in cands + cands_k)
                ctx.check(
                    fine, "E1", name + ": the array has exactly one slot per genotype", f.where(),
                    "the array reduced by log_sum_exp is allocated with %s slots, the loop fills one per row of the genotype table: the last genotypes are written out of bounds / left at their initial value" % _clip(show(n_got)),
                    construct=f.qualname, stmt="ll length",
                )
        same_events(ctx, "E1", name + ": pmf(n = a + b, x = b, ...) per genotype", f, ex.calls(pdf), sp.calls(pdf), "%s(...) calls" % pdf)
        pdf_events[name] = (f, ex.calls(pdf))
        ctx.analysed(f)
    # sibling agreement: same n, x, expected VAF; (a, b) = (e_vaf s, s - e_vaf s)
    (fb, evb), (fbb, evbb) = pdf_events["log_pyclone_binomial_pdf"], pdf_events["log_pyclone_beta_binomial_pdf"]
    if len(evb) == len(evbb) and evb and all(len(e.args) == 3 for e in evb) and all(len(e.args) == 4 for e in evbb):
        s_par = Poly.atom(("v", "P2"))
        for i, (eb, ebb) in enumerate(zip(evb, evbb)):
            same(ctx, "E1", "siblings, genotype %d: same depth and alt count" % i, fbb, ATuple(ebb.args[:2]), ATuple(eb.args[:2]), "(n, x)", stmt="sibling (n, x)")
            same(ctx, "E1", "siblings, genotype %d: beta-binomial mean a/(a+b) is the binomial's e_vaf" % i, fbb, ebb.args[2] / (ebb.args[2] + ebb.args[3]), eb.args[2], "a / (a + b)", stmt="sibling mean")
            same(ctx, "E1", "siblings, genotype %d: a + b is the precision" % i, fbb, ebb.args[2] + ebb.args[3], s_par, "a + b", stmt="sibling precision")
    else:
        ctx.fail("E1", "siblings: one pmf call per genotype in both functions", fbb.where(), "the two mixture functions do not call their pmf the same number of times / with the expected arity", construct=fbb.qualname, stmt="sibling shape")


def _genotype_tables():
    p0 = Poly.atom(("v", "P0")).key()
    return [("attr", p0, a) for a in ("cn", "mu", "log_pi")]


def _mentions(k, sub):
    if k == sub:
        return True
    if isinstance(k, tuple):
        return any(_mentions(y, sub) for y in k)
    return False


# --------------------------------------------------------------------------- E2 / M
COEF = "math.lgamma(n + 1) - math.lgamma(x + 1) - math.lgamma(n - x + 1)"
BIN_LIK = """
    if p == 0:
        if x == 0:
            lik = 0
        else:
            lik = -np.inf
    elif p == 1:
        if x == n:
            lik = 0
        else:
            lik = -np.inf
    else:
        lik = x * np.log(p) + (n - x) * np.log(1 - p)
"""
# log-sum-exp of %(x)s -> z, over interpreted primitives; a conditional *expression*, so that the specification does
# not fork paths where the code does not (forked paths carry separate list objects)
LSE = """
    m = np.max(%(x)s)
    z = m if np.isinf(m) else np.log(sum(np.exp(v) for v in %(x)s))
"""

# name -> (rule ids, no_inline, [spec sources])   (several sources = admissible equivalent spellings)
MATH_SPECS = {
    "log_factorial": (("E2", "M"), (), ["def s(x):\n    return math.lgamma(x + 1)\n"]),
    "log_binomial_coefficient": (("E2", "M"), (), ["def s(n, x):\n    return %s\n" % COEF]),
    "log_beta": (("E2", "M"), (), ["def s(a, b):\n    if a <= 0 or b <= 0:\n        return -np.inf\n    return math.lgamma(a) + math.lgamma(b) - math.lgamma(a + b)\n"]),
    "log_binomial_likelihood": (("E2",), (), ["def s(n, x, p):\n%s    return lik\n" % BIN_LIK]),
    "log_binomial_pdf": (("E2",), (), ["def s(n, x, p):\n%s    return %s + lik\n" % (BIN_LIK, COEF)]),
    # log_beta is specified on its own (above); here it stays an uninterpreted symbol on both sides
    "log_beta_binomial_likelihood": (("E2",), ("log_beta",), ["def s(n, x, a, b):\n    return log_beta(a + x, b + n - x) - log_beta(a, b)\n"]),
    "log_beta_binomial_pdf": (("E2",), ("log_beta",), ["def s(n, x, a, b):\n    return %s + log_beta(a + x, b + n - x) - log_beta(a, b)\n" % COEF]),
    "log_sum_exp": (("M",), (), ["def s(log_X):\n%s    return z\n" % (LSE % {"x": "log_X"})]),
    "log_normalize": (("M",), (), ["def s(log_p):\n%s    return log_p - z\n" % (LSE % {"x": "log_p"})]),
    "exp_normalize": (("M",), (), [
        "def s(log_p):\n%s    q = np.exp(log_p - z)\n    return q / q.sum(), z\n" % (LSE % {"x": "log_p"}),
        "def s(log_p):\n%s    q = np.exp(log_p - z)\n    return q / np.sum(q), z\n" % (LSE % {"x": "log_p"}),
    ]),
    "discrete_rvs": (("M",), (), [
        "def s(p, rng):\n    return rng.multinomial(1, p / np.sum(p)).argmax()\n",
        "def s(p, rng):\n    return rng.multinomial(1, p / p.sum()).argmax()\n",
    ]),
    "log_multinomial_coefficient": (("M",), (), ["def s(x):\n    if len(x) == 0:\n        return 0\n    return math.lgamma(np.sum(x) + 1) - sum(math.lgamma(v + 1) for v in x)\n"]),
    "cached_log_factorial": (("M",), (), ["def s(x):\n    return math.lgamma(x + 1)\n"]),
    "cached_log_binomial_coefficient": (("M",), (), ["def s(n, x):\n    return %s\n" % COEF]),
}


def rule_E2_M(ctx):
    prog = ctx.prog
    ctx.rule("E2", "pmf primitives: lgamma-coefficient + x log p + (n-x) log(1-p) with the p in {0,1} guards; + B(a+x, b+n-x) - B(a,b); B = lgamma a + lgamma b - lgamma(a+b), -inf outside the domain", 7)
    ctx.rule("M", "shared helpers of utils/math.py equal their mathematical definition over interpreted primitives (log-sum-exp with the all-infinite early return, normalisers, discrete draw, factorial / binomial / multinomial coefficients, log-beta)", 10)
    for name, (rules, no_inl, sources) in MATH_SPECS.items():
        f = prog.fn("utils.math." + name)
        ex = extract(prog, f, no_inline=list(no_inl))
        wants = [spec(prog, src, f, no_inline=list(no_inl)).result for src in sources]
        for r in rules:
            _same_any(ctx, r, "utils.math." + name, f, ex.result, wants, "returned value")
        ctx.analysed(f)


# --------------------------------------------------------------------------- E3
SPEC_PRIOR = """
def s(major_cn, minor_cn, normal_cn, error_rate=1e-3):
    if major_cn < minor_cn:
        raise ValueError()
    total = major_cn + minor_cn
    cn = []
    mu = []
    log_pi = []
    for x in range(1, major_cn + 1):
        cn.append((normal_cn, normal_cn, total))
        mu.append((error_rate, error_rate, min(1 - error_rate, x / total)))
        log_pi.append(0)
    if (normal_cn, total, total) not in cn:
        cn.append((normal_cn, total, total))
        mu.append((error_rate, error_rate, min(1 - error_rate, 1 / total)))
        log_pi.append(0)
    lp = np.array(log_pi, dtype=float)
%s    return np.array(cn, dtype=int), np.array(mu, dtype=float), lp - z
""" % (LSE % {"x": "lp"})


def rule_E3(ctx):
    prog = ctx.prog
    ctx.rule("E3", "genotype table: x in 1..major -> cn (normal, normal, total), mu (eps, eps, min(1-eps, x/total)); extra (normal, total, total) / min(1-eps, 1/total) iff absent; uniform normalised log_pi; lists grow in lock step; floating dtypes; MajorCopyNumberError iff major < minor", 8)
    f = prog.fn("pyclone.get_major_cn_prior")
    ex = extract(prog, f)
    sp = spec(prog, SPEC_PRIOR, f)
    ev_g, ev_w = ex.calls("min"), sp.calls("min")
    got, want = _returned_components(ex, 3), _returned_components(sp, 3)
    okv = True
    for i, nm in enumerate(("cn (copy numbers of the normal / reference / variant populations)", "mu (per-population VAF, clamped to 1 - eps)", "log_pi (uniform, normalised)")):
        okv = same(ctx, "E3", "get_major_cn_prior: " + nm, f, got[i], want[i], nm.split(" ")[0], stmt=nm.split(" ")[0]) and okv
    # the extra genotype is added exactly when it is absent: guards of the clamped-VAF computations
    if len(ev_g) != len(ev_w):
        if okv:
            raise AnalysisError("get_major_cn_prior: %d min(...) computations, specification has %d (unrecognised shape)" % (len(ev_g), len(ev_w)))
        ctx.fail("E3", "get_major_cn_prior: rows are added under the specified conditions (extra row iff (normal, total, total) not yet present)", f.where(),
                 "%d clamped-VAF computations min(1 - eps, .), the specification has %d (one per genotype row)" % (len(ev_g), len(ev_w)), construct=f.qualname, stmt="row guards")
    elif okv:
        # the three returned tables agree with the specification in every scenario, rows present or absent included: where
        # the candidate row's VAF is *computed* (before or under the membership test) does not matter
        ctx.ok("E3", "get_major_cn_prior: rows are added under the specified conditions (extra row iff (normal, total, total) not yet present)", f.where(), "decided by the comparison of the returned tables")
    else:
        bad = None
        for i, (g, w) in enumerate(zip(ev_g, ev_w)):
            if g_and(g.guards) != g_and(w.guards):
                bad = "genotype row %d is built under %s, the specification builds it under %s" % (i, show(g_and(g.guards)), show(g_and(w.guards)))
                break
        ctx.check(bad is None, "E3", "get_major_cn_prior: rows are added under the specified conditions (extra row iff (normal, total, total) not yet present)", f.where(), bad or "", construct=f.qualname, stmt="row guards")
    # lock step: on every returning path cn, mu and log_pi receive the same number of rows
    names = sorted({c.func.value.id for c in calls(f.node, last="append") if isinstance(c.func, ast.Attribute) and isinstance(c.func.value, ast.Name)})
    if len(names) < 3 and okv:
        # the tables are not grown by three parallel appends (rows carried as records, say): equal lengths in every
        # scenario follow from the comparison of the three returned tables with the specification's
        ctx.ok("E3", "get_major_cn_prior: cn / mu / log_pi have one entry per genotype row", f.where(), "decided by the comparison of the returned tables")
    elif len(names) < 3:
        raise AnalysisError("get_major_cn_prior: fewer than three lists are grown with .append (unrecognised shape)")
    bad = None
    npaths = 0
    for steps, oc in (enumerate_paths(f.node.body) if len(names) >= 3 else []):
        if oc != "return":
            continue
        npaths += 1
        cnt = dict.fromkeys(names, 0)
        for st in steps:
            if st.kind != "stmt":
                continue
            for c in calls(st.node, last="append"):
                if isinstance(c.func.value, ast.Name) and c.func.value.id in cnt:
                    cnt[c.func.value.id] += 1
        if len(set(cnt.values())) != 1 and bad is None:
            bad = "on a path the lists receive different numbers of rows: %s" % cnt
    if npaths == 0 and len(names) >= 3:
        raise AnalysisError("get_major_cn_prior: no returning path")
    if len(names) >= 3:
        ctx.check(bad is None, "E3", "get_major_cn_prior: %s grow in lock step on all %d returning paths" % ("/".join(names), npaths), f.where(), bad or "", construct=f.qualname, stmt="lock step")
    # mu and log_pi are real-valued: no integer dtype on the way out (np.array(x, dtype=...) is the identity for TermFlow)
    _dtype_check(ctx, f)
    # MajorCopyNumberError exactly when major < minor
    a = ex.result.as_atom() if isinstance(ex.result, Poly) else None
    raises = []
    if a is not None and a[0] == "cond":
        for g, v in a[1]:
            va = key_atom(v)
            if va is not None and va[0] == "raise":
                raises.append((g, va[1]))
    want_g = g_cmp("<", Poly.atom(("v", "P0")), Poly.atom(("v", "P1")))
    ok = len(raises) == 1 and raises[0][0] == want_g and "MajorCopyNumberError" in raises[0][1]
    ctx.check(ok, "E3", "get_major_cn_prior: raises MajorCopyNumberError iff major_cn < minor_cn", f.where(),
              "raising alternatives found: %s (expected exactly one, MajorCopyNumberError under P0 < P1)" % [(show(g), t) for g, t in raises], construct=f.qualname, stmt="raise guard")
    ctx.analysed(f)


INT_DTYPES = {"int", "np.int64", "np.int32", "np.int_", "numpy.int64", "'int'", "np.intp", "np.uint8", "bool"}


def _dtype_check(ctx, f):
    rets = [n for n in ast.walk(f.node) if isinstance(n, ast.Return) and n.value is not None]
    if len(rets) != 1 or not isinstance(rets[0].value, ast.Tuple) or len(rets[0].value.elts) != 3:
        raise AnalysisError("get_major_cn_prior: return is not a literal triple (unrecognised shape)")
    for pos, what in ((1, "mu"), (2, "log_pi")):
        e = rets[0].value.elts[pos]
        exprs = [e]
        if isinstance(e, ast.Name):
            exprs = [s.value for s in ast.walk(f.node) if isinstance(s, ast.Assign) and any(isinstance(t, ast.Name) and t.id == e.id for t in s.targets)]
        bad = [u(c) for x in exprs for c in calls(x) if kwarg(c, "dtype") is not None and u(kwarg(c, "dtype")) in INT_DTYPES]
        bad += [u(c) for x in exprs for c in calls(x, last="astype") if c.args and u(c.args[0]) in INT_DTYPES]
        ctx.check(not bad, "E3", "get_major_cn_prior: %s keeps a floating dtype" % what, f.where(rets[0]),
                  "%s is cast to an integer dtype (%s): allele fractions / log-probabilities are truncated" % (what, "; ".join(bad)), construct=f.qualname, stmt=what + " dtype")


# --------------------------------------------------------------------------- E4
SPEC_GRID_DRIVER = """
def s(self, density, grid_size, precision=None):
    log_ll = np.zeros((len(self.samples), grid_size))
    _compute_liklihood_grid(np.linspace(0, 1, grid_size), density, log_ll, precision, %s)
    return log_ll
"""
SPEC_GRID_KERNEL = """
def s(ccf_grid, density, log_ll, precision, sample_data_points):
    for s_idx, data_point in enumerate(sample_data_points):
        for i, ccf in enumerate(ccf_grid):
            if density == "beta-binomial":
                log_ll[s_idx, i] = log_pyclone_beta_binomial_pdf(data_point, ccf, precision)
            elif density == "binomial":
                log_ll[s_idx, i] = log_pyclone_binomial_pdf(data_point, ccf)
"""
DENSITIES = {"beta-binomial", "binomial"}
SPEC_OUTLIER = """
def s(outlier_prob, cluster_size):
    if outlier_prob == 0:
        return %s, 0.0
    return np.log(outlier_prob) * cluster_size, np.log1p(-outlier_prob) * cluster_size
"""
SPEC_CLUSTERED = """
def s(cluster_outlier_probs, cluster_sizes, clusters, density, grid_size, precision, pyclone_data):
    members = defaultdict(list)
    for mut, val in pyclone_data.items():
        members[clusters[mut]].append(val.to_likelihood_grid(density, grid_size, precision=precision))
    for idx, cluster_id in enumerate(sorted(members.keys())):
        terms = compute_outlier_prob(cluster_outlier_probs[cluster_id], cluster_sizes[cluster_id])
        phyclone.data.base.DataPoint(idx, np.sum(np.array(members[cluster_id]), axis=0), outlier_prob=terms[0], outlier_prob_not=terms[1])
"""
SPEC_LOAD = """
def s(file_name, rng, low_loss_prob, high_loss_prob, assign_loss_prob, cluster_file=None, density="beta-binomial", grid_size=101, outlier_prob=1e-4, precision=400):
    pyclone_data, samples = load_pyclone_data(file_name)
    if cluster_file is None:
        for idx, (mut, val) in enumerate(pyclone_data.items()):
            terms = compute_outlier_prob(outlier_prob, 1)
            phyclone.data.base.DataPoint(idx, val.to_likelihood_grid(density, grid_size, precision=precision), outlier_prob=terms[0], outlier_prob_not=terms[1])
    else:
        cluster_df = _setup_cluster_df(cluster_file, file_name, outlier_prob, rng, low_loss_prob, high_loss_prob, assign_loss_prob)
        _create_clustered_data_arr(
            cluster_df.set_index("cluster_id")["outlier_prob"].to_dict(),
            cluster_df["cluster_id"].value_counts().to_dict(),
            cluster_df.set_index("mutation_id")["cluster_id"].to_dict(),
            density, grid_size, precision, pyclone_data)
"""


def _cli_density_choices(prog):
    cli = prog.module("phyclone.cli")
    found = []
    for c in calls(cli.tree):
        if call_name(c).endswith("option") and any(isinstance(a, ast.Constant) and a.value == "--density" for a in c.args):
            t = kwarg(c, "type")
            if isinstance(t, ast.Call) and call_name(t).endswith("Choice") and t.args and isinstance(t.args[0], (ast.List, ast.Tuple)) and all(isinstance(e, ast.Constant) and isinstance(e.value, str) for e in t.args[0].elts):
                found.append(({e.value for e in t.args[0].elts}, c))
            else:
                raise AnalysisError("cli.py: --density is not declared with a literal click.Choice([...]) (unrecognised shape)")
    if len(found) != 1:
        raise AnalysisError("cli.py: expected exactly one --density option, found %d" % len(found))
    return cli, found[0]


def rule_E4(ctx):
    prog = ctx.prog
    ctx.rule("E4", "grid = linspace(0, 1, grid_size); every (sample, grid point) cell written; density dispatch exhaustive for the CLI choices; cluster value = sum of member grids (axis 0); outlier terms (log p, log1p(-p)) * size, (0, 0) when p = 0; size = cluster_sizes[cluster] / 1", 12)
    # -- driver: grid, output array, what is handed to the kernel
    f = prog.fn("pyclone.DataPoint.to_likelihood_grid")
    ex = extract(prog, f, no_inline=["_compute_liklihood_grid"])
    evs = ex.calls("_compute_liklihood_grid")
    done = False
    sps = [spec(prog, SPEC_GRID_DRIVER % w, f, no_inline=["_compute_liklihood_grid"]) for w in ("numba.typed.List(self.sample_data_points)", "self.sample_data_points")]
    for sp in sps[:-1]:
        w = sp.calls("_compute_liklihood_grid")
        if len(evs) == len(w) == 1 and len(evs[0].args) == len(w[0].args) and all(_equiv("E4", "driver", a, b) for a, b in zip(evs[0].args, w[0].args)):
            same_events(ctx, "E4", "to_likelihood_grid: kernel receives (linspace(0, 1, grid_size), density, zeros((#samples, grid_size)), precision, sample data)", f, evs, w, "_compute_liklihood_grid(...) call")
            done = True
            break
    if not done:
        sp = sps[-1]
        same_events(ctx, "E4", "to_likelihood_grid: kernel receives (linspace(0, 1, grid_size), density, zeros((#samples, grid_size)), precision, sample data)", f, evs, sp.calls("_compute_liklihood_grid"), "_compute_liklihood_grid(...) call")
    same(ctx, "E4", "to_likelihood_grid: returns the array the kernel filled", f, _returned(ex), _returned(sps[0]), "returned grid", stmt="return log_ll")
    ctx.analysed(f, prog.fn("pyclone.DataPoint.get_ccf_grid"))
    # -- kernel: every cell, dispatch
    k = prog.fn("pyclone._compute_liklihood_grid")
    noinl = ["log_pyclone_beta_binomial_pdf", "log_pyclone_binomial_pdf"]
    ex = extract(prog, k, no_inline=noinl)
    sp = spec(prog, SPEC_GRID_KERNEL, k, no_inline=noinl)
    base = Poly.atom(("v", "P2")).key()
    _compare_store_tables(ctx, "E4", "_compute_liklihood_grid", k, _subs_of(ex, base), _subs_of(sp, base), "log_ll")
    cli, (choices, opt) = _cli_density_choices(prog)
    ctx.check(choices == DENSITIES, "E4", "cli --density choices are exactly the densities the grid kernel dispatches on", "phyclone/cli.py:%d" % opt.lineno,
              "the CLI accepts %s but the likelihood kernel fills the grid only for %s (any other value leaves the grid at its zero initial value)" % (sorted(choices), sorted(DENSITIES)),
              construct="phyclone.cli", stmt="--density choices")
    ctx.analysed(k)
    # -- outlier terms
    c = prog.fn("pyclone.compute_outlier_prob")
    ex = extract(prog, c)
    wants = [spec(prog, SPEC_OUTLIER % z, c).result for z in ("outlier_prob", "0")]
    _same_any(ctx, "E4", "compute_outlier_prob: (log p * size, log1p(-p) * size); (0, 0) when p == 0", c, ex.result, wants, "outlier prior terms")
    ctx.analysed(c)
    # -- clustered data points
    g = prog.fn("pyclone._create_clustered_data_arr")
    noinl = ["compute_outlier_prob"]
    ex = extract(prog, g, no_inline=noinl)
    sp = spec(prog, SPEC_CLUSTERED, g, no_inline=noinl)
    same_events(ctx, "E4", "_create_clustered_data_arr: each mutation's grid joins its cluster's member list", g, [e for e in ex.calls(".append") if e.args and "to_likelihood_grid" in repr(vkey(e.args[0]))], sp.calls(".append"), "member grids")
    same_events(ctx, "E4", "_create_clustered_data_arr: value = sum of member grids over axis 0; outlier terms from (cluster_outlier_probs[c], cluster_sizes[c])", g,
                _filtered(_events_named(ex, "DataPoint"), ("name",)), _filtered(_events_named(sp, "DataPoint"), ("name",)), "DataPoint(...) construction")
    ctx.analysed(g)
    # -- load_data wiring
    l = prog.fn("pyclone.load_data")
    noinl = ["compute_outlier_prob", "load_pyclone_data", "_setup_cluster_df", "_create_clustered_data_arr"]
    ex = extract(prog, l, no_inline=noinl)
    sp = spec(prog, SPEC_LOAD, l, no_inline=noinl)
    same_events(ctx, "E4", "load_data (no clustering): value = the mutation's grid; outlier terms with size 1", l,
                _filtered(_events_named(ex, "DataPoint"), ("name",)), _filtered(_events_named(sp, "DataPoint"), ("name",)), "DataPoint(...) construction")
    same_events(ctx, "E4", "load_data (clustering): per-cluster outlier probability, cluster size and mutation->cluster map reach _create_clustered_data_arr in that order", l,
                ex.calls("_create_clustered_data_arr"), sp.calls("_create_clustered_data_arr"), "_create_clustered_data_arr(...) call")
    ctx.analysed(l)


# --------------------------------------------------------------------------- E5
FIELD_COLUMN = {"a": "ref_counts", "b": "alt_counts", "t": "tumour_content"}
PRIOR_COLUMNS = ["major_cn", "minor_cn", "normal_cn", "error_rate"]  # positions as read by E3's specification
PRIOR_FIELDS = ["cn", "mu", "log_pi"]  # positions of the returned triple


def _bind(call_args, call_kwargs, params):
    """position -> value for a call against a parameter list (positional + keyword)."""
    out = {}
    for i, a in enumerate(call_args):
        out[i] = a
    for k, v in call_kwargs.items():
        if k not in params:
            raise AnalysisError("keyword %s does not name a parameter (%s)" % (k, params))
        out[params.index(k)] = v
    return out


def _column_read(v):
    """(frame key, row key, column) when the value is <frame>.at/.loc[<row>, '<column>'], else None."""
    a = v.as_atom() if isinstance(v, Poly) else None
    if a is None or a[0] != "sub":
        return None
    acc = key_atom(a[1])
    idx = a[2]
    if acc is None or acc[0] != "attr" or acc[2] not in ("at", "loc"):
        return None
    if not (isinstance(idx, tuple) and idx and idx[0] == "tuple" and len(idx) == 3):
        return None
    col = idx[2]
    if not (isinstance(col, tuple) and col[0] == "const"):
        return None
    try:
        name = ast.literal_eval(col[1])
    except Exception:
        return None
    return acc[1], idx[1], name


def rule_E5(ctx):
    prog = ctx.prog
    ctx.rule("E5", "input column -> model field: ref_counts -> a, alt_counts -> b, tumour_content -> t; (cn, mu, log_pi) from get_major_cn_prior(major_cn, minor_cn, normal_cn, error_rate) of the same row", 10)
    init = prog.fn("pyclone.SampleDataPoint.__init__")
    iex = extract(prog, init)
    ipar = init.params[1:]
    field_pos = {}
    for fld in list(FIELD_COLUMN) + PRIOR_FIELDS:
        st = iex.stores(fld)
        a = next(iter(st.values())).as_atom() if len(st) == 1 and isinstance(next(iter(st.values())), Poly) else None
        if a is None or a[0] != "v" or not a[1].startswith("P"):
            ctx.fail("E5", "SampleDataPoint.%s is a constructor argument" % fld, init.where(), "self.%s is not assigned (exactly) one constructor parameter" % fld, construct=init.qualname, stmt="self." + fld)
            continue
        field_pos[fld] = int(a[1][1:]) - 1
        ctx.ok("E5", "SampleDataPoint.%s is a constructor argument" % fld, init.where(), "self.%s = parameter %d (%s)" % (fld, field_pos[fld], ipar[field_pos[fld]] if 0 <= field_pos[fld] < len(ipar) else "?"))
    ctx.analysed(init)
    f = prog.fn("pyclone._create_loaded_pyclone_data_dict")
    prior = prog.fn("pyclone.get_major_cn_prior")
    ex = extract(prog, f, no_inline=["get_major_cn_prior"])
    news = ex.calls("new:SampleDataPoint")
    pri = ex.calls("get_major_cn_prior")
    if len(news) < 1 or len(news) != len(pri):
        raise AnalysisError("_create_loaded_pyclone_data_dict: %d SampleDataPoint constructions, %d get_major_cn_prior calls (unrecognised shape)" % (len(news), len(pri)))
    samples_key = Poly.atom(("v", "P%d" % f.params.index("samples"))).key() if "samples" in f.params else None
    for i, (nw, pr) in enumerate(zip(news, pri)):
        lab = "sample %d" % i
        bound = _bind(nw.args, nw.kwargs, ipar)
        pbound = _bind(pr.args, pr.kwargs, prior.params)
        prk = vkey(Poly.atom(("call", "get_major_cn_prior", tuple(vkey(a) for a in pr.args), tuple(sorted(((k, vkey(v)) for k, v in pr.kwargs.items()), key=repr)))))
        frames = set()
        for fld, col in FIELD_COLUMN.items():
            if fld not in field_pos:
                continue
            v = bound.get(field_pos[fld])
            r = _column_read(v) if v is not None else None
            ctx.check(r is not None and r[2] == col, "E5", "%s: field %s <- column %s" % (lab, fld, col), f.where(nw.node),
                      "SampleDataPoint.%s receives %s, not the row's %s" % (fld, _clip(show(v)) if v is not None else "nothing", col), construct=f.qualname, stmt="field " + fld)
            if r is not None:
                frames.add((r[0], r[1]))
        for pos, col in enumerate(PRIOR_COLUMNS):
            v = pbound.get(pos)
            r = _column_read(v) if v is not None else None
            ctx.check(r is not None and r[2] == col, "E5", "%s: get_major_cn_prior argument %d <- column %s" % (lab, pos, col), f.where(pr.node),
                      "get_major_cn_prior's parameter %d receives %s, not the row's %s" % (pos, _clip(show(v)) if v is not None else "nothing (default)", col), construct=f.qualname, stmt="prior arg %d" % pos)
            if r is not None:
                frames.add((r[0], r[1]))
        for pos, fld in enumerate(PRIOR_FIELDS):
            if fld not in field_pos:
                continue
            v = bound.get(field_pos[fld])
            want = Poly.atom(("unpack", prk, pos))
            alt = Poly.atom(("sub", prk, Poly.const(pos).key()))
            ok = v is not None and vkey(v) in (want.key(), alt.key())
            ctx.check(ok, "E5", "%s: field %s <- component %d of this row's get_major_cn_prior(...)" % (lab, fld, pos), f.where(nw.node),
                      "SampleDataPoint.%s receives %s, not component %d of get_major_cn_prior(...) of the same row" % (fld, _clip(show(v)) if v is not None else "nothing", pos), construct=f.qualname, stmt="field " + fld)
        rows_ok = len(frames) == 1
        if rows_ok and samples_key is not None:
            rk = key_atom(next(iter(frames))[1])
            rows_ok = rk is not None and rk[0] == "elem" and rk[1] == samples_key
        ctx.check(rows_ok, "E5", "%s: all seven columns are read from one row, indexed by an element of `samples`" % lab, f.where(nw.node),
                  "the columns are read from different frames/rows: %s" % sorted((show_key(a), show_key(b)) for a, b in frames), construct=f.qualname, stmt="one row")
    ctx.analysed(f)


PER_MUTATION_COLUMNS = {"mutation_id", "cluster_id", "outlier_prob", "chrom"}


def rule_E6(ctx):
    """"Multiplied by cluster size": the size is value_counts() of cluster_id over the cluster table, which is the
    number of member mutations only if that table has one row per mutation.  Cluster files in the PyClone-VI
    layout carry one row per (mutation, sample), so the table must be de-duplicated on per-mutation columns: on
    every path _setup_cluster_df returns drop_duplicates() of a projection onto per-mutation columns (or
    drop_duplicates(subset=<per-mutation columns>)), mutation_id among them."""
    from ..termflow import key_atom

    prog = ctx.prog
    ctx.rule("E6", "cluster size counts mutations: the cluster table is de-duplicated on per-mutation columns (mutation_id among them) on every path before cluster_id is value-counted", 3)
    f = prog.fn("pyclone._setup_cluster_df")
    ex = extract(prog, f, no_inline=["_assign_out_prob"])
    if ex.result is None:
        raise AnalysisError("_setup_cluster_df returns nothing")
    a = ex.result.as_atom()
    alts = [v for _, v in a[1]] if a is not None and a[0] == "cond" else [ex.result.key()]

    def columns(k):
        if isinstance(k, tuple) and k and k[0] == "list":
            out = []
            for c in k[1]:
                if not (isinstance(c, tuple) and c[0] == "const" and isinstance(c[1], str)):
                    return None
                out.append(c[1].strip("'\""))
            return out
        return None

    seen = set()
    for vk in alts:
        at = key_atom(vk)
        why = None
        cols = None
        if at is None:
            raise AnalysisError("E6: unrecognised cluster table %r" % (vk,))
        if at[0] == "mcall" and at[1] == "drop_duplicates":
            subset = dict(at[4]).get("subset") if at[4] else (at[3][0] if at[3] else None)
            if subset is not None:
                cols = columns(subset)
            else:
                r = key_atom(at[2])
                if r is not None and r[0] == "sub":
                    cols = columns(r[2])
                if cols is None:
                    why = "drop_duplicates() runs on the whole cluster file (%s), per-sample columns included: a file with one row per (mutation, sample) keeps one row per sample, and every cluster size is multiplied by the number of samples" % show_key(at[2])[:120]
        elif at[0] == "sub":
            inner = key_atom(at[1])
            if inner is not None and inner[0] == "mcall" and inner[1] == "drop_duplicates":
                why = "the table is de-duplicated on all columns of the cluster file and projected onto %s afterwards: rows that differ only in per-sample columns survive, and every cluster size is multiplied by the number of samples" % (columns(at[2]),)
            else:
                why = "the cluster table (%s) is not de-duplicated: a file with one row per (mutation, sample) inflates every cluster size" % show_key(vk)[:120]
        else:
            raise AnalysisError("E6: unrecognised cluster table %s" % show_key(vk)[:160])
        if why is None:
            if cols is None:
                raise AnalysisError("E6: the de-duplication columns are not literal")
            if "mutation_id" not in cols:
                why = "the table is de-duplicated on %s, which does not contain mutation_id: members of one cluster collapse into one row" % cols
            elif not set(cols) <= PER_MUTATION_COLUMNS:
                why = "the table is de-duplicated on %s; %s are not per-mutation columns, so one mutation can keep several rows" % (cols, sorted(set(cols) - PER_MUTATION_COLUMNS))
        sig = (why, tuple(cols or ()))
        if sig in seen:
            ctx.ok("E6", "_setup_cluster_df: another path returns the same shape", f.where())
            continue
        seen.add(sig)
        ctx.check(why is None, "E6", "_setup_cluster_df: one row per mutation (de-duplicated on %s)" % (cols,), f.where(), why or "", construct=f.qualname, stmt="cluster table de-duplication")
    # the sizes are counted on that table
    ld = prog.fn("pyclone.load_data")
    vc = [c for c in calls(ld.node) if call_name(c).split(".")[-1] == "value_counts"]
    ok = len(vc) == 1 and "cluster_id" in u(vc[0]) and "cluster_df" in u(vc[0])
    ctx.check(ok, "E6", "load_data: cluster_sizes = value_counts of cluster_id over the de-duplicated cluster table", ld.where(vc[0]) if vc else ld.where(), "cluster sizes are not cluster_df['cluster_id'].value_counts()", construct=ld.qualname, stmt="cluster_sizes")
    ctx.analysed(f, ld)

# ---------------------------------------------------------------------------------------------- E7
# The cluster table (per-cluster outlier probability: from the file, assigned from the data, or the global value; a zero in
# the file falls back to the global value) - translation validation of _setup_cluster_df against its pinned source.
SETUP_CLUSTER_DF_REFERENCE = """
def _setup_cluster_df(cluster_file, data_file, outlier_prob, rng, low_loss_prob, high_loss_prob, assign_loss_prob):
    cluster_df = pd.read_csv(cluster_file, sep='\\t')
    if 'outlier_prob' not in cluster_df.columns:
        if assign_loss_prob:
            column_checks = True
            if 'chrom' not in cluster_df.columns:
                data_df = pd.read_table(data_file)
                if 'chrom' in data_df.columns:
                    data_df = data_df[['mutation_id', 'chrom']]
                    cluster_df = pd.merge(cluster_df, data_df, how='inner', on=['mutation_id'])
                    cluster_df = cluster_df.drop_duplicates()
                else:
                    column_checks = False
            if column_checks:
                print('\\nCluster level outlier probability column not found. Assigning from data.')
                _assign_out_prob(cluster_df, rng, low_loss_prob, high_loss_prob)
            else:
                print('\\nCluster level outlier probability column not found. \\nMutation position data also not found in either cluster or data file, thus, outlier probability cannot be assigned form data. Setting values to {p}\\n'.format(p=low_loss_prob))
                cluster_df.loc[:, 'outlier_prob'] = low_loss_prob
        else:
            print('\\nCluster level outlier probability column not found. Setting values to {p}'.format(p=outlier_prob))
            cluster_df.loc[:, 'outlier_prob'] = outlier_prob
    if not assign_loss_prob:
        if outlier_prob == 0:
            cluster_df.loc[:, 'outlier_prob'] = outlier_prob
        else:
            cluster_df.loc[cluster_df['outlier_prob'] == 0, 'outlier_prob'] = outlier_prob
    cluster_df = cluster_df[['mutation_id', 'cluster_id', 'outlier_prob']].drop_duplicates()
    return cluster_df
"""


def rule_E7(ctx):
    from ..formula import same_effects

    prog = ctx.prog
    ctx.rule("E7", "_setup_cluster_df agrees with the reference: which per-cluster outlier probability is used in which case (file column, assigned from positions, global value; zero in the file -> global value), effect by effect and in the returned table", 2)
    f = prog.fn("data.pyclone._setup_cluster_df")
    ex = extract(prog, f)
    sp = spec(prog, SETUP_CLUSTER_DF_REFERENCE, f)
    keep = lambda evs: [e for e in evs if e.name in ("store_sub", "store_attr", "store_content", "_assign_out_prob", "define_truncal_chrom_arm_probs") or e.name.startswith(".clip") or e.name.startswith(".where") or e.name.startswith(".mask") or e.name.startswith(".fillna") or e.name.startswith(".replace")]
    same_effects(ctx, "E7", "_setup_cluster_df: column assignments", f, keep(ex.events), keep(sp.events), "assignments to the cluster table")
    ctx.ok("E7", "_setup_cluster_df: the returned table's projection / de-duplication is E6's business", f.where())
    ctx.analysed(f)


def run(ctx):
    ctx.assume("numpy / math primitives (log, exp, log1p, lgamma, linspace, sum, max, isinf) behave as documented; numba compiles the jitted functions with Python semantics")
    ctx.assume("pandas .at[row, column] reads the named column of the named row; value_counts / set_index(...).to_dict() build the per-cluster tables (pandas semantics are not decided here)")
    ctx.note("log_factorial, log_binomial_coefficient and log_beta are recorded under both E2 and M (one specification, two rule ids)")
    ctx.soft(rule_E1)
    ctx.soft(rule_E2_M)
    ctx.soft(rule_E3)
    ctx.soft(rule_E4)
    ctx.soft(rule_E5)
    ctx.soft(rule_E6)
    ctx.soft(rule_E7)
    # "for every ... error rate": a table that remembers genotype priors / grids under a key that forgets one of the
    # inputs hands a later mutation an earlier one's values (same rule object as C14.K7)
    from ..formula import imported
    from . import C14

    ctx._own_rules = set(ctx.rule_min)
    imported(ctx, C14.rule_K7)


# --------------------------------------------------------------------------- self-test catalogue
_P = PYCLONE
_M = MATH
_MIX_HEAD = (
    "    population_prior = np.zeros(3)\n"
    "    population_prior[0] = 1 - t\n"
    "    population_prior[1] = t * (1 - f)\n"
    "    population_prior[2] = t * f\n"
    "\n"
    "    ll = np.ones(C, dtype=np.float64) * np.inf * -1\n"
    "\n"
    "    for c in range(C):\n"
    "        e_vaf = 0\n"
    "\n"
    "        norm_const = 0\n"
    "\n"
    "        for i in range(3):\n"
    "            e_cn = population_prior[i] * data.cn[c, i]\n"
    "\n"
    "            e_vaf += e_cn * data.mu[c, i]\n"
    "\n"
    "            norm_const += e_cn\n"
    "\n"
    "        e_vaf /= norm_const\n"
    "\n"
)
_BIN_TAIL = "        ll[c] = data.log_pi[c] + log_binomial_pdf(data.a + data.b, data.b, e_vaf)\n"
_BB_TAIL = "        a = e_vaf * s\n"


def _mix(tail, old, new, count=1):
    """One edit inside the mixture body of the function identified by `tail` (the two bodies are textually equal)."""
    assert _MIX_HEAD.count(old) == count, (old, _MIX_HEAD.count(old))
    return {"old": _MIX_HEAD + tail, "new": _MIX_HEAD.replace(old, new) + tail}


def _v(name, kind, rule, file, old=None, new=None, **kw):
    d = {"name": name, "kind": kind, "file": file}
    if rule:
        d["rule"] = rule
    if old is not None:
        d["old"], d["new"] = old, new
    d.update(kw)
    return d


SELFTEST = [
    {"name": "E6-deduplicated-before-projection", "kind": "break", "rule": "E6", "file": _P, "old": 'cluster_df = cluster_df[["mutation_id", "cluster_id", "outlier_prob"]].drop_duplicates()', "new": 'cluster_df = cluster_df.drop_duplicates()[["mutation_id", "cluster_id", "outlier_prob"]]'},
    {"name": "E6-not-deduplicated", "kind": "break", "rule": "E6", "file": _P, "old": 'cluster_df = cluster_df[["mutation_id", "cluster_id", "outlier_prob"]].drop_duplicates()', "new": 'cluster_df = cluster_df[["mutation_id", "cluster_id", "outlier_prob"]]'},
    {"name": "E6-deduplicated-per-cluster", "kind": "break", "rule": "E6", "file": _P, "old": 'cluster_df = cluster_df[["mutation_id", "cluster_id", "outlier_prob"]].drop_duplicates()', "new": 'cluster_df = cluster_df[["cluster_id", "outlier_prob"]].drop_duplicates()'},
    {"name": "E6-sample-column-kept", "kind": "break", "rule": "E6", "file": _P, "old": 'cluster_df = cluster_df[["mutation_id", "cluster_id", "outlier_prob"]].drop_duplicates()', "new": 'cluster_df = cluster_df[["mutation_id", "sample_id", "cluster_id", "outlier_prob"]].drop_duplicates()'},
    {"name": "benign-E6-two-steps", "kind": "benign", "file": _P, "old": 'cluster_df = cluster_df[["mutation_id", "cluster_id", "outlier_prob"]].drop_duplicates()', "new": 'per_mutation = cluster_df[["mutation_id", "cluster_id", "outlier_prob"]]\n    cluster_df = per_mutation.drop_duplicates()'},
    {"name": "benign-E6-subset", "kind": "benign", "file": _P, "old": 'cluster_df = cluster_df[["mutation_id", "cluster_id", "outlier_prob"]].drop_duplicates()', "new": 'cluster_df = cluster_df.drop_duplicates(subset=["mutation_id", "cluster_id", "outlier_prob"])'},
    # ---- E1
    _v("E1-swap-ref-var-weights", "break", "E1", _P, **_mix(_BIN_TAIL, "population_prior[1] = t * (1 - f)\n    population_prior[2] = t * f\n", "population_prior[1] = t * f\n    population_prior[2] = t * (1 - f)\n")),
    _v("E1-ref-count-as-successes", "break", "E1", _P, "log_binomial_pdf(data.a + data.b, data.b, e_vaf)", "log_binomial_pdf(data.a + data.b, data.a, e_vaf)"),
    _v("E1-b-is-s", "break", "E1", _P, "        b = s - a\n", "        b = s\n"),
    _v("E1-drop-log_pi", "break", "E1", _P, "ll[c] = data.log_pi[c] + log_beta_binomial_pdf(", "ll[c] = log_beta_binomial_pdf("),
    _v("E1-mu-wrong-column", "break", "E1", _P, **_mix(_BIN_TAIL, "e_vaf += e_cn * data.mu[c, i]", "e_vaf += e_cn * data.mu[c, 2]")),
    _v("E1-skip-first-genotype", "break", "E1", _P, **_mix(_BB_TAIL, "for c in range(C):", "for c in range(1, C):")),
    _v("E1-unnormalised-vaf", "break", "E1", _P, **_mix(_BB_TAIL, "        e_vaf /= norm_const\n", "        e_vaf /= norm_const + 1\n")),
    _v("E1-max-instead-of-lse", "break", "E1", _P, "log_binomial_pdf(data.a + data.b, data.b, e_vaf)\n\n    return log_sum_exp(ll)", "log_binomial_pdf(data.a + data.b, data.b, e_vaf)\n\n    return np.max(ll)"),
    _v("E1-depth-is-ref-only", "break", "E1", _P, "log_beta_binomial_pdf(data.a + data.b, data.b, a, b)", "log_beta_binomial_pdf(data.a, data.b, a, b)"),
    _v("E1-normal-weight-is-t", "break", "E1", _P, **_mix(_BB_TAIL, "population_prior[0] = 1 - t\n", "population_prior[0] = t\n")),
    # documented limit: the array is only required to be sized from the genotype table; an off-by-one in its
    # length (numba does not bounds-check the write) is a numeric fact about np.ones' argument that E1 does not decide
    _v("E1-array-too-short", "break", "E1", _P, old=_MIX_HEAD + _BIN_TAIL, new=_MIX_HEAD.replace("ll = np.ones(C, dtype=np.float64)", "ll = np.ones(C - 1, dtype=np.float64)") + _BIN_TAIL),
    _v("benign-E1-np-full", "benign", None, _P, **_mix(_BB_TAIL, "    ll = np.ones(C, dtype=np.float64) * np.inf * -1\n", "    ll = np.full(C, -np.inf)\n")),
    _v("benign-E1-precompute-n", "benign", None, _P, "        ll[c] = data.log_pi[c] + log_binomial_pdf(data.a + data.b, data.b, e_vaf)\n", "        n = data.b + data.a\n        ll[c] = log_binomial_pdf(n, data.b, e_vaf) + data.log_pi[c]\n"),
    _v("benign-E1-reorder-weights-with-columns", "benign", None, _P, old=_MIX_HEAD + _BB_TAIL, new=_MIX_HEAD.replace(
        "population_prior[0] = 1 - t\n    population_prior[1] = t * (1 - f)\n    population_prior[2] = t * f\n",
        "population_prior[0] = t * f\n    population_prior[1] = t * (1 - f)\n    population_prior[2] = 1 - t\n").replace(
        "e_cn = population_prior[i] * data.cn[c, i]", "e_cn = data.cn[c, 2 - i] * population_prior[i]").replace(
        "e_vaf += e_cn * data.mu[c, i]", "e_vaf += e_cn * data.mu[c, 2 - i]") + _BB_TAIL),
    _v("benign-E1-rename-and-split", "benign", None, _P, **_mix(_BIN_TAIL, "            e_cn = population_prior[i] * data.cn[c, i]\n\n            e_vaf += e_cn * data.mu[c, i]\n\n            norm_const += e_cn\n", "            w_i = population_prior[i]\n            copies = w_i * data.cn[c, i]\n            norm_const = norm_const + copies\n            e_vaf = e_vaf + data.mu[c, i] * copies\n")),
    # ---- E2 / M
    _v("E2-coefficient-off-by-one", "break", "E2", _M, "return log_factorial(n) - log_factorial(x) - log_factorial(n - x)", "return log_factorial(n) - log_factorial(x) - log_factorial(n - x - 1)"),
    _v("E2-log_beta-sign", "break", "E2", _M, "return log_gamma(a) + log_gamma(b) - log_gamma(a + b)", "return log_gamma(a) + log_gamma(b) + log_gamma(a + b)"),
    _v("E2-p1-guard-wrong-count", "break", "E2", _M, "    if p == 1:\n        if x == n:", "    if p == 1:\n        if x == 0:"),
    _v("E2-failures-exponent", "break", "E2", _M, "return x * np.log(p) + (n - x) * np.log(1 - p)", "return x * np.log(p) + (n - x) * np.log(p)"),
    _v("E2-betabinom-drop-normaliser", "break", "E2", _M, "return log_beta(a + x, b + n - x) - log_beta(a, b)", "return log_beta(a + x, b + n - x)"),
    _v("E2-betabinom-posterior-b", "break", "E2", _M, "return log_beta(a + x, b + n - x) - log_beta(a, b)", "return log_beta(a + x, b + n) - log_beta(a, b)"),
    _v("E2-pdf-drops-coefficient", "break", "E2", _M, "return log_binomial_coefficient(n, x) + log_beta_binomial_likelihood(n, x, a, b)", "return log_beta_binomial_likelihood(n, x, a, b)"),
    _v("E2-factorial-is-gamma", "break", ["E2", "M"], _M, "def log_factorial(x):\n    return log_gamma(x + 1)", "def log_factorial(x):\n    return log_gamma(x)"),
    _v("M-lse-drops-shift", "break", "M", _M, "    return np.log(total) + max_exp\n", "    return np.log(total)\n"),
    _v("M-lse-min-for-max", "break", "M", _M, "    max_exp = np.max(log_X)\n", "    max_exp = np.min(log_X)\n"),
    _v("M-lse-no-early-return", "break", "M", _M, "    if np.isinf(max_exp):\n        return max_exp\n", "    if np.isinf(max_exp):\n        return 0.0\n"),
    _v("M-log_normalize-sign", "break", "M", _M, "return log_p - log_sum_exp(log_p)", "return log_p + log_sum_exp(log_p)"),
    _v("M-exp_normalize-unshifted", "break", "M", _M, "p = np.exp(log_p - log_norm)", "p = np.exp(log_p)"),
    _v("M-discrete_rvs-argmin", "break", "M", _M, "return rng.multinomial(1, p).argmax()", "return rng.multinomial(1, p).argmin()"),
    _v("M-multinomial-sign", "break", "M", _M, "        result -= log_factorial(x_i)", "        result += log_factorial(x_i)"),
    _v("benign-E2-reorder-coefficient", "benign", None, _M, "return log_factorial(n) - log_factorial(x) - log_factorial(n - x)", "return -log_factorial(n - x) - log_factorial(x) + log_factorial(n)"),
    _v("benign-E2-log1p", "benign", None, _M, "return x * np.log(p) + (n - x) * np.log(1 - p)", "q = np.log1p(-p)\n    return (n - x) * q + np.log(p) * x"),
    _v("benign-M-lse-rename-print", "benign", None, _M, "    total = 0\n\n    for x in log_X:\n        total += np.exp(x - max_exp)\n\n    return np.log(total) + max_exp\n", "    acc = 0\n    print(max_exp)\n    for v in log_X:\n        acc = np.exp(v - max_exp) + acc\n    out = max_exp + np.log(acc)\n    return out\n"),
    _v("benign-M-exp_normalize-np-sum", "benign", None, _M, "    p = p / p.sum()\n", "    p = p / np.sum(p)\n"),
    # ---- E3
    _v("E3-range-off-by-one", "break", "E3", _P, "for x in range(1, major_cn + 1):", "for x in range(1, major_cn):"),
    _v("E3-vaf-over-major", "break", "E3", _P, "min(1 - error_rate, x / total_cn)", "min(1 - error_rate, x / major_cn)"),
    _v("E3-extra-row-guard-flipped", "break", "E3", _P, "    if mutation_after_cn not in cn:", "    if mutation_after_cn in cn:"),
    _v("E3-extra-row-wrong-cn", "break", "E3", _P, "mutation_after_cn = (normal_cn, total_cn, total_cn)", "mutation_after_cn = (normal_cn, normal_cn, total_cn)"),
    _v("E3-extra-row-unclamped", "break", "E3", _P, "min(1 - error_rate, 1 / total_cn)", "1 / total_cn"),
    _v("E3-total-is-major", "break", "E3", _P, "    total_cn = major_cn + minor_cn\n", "    total_cn = major_cn\n"),
    _v("E3-lists-out-of-step", "break", "E3", _P, "    if mutation_after_cn not in cn:\n        cn.append(mutation_after_cn)\n", "    cn.append(mutation_after_cn)\n    if mutation_after_cn not in cn[:-1]:\n"),
    _v("E3-mu-integer-dtype", "break", "E3", _P, "    mu = np.array(mu, dtype=float)\n", "    mu = np.array(mu, dtype=int)\n"),
    _v("E3-guard-direction", "break", "E3", _P, "    if major_cn < minor_cn:\n        raise", "    if major_cn > minor_cn:\n        raise"),
    _v("benign-E3-rename-reorder", "benign", None, _P, "    if mutation_after_cn not in cn:\n        cn.append(mutation_after_cn)\n\n        mu.append((error_rate, error_rate, min(1 - error_rate, 1 / total_cn)))\n", "    if not (mutation_after_cn in cn):\n        eps = error_rate\n        mu.append((eps, eps, min(1 - eps, 1 / (minor_cn + major_cn))))\n        cn.append(mutation_after_cn)\n"),
    # ---- E4
    _v("E4-grid-one-too-many", "break", "E4", _P, "return np.linspace(0, 1, grid_size)", "return np.linspace(0, 1, grid_size + 1)"),
    _v("E4-density-typo", "break", "E4", _P, '            elif density == "binomial":', '            elif density == "Binomial":'),
    _v("E4-cli-extra-density", "break", "E4", "phyclone/cli.py", 'type=click.Choice(["binomial", "beta-binomial"]),', 'type=click.Choice(["binomial", "beta-binomial", "normal"]),'),
    _v("E4-transposed-cell", "break", "E4", _P, "log_ll[s_idx, i] = log_pyclone_binomial_pdf(data_point, ccf)", "log_ll[s_idx, 0] = log_pyclone_binomial_pdf(data_point, ccf)"),
    _v("E4-outlier-ignores-size", "break", "E4", _P, "res = np.log(outlier_prob) * cluster_size", "res = np.log(outlier_prob) * 1"),
    _v("E4-outlier-not-sign", "break", "E4", _P, "res_not = np.log1p(-outlier_prob) * cluster_size", "res_not = np.log1p(outlier_prob) * cluster_size"),
    _v("E4-cluster-sum-axis", "break", "E4", _P, "val = np.sum(np.array(raw_data[cluster_id]), axis=0)", "val = np.sum(np.array(raw_data[cluster_id]), axis=1)"),
    _v("E4-cluster-size-one", "break", "E4", _P, "compute_outlier_prob(cluster_outlier_prob, cluster_sizes[cluster_id])", "compute_outlier_prob(cluster_outlier_prob, 1)"),
    _v("E4-cluster-mean-not-sum", "break", "E4", _P, "val = np.sum(np.array(raw_data[cluster_id]), axis=0)", "val = np.mean(np.array(raw_data[cluster_id]), axis=0)"),
    _v("E4-swapped-tables", "break", "E4", _P, "            cluster_outlier_probs,\n            cluster_sizes,\n            clusters,\n            density,", "            cluster_sizes,\n            cluster_outlier_probs,\n            clusters,\n            density,"),
    _v("E4-unclustered-terms-swapped", "break", "E4", _P, "                outlier_prob=out_probs[0],\n                outlier_prob_not=out_probs[1],", "                outlier_prob=out_probs[1],\n                outlier_prob_not=out_probs[0],"),
    _v("E4-dispatch-swapped", "break", "E4", _P, '            if density == "beta-binomial":', '            if density != "beta-binomial":'),
    _v("E4-driver-swaps-density-precision", "break", "E4", _P, "        _compute_liklihood_grid(ccf_grid, density, log_ll, precision, numba", "        _compute_liklihood_grid(ccf_grid, precision, log_ll, density, numba"),
    _v("E4-grid-shape-transposed", "break", "E4", _P, "        shape = (len(self.samples), grid_size)\n", "        shape = (grid_size, len(self.samples))\n"),
    _v("E4-unclustered-size-zero", "break", "E4", _P, "out_probs = compute_outlier_prob(outlier_prob, 1)", "out_probs = compute_outlier_prob(outlier_prob, 0)"),
    _v("E4-zero-guard-flipped", "break", "E4", _P, "    if outlier_prob == 0:\n        return outlier_prob, np.log(1.0)", "    if outlier_prob != 0:\n        return outlier_prob, np.log(1.0)"),
    _v("benign-E4-inline-grid", "benign", None, _P, "        ccf_grid = self.get_ccf_grid(grid_size)\n", "        ccf_grid = np.linspace(0, 1, grid_size)\n"),
    _v("benign-E4-zero-literal", "benign", None, _P, "        return outlier_prob, np.log(1.0)\n", "        return 0, 0.0\n"),
    _v("benign-E4-hoist-size", "benign", None, _P, "        out_probs = compute_outlier_prob(cluster_outlier_prob, cluster_sizes[cluster_id])\n", "        size = cluster_sizes[cluster_id]\n        out_probs = compute_outlier_prob(cluster_outlier_prob, size)\n"),
    # ---- E5
    _v("E5-ref-alt-swapped-at-call", "break", "E5", _P, "SampleDataPoint(a, b, cn, mu, log_pi,", "SampleDataPoint(b, a, cn, mu, log_pi,"),
    _v("E5-major-minor-swapped", "break", "E5", _P, '                group.at[sample, "major_cn"],\n                group.at[sample, "minor_cn"],', '                group.at[sample, "minor_cn"],\n                group.at[sample, "major_cn"],'),
    _v("E5-init-swaps-fields", "break", "E5", _P, "        self.a = a\n        self.b = b\n", "        self.a = b\n        self.b = a\n"),
    _v("E5-cn-mu-swapped", "break", "E5", _P, "            cn, mu, log_pi = get_major_cn_prior(", "            mu, cn, log_pi = get_major_cn_prior("),
    _v("E5-error-rate-default", "break", "E5", _P, '                error_rate=group.at[sample, "error_rate"],\n', ""),
    _v("E5-alt-from-ref-column", "break", "E5", _P, '            b = group.at[sample, "alt_counts"]', '            b = group.at[sample, "ref_counts"]'),
    _v("benign-E5-hoist-keyword", "benign", None, _P, '            sample_data_points.append(SampleDataPoint(a, b, cn, mu, log_pi, group.at[sample, "tumour_content"]))', '            purity = group.at[sample, "tumour_content"]\n            sdp = SampleDataPoint(a, b, cn, mu, log_pi=log_pi, t=purity)\n            sample_data_points.append(sdp)'),
]
