"""C02 — tree likelihood equals the exact CCF-grid marginal under the sum constraint (shape of the recursion).

Numerical equality with the brute-force sum is NOT decided.  Decided here are seven structural necessary
conditions of the recursion  R = p * S,  S = running sum of D,  D = convolution of the children's R:

N1  node combine             log_r := log_p (copied) without children, log_p + compute_log_S(children) otherwise
N2  running sum              logaddexp.accumulate along the grid axis of every sample row
N3  fold                     every child enters the convolution fold exactly once (0 -> neutral, 1 -> that child)
N4  back-end agreement       both convolution back ends: (a) per-row max normalisation before exp, (b) exactly the
                             subtracted maxes are added back after log, (c) truncation to the first <grid> entries,
                             (d) non-positive entries floored by a positive constant BEFORE np.log, (e) convolution
                             along the last axis per row; plus the dispatch (grid size from the last axis, two
                             exhaustive arms, direct path below the switch)
N5  bottom-up order          full refresh in DFS finish order from the virtual root; path refresh walks the
                             root->source path reversed, both ends included
N6  children gathered        all successors' log_r; the reported vector is the virtual root's log_r
N7  uniform grid prior       -log(number of grid points); a fresh node has log_p filled with it on the full
                             (samples, grid) shape; no data point is added to the virtual root

Every clause is decided from the dataflow TermFlow extracts from the function itself (result term, ordered
events, stores) — never from statement text.  Whatever is not recognised is an ANALYSIS-ERROR.

How the shapes are made concrete without running anything: N1 and N3 interpret the functions on *concrete
child lists* [c0 … c(n-1)] of symbolic arrays (n = 0..5), so `len`, emptiness tests and `range` bounds fold to
constants whatever way the guards are written; N3 adds one symbolic run for the any-n loop bounds.

Known limits (documented, not silent): in-place updates through an alias (`t = x; t += y`) are invisible to
TermFlow's value semantics; positivity of the 1e-100 floor is read from the literal in the AST because
TermFlow's rational constants collapse 1e-100 to 0; N7's "no data on the virtual root" is a scan of the node
argument of every adding call for the root's name, not a proof over all node values; rewrites of the fold
with functools.reduce / while, or of the refresh with a topological sort, are ANALYSIS-ERRORs by design.
"""
import ast

from .. import termflow as _tf

from ..astutil import calls, last_name, parents, u
from ..formula import extract, same, spec
from ..model import AnalysisError
from ..termflow import (
    TRUE,
    AList,
    ATuple,
    Poly,
    _const_of_key,
    _is_polykey,
    equivalent,
    g_and,
    key_atom,
    make_cond,
    poly_from_key,
    show,
    show_key,
    vkey,
)


# ----------------------------------------------------------------------------------------- key helpers
def unrec(msg):
    raise AnalysisError("C02: unrecognised shape — " + msg)


def P(i):
    return Poly.atom(("v", "P%d" % i))


def Pk(i):
    return vkey(P(i))


def A(x):
    """The tagged tuple (atom / container key) a value or key denotes, or None (a genuine polynomial)."""
    if x is None:
        return ("const", "None")
    if isinstance(x, (Poly, AList, ATuple, bool, str, int, float)):
        x = vkey(x)
    if not isinstance(x, tuple):
        return None
    return key_atom(x)


def obj(x):
    """Key of the object a value/key denotes, ignoring TermFlow's «updated by a method call» versions."""
    k = x if isinstance(x, tuple) else vkey(x)
    while True:
        a = A(k)
        if a is not None and a[0] == "upd":
            k = a[2]
        else:
            return k


def const_of(k):
    """Rational value of a constant key, else None."""
    if isinstance(k, tuple) and _is_polykey(k):
        try:
            return _const_of_key(k)
        except Exception:
            return None
    return None


def const_int(k):
    c = const_of(k)
    if c is not None and c.denominator == 1:
        return int(c)
    return None


def is_none(k):
    return A(k) == ("const", "None")


def is_true(k):
    return A(k) == ("const", "True")


def kwargs_of(atom):
    if atom[0] == "call":
        return dict(atom[3])
    if atom[0] == "mcall":
        return dict(atom[4])
    return {}


def is_full_slice(k):
    a = A(k)
    if a is None or a[0] != "slice":
        return False
    lo, hi, st = a[1:4]
    return (is_none(lo) or const_int(lo) == 0) and is_none(hi) and (is_none(st) or const_int(st) == 1)


def is_ellipsis(k):
    return A(k) == ("const", "Ellipsis")


def _is_slice(k):
    a = A(k)
    return a is not None and a[0] in ("slice", "tuple")


def row_index(idxk):
    """(row key, 'row'|'col') for an index that selects one line of a 2-D array, else None."""
    a = A(idxk)
    if a is not None and a[0] == "tuple":
        items = a[1:]
        if len(items) == 2 and (is_full_slice(items[1]) or is_ellipsis(items[1])) and not _is_slice(items[0]):
            return items[0], "row"
        if len(items) == 2 and (is_full_slice(items[0]) or is_ellipsis(items[0])) and not _is_slice(items[1]):
            return items[1], "col"
        return None
    if a is not None and a[0] == "slice":
        return None
    return idxk, "row"


def parse_range(domk):
    a = A(domk)
    if a is not None and a[0] == "call" and a[1] == "range" and not a[3] and 2 <= len(a[2]) <= 3:
        return a[2][0], a[2][1], (a[2][2] if len(a[2]) == 3 else None)
    return None


def shape_read(k):
    """(array key, axis) when `k` reads one extent of an array: V.shape[c] or len(V)."""
    a = A(k)
    if a is None:
        return None
    if a[0] == "sub":
        b = A(a[1])
        if b is not None and b[0] == "attr" and b[2] == "shape":
            c = const_int(a[2])
            if c is not None:
                return b[1], c
    if a[0] == "call" and a[1] == "len" and len(a[2]) == 1 and not a[3]:
        return a[2][0], 0
    return None


def walk_keys(k, fn, seen=None):
    """Call fn(tagged tuple) on every atom / sub-key reachable from key k."""
    if not isinstance(k, tuple):
        return
    if k and isinstance(k[0], str):
        fn(k)
        for x in k[1:]:
            walk_keys(x, fn)
    else:
        for x in k:
            walk_keys(x, fn)


def mentions(k, pred):
    hit = []

    def f(t):
        if pred(t):
            hit.append(t)

    walk_keys(k, f)
    return bool(hit)


def literal(node, fnode, module):
    """Numeric value of a literal expression (through one local / module-level constant binding)."""
    if isinstance(node, ast.Constant) and isinstance(node.value, (int, float)) and not isinstance(node.value, bool):
        return float(node.value)
    if isinstance(node, ast.UnaryOp) and isinstance(node.op, (ast.USub, ast.UAdd)):
        v = literal(node.operand, fnode, module)
        if v is None:
            return None
        return -v if isinstance(node.op, ast.USub) else v
    if isinstance(node, ast.Name) and fnode is not None and isinstance(fnode, (ast.FunctionDef, ast.AsyncFunctionDef)):
        # a parameter with a literal default that the function never rebinds (a helper's `floor=1e-100`)
        a = fnode.args
        pos = a.posonlyargs + a.args
        dflt = dict(zip([x.arg for x in pos[len(pos) - len(a.defaults):]], a.defaults))
        dflt.update({x.arg: d for x, d in zip(a.kwonlyargs, a.kw_defaults) if d is not None})
        if node.id in dflt and not any(isinstance(x, ast.Name) and x.id == node.id and isinstance(x.ctx, ast.Store) for x in ast.walk(fnode)):
            return literal(dflt[node.id], None, module)
    if isinstance(node, ast.Name):
        for scope in (fnode, module.tree):
            if scope is None:
                continue
            defs = []
            body = ast.walk(scope) if scope is fnode else scope.body
            for s in body:
                if isinstance(s, ast.Assign) and any(isinstance(t, ast.Name) and t.id == node.id for t in s.targets):
                    defs.append(s.value)
            if len(defs) == 1:
                return literal(defs[0], None, module)
            if defs:
                return None
    return None


class Sites:
    """AST context of event nodes (events may come from inlined helpers of other modules)."""

    def __init__(self, prog):
        self.prog = prog
        self._pm = {}

    def context(self, node):
        """(enclosing statement, enclosing function node, module) of an AST node of the program."""
        for m in self.prog.modules.values():
            pm = self._pm.get(m.name)
            if pm is None:
                pm = self._pm[m.name] = parents(m.tree)
            if id(node) in pm:
                cur, stmt, fn = node, None, None
                while cur is not None:
                    if stmt is None and isinstance(cur, ast.stmt):
                        stmt = cur
                    if isinstance(cur, (ast.FunctionDef, ast.AsyncFunctionDef)):
                        fn = cur
                        break
                    cur = pm.get(id(cur))
                return stmt, fn, m
        return None, None, None


# ----------------------------------------------------------------------------------------- N1
def _children(n):
    return AList([Poly.atom(("v", "c%d" % i)) for i in range(n)])


_N1_OPTS = dict(inline=["compute_log_S"], no_inline=["compute_log_D", "_sub_compute_S"], copy_is_identity=False)


def rule_N1(ctx):
    prog = ctx.prog
    ctx.rule("N1", "node combine: log_r := copy of log_p without children, log_p + compute_log_S(children) otherwise; log_p is left intact", 6)
    f = prog.fn("TreeNode.update_node_from_child_r_vals")
    if len(f.params) != 2:
        unrec("%s no longer takes (self, child values)" % f.qualname)
    if any(isinstance(n, ast.AugAssign) for n in ast.walk(f.node)):
        unrec("%s uses an augmented (in-place) assignment, which the write model does not cover" % f.qualname)
    lr, lp = vkey(Poly.atom(("attr", Pk(0), "log_r"))), vkey(Poly.atom(("attr", Pk(0), "log_p")))
    sites = Sites(prog)
    specs = {
        0: "def s(self, child_log_r_values):\n    return self.log_p\n",
        1: "def s(self, child_log_r_values):\n    return self.log_p + compute_log_S(child_log_r_values)\n",
        2: "def s(self, child_log_r_values):\n    return self.log_p + compute_log_S(child_log_r_values)\n",
        3: "def s(self, child_log_r_values):\n    return self.log_p + compute_log_S(child_log_r_values)\n",
    }
    for n, src in specs.items():
        ex = extract(prog, f, args=[None, _children(n)], **_N1_OPTS)
        content = {lr: Poly.atom(("attr", Pk(0), "log_r")), lp: Poly.atom(("attr", Pk(0), "log_p"))}
        alias = None
        for ev in ex.events:
            tgt = val = None
            if ev.name == "store_content" and len(ev.args) == 2:
                # engine-canonicalised in-place idiom (np.copyto, ufunc(out=), dst[:] = v, dst[...] = v)
                tgt, val = vkey(ev.args[0]), _content_of(content, ev.args[1])
            elif ev.name == "np.copyto" and len(ev.args) >= 2:
                tgt, val = vkey(ev.args[0]), ev.args[1]
            elif ev.name in ("np.add", "np.subtract", "np.multiply") and "out" in ev.kwargs and len(ev.args) == 2:
                tgt = vkey(ev.kwargs["out"])
                a, b = _content_of(content, ev.args[0]), _content_of(content, ev.args[1])
                val = a + b if ev.name == "np.add" else (a - b if ev.name == "np.subtract" else a * b)
            elif ev.name == "store_sub":
                if is_full_slice(vkey(ev.args[1])) or is_ellipsis(vkey(ev.args[1])):
                    tgt, val = vkey(ev.args[0]), ev.args[2]
                elif vkey(ev.args[0]) in (lr, lp):
                    unrec("%s writes a part of %s" % (f.qualname, show(ev.args[0])))
            elif ev.name == "store_attr" and vkey(ev.args[0]) == Pk(0) and ev.kwargs.get("attr") in ("log_r", "log_p"):
                tgt = lr if ev.kwargs["attr"] == "log_r" else lp
                val = ev.args[1]
                a = A(val)
                if a is not None and a[0] in ("attr", "v", "sub") and tgt == lr:
                    stmt = sites.context(ev.node)[0]
                    rhs = stmt.value if isinstance(stmt, (ast.Assign, ast.AnnAssign)) else None
                    if isinstance(rhs, (ast.Name, ast.Attribute, ast.Subscript)):
                        alias = show(val)  # a bare reference: the two attributes share one array
                    elif not (isinstance(rhs, ast.Call) and last_name(rhs) in ("array", "copy")):
                        unrec("%s: self.log_r = %s" % (f.qualname, u(rhs)))
            elif "out" in ev.kwargs and vkey(ev.kwargs["out"]) in (lr, lp):
                unrec("%s writes %s through %s(out=...)" % (f.qualname, show(ev.kwargs["out"]), ev.name))
            if tgt in (lr, lp):
                if ev.guards:
                    unrec("%s: conditional write under a concrete child list" % f.qualname)
                content[tgt] = _content_of(content, val)
        sp = spec(prog, src, f, args=[None, _children(n)], **_N1_OPTS)
        label = "%s with %d child(ren)" % (f.qualname, n)
        if alias is not None:
            ctx.fail("N1", label + ": log_r is a copy", f.where(), "self.log_r is rebound to %s itself (an alias): the later in-place `log_r += value` of add_data_point would then also change that array" % alias, construct=f.qualname, stmt="log_r alias (%d children)" % n)
        else:
            same(ctx, "N1", label + ": final content of self.log_r", f, content[lr], sp.result, "content of self.log_r", stmt="log_r content (%d children)" % n)
        ctx.check(vkey(content[lp]) == lp, "N1", label + ": self.log_p untouched", f.where(), "the node's own data term self.log_p is overwritten with %s" % show(content[lp]), construct=f.qualname, stmt="log_p content (%d children)" % n)
    ctx.analysed(f)


def _val_of_key(k):
    if isinstance(k, tuple) and _is_polykey(k):
        return poly_from_key(k)
    return Poly.atom(k)


def _content_of(content, v):
    """Value of an expression in which arrays are replaced by their current content."""
    k = vkey(v)
    if k in content:
        return content[k]
    if isinstance(v, Poly):
        out = Poly.const(0)
        for m, c in v.terms.items():
            t = Poly.const(c)
            for a, p in m:
                ak = vkey(Poly.atom(a))
                if ak in content:
                    base = content[ak]
                elif a[0] == "mcall" and a[1] == "copy" and not a[3] and not a[4]:
                    base = _content_of(content, _val_of_key(a[2]))  # a copy has the content of its original
                else:
                    base = Poly.atom(a)
                t = t * (base ** p)
            out = out + t
        return out
    return v if isinstance(v, Poly) else Poly.atom(("val", k))


# ----------------------------------------------------------------------------------------- N2
def rule_N2(ctx):
    prog = ctx.prog
    ctx.rule("N2", "running sum: np.logaddexp.accumulate along the grid axis of every sample row (same row on source and destination)", 4)
    f = prog.fn("tree.utils._sub_compute_S")
    if len(f.params) != 1:
        unrec("%s no longer takes one array" % f.qualname)
    ex = extract(prog, f)
    acc = [e for e in ex.events if e.name.startswith("np.") and e.name.split(".")[-1] in ("accumulate", "reduce", "reduceat", "outer", "cumsum", "cumprod")]
    if not acc:
        unrec("%s contains no ufunc.accumulate call" % f.qualname)
    names = sorted({e.name for e in acc})
    ctx.check(names == ["np.logaddexp.accumulate"], "N2", f.qualname + ": primitive is logaddexp.accumulate", f.where(acc[0].node), "the running sum uses %s: S must be the cumulative log-sum-exp of D" % ", ".join(names), construct=f.qualname, stmt="accumulate primitive")
    p0 = Pk(0)
    bad = None
    dests, doms = set(), set()
    vectorised = False
    by_iteration = False
    for e in acc:
        if len(e.args) != 1 or set(e.kwargs) - {"out", "axis"}:
            unrec("%s: accumulate called with %s" % (f.qualname, sorted(e.kwargs)))
        src = A(e.args[0])
        if vkey(e.args[0]) == p0:
            vectorised = True
            ax = const_int(vkey(e.kwargs["axis"])) if "axis" in e.kwargs else 0
            if ax not in (1, -1):
                bad = bad or "accumulate over the whole array runs along axis %s, not along the grid axis" % ax
            dests.add(vkey(e.kwargs["out"]) if "out" in e.kwargs else vkey(Poly.atom(_event_atom(e))))
            continue
        if src is not None and src[0] == "elem" and src[1] == p0:
            # `for row, out_row in zip(arg, dest)`: iterating a 2-D array yields its sample rows, every one of them
            dk = A(e.kwargs["out"]) if "out" in e.kwargs else None
            if dk is None or dk[0] != "elem":
                unrec("%s: destination of the row accumulate (rows by iteration) not found" % f.qualname)
            if "axis" in e.kwargs and const_int(vkey(e.kwargs["axis"])) not in (0, -1):
                bad = bad or "accumulate on a 1-D row with axis=%s" % show(e.kwargs["axis"])
            if dk[2] != src[2]:
                bad = bad or "row %s of the source is accumulated into row %s of the destination" % (src[2], dk[2])
            dests.add(dk[1])
            by_iteration = True
            continue
        if src is None or src[0] != "sub" or src[1] != p0:
            unrec("%s: accumulate source %s is not a row of the argument" % (f.qualname, show(e.args[0])))
        si = row_index(src[2])
        if si is None:
            unrec("%s: source index %s" % (f.qualname, show_key(src[2])))
        if "axis" in e.kwargs and const_int(vkey(e.kwargs["axis"])) not in (0, -1):
            bad = bad or "accumulate on a 1-D row with axis=%s" % show(e.kwargs["axis"])
        if si[1] != "row":
            bad = bad or "source %s is a grid column, not a sample row: the sum would run over samples" % show(e.args[0])
        # destination: out= row, or a row store of the call's value
        dk = None
        if "out" in e.kwargs:
            dk = A(e.kwargs["out"])
        else:
            me = vkey(Poly.atom(_event_atom(e)))
            for s in ex.events:
                if s.name == "store_sub" and vkey(s.args[2]) == me:
                    dk = ("sub", vkey(s.args[0]), vkey(s.args[1]))
        if dk is None or dk[0] != "sub":
            unrec("%s: destination of the row accumulate not found" % f.qualname)
        di = row_index(dk[2])
        if di is None:
            unrec("%s: destination index %s" % (f.qualname, show_key(dk[2])))
        if di[1] != "row" or di[0] != si[0]:
            bad = bad or "row %s of the source is accumulated into %s of the destination" % (show_key(src[2]), show_key(dk[2]))
        dests.add(dk[1])
        ra = A(si[0])
        if ra is None or ra[0] != "elem":
            unrec("%s: row index %s is not a loop variable" % (f.qualname, show_key(si[0])))
        doms.add(ra[1])
    ctx.check(bad is None, "N2", f.qualname + ": accumulate runs along the grid axis, source row i -> destination row i", f.where(acc[0].node), bad or "", construct=f.qualname, stmt="accumulate rows")
    # every row
    if vectorised or (by_iteration and not doms):
        ok, why = True, ""
    else:
        if len(doms) != 1:
            unrec("%s: rows range over %d different domains" % (f.qualname, len(doms)))
        rg = parse_range(next(iter(doms)))
        if rg is None:
            unrec("%s: rows range over %s" % (f.qualname, show_key(next(iter(doms)))))
        ok, why = _covers_rows(rg, {p0})
    ctx.check(ok, "N2", f.qualname + ": every sample row is accumulated", f.where(), why, construct=f.qualname, stmt="row domain")
    # returned array is the destination, a fresh array of the argument's shape
    if len(dests) != 1:
        unrec("%s: %d destination arrays" % (f.qualname, len(dests)))
    d = next(iter(dests))
    ok = vkey(ex.result) == d if ex.result is not None else False
    why = "the function returns %s, not the array the running sums were written to (%s)" % (show(ex.result), show_key(d))
    if ok and not vectorised:
        da = A(d)
        fresh = da is not None and da[0] == "call" and da[1] in ("np.empty_like", "np.zeros_like", "np.full_like", "np.empty", "np.zeros") and da[2] and (da[2][0] == p0 or A(da[2][0]) == ("attr", p0, "shape"))
        if not fresh:
            if d == p0:
                ok, why = False, "the running sums overwrite the argument in place (the children's D is a cached, shared array)"
            else:
                unrec("%s: destination %s is not a fresh array of the argument's shape" % (f.qualname, show_key(d)))
    ctx.check(ok, "N2", f.qualname + ": returns the accumulated array", f.where(), why, construct=f.qualname, stmt="return value")
    ctx.analysed(f)


def _event_atom(e):
    kw = tuple(sorted(((k, vkey(v)) for k, v in e.kwargs.items()), key=repr))
    return ("call", e.name, tuple(vkey(a) for a in e.args), kw)


def _covers_rows(rg, arrays):
    """range(start, stop[, step]) enumerates every row of one of `arrays`."""
    start, stop, step = rg
    if const_int(start) != 0:
        return False, "the row loop starts at %s: row(s) before it are never processed" % show_key(start)
    if step is not None and const_int(step) != 1:
        return False, "the row loop has step %s" % show_key(step)
    sr = shape_read(stop)
    if sr is None:
        if mentions(stop, lambda t: t[0] == "attr" and t[2] == "shape") or const_of(stop) is not None:
            return False, "the row loop stops at %s, which is not the number of sample rows" % show_key(stop)
        unrec("row loop bound %s" % show_key(stop))
    if sr[0] not in arrays:
        unrec("row loop bound reads the shape of %s" % show_key(sr[0]))
    if sr[1] != 0:
        return False, "the row loop is bounded by axis %d (the grid size), not by the number of sample rows" % sr[1]
    return True, ""


# ----------------------------------------------------------------------------------------- N3
CONV_NAMES = {"_convolve_two_children"}


def _fold_leaves(k, conv_names, leaf):
    """Leaves of a nest of binary convolution calls; `leaf(key)` names a leaf or returns None."""
    a = A(k)
    if a is not None and a[0] == "call" and a[1] in conv_names:
        if len(a[2]) != 2 or a[3]:
            unrec("convolution called with %d positional argument(s)" % len(a[2]))
        return _fold_leaves(a[2][0], conv_names, leaf) + _fold_leaves(a[2][1], conv_names, leaf)
    l = leaf(k)
    if l is None:
        unrec("fold operand %s" % show_key(k))
    return [l]


def rule_N3(ctx):
    prog = ctx.prog
    ctx.rule("N3", "the convolution fold covers every child exactly once (0 -> neutral, 1 -> that child, n>=2 -> all of them), and S is its running sum", 7)
    fS = prog.fn("tree.utils.compute_log_S")
    fD = prog.fn("tree.utils.compute_log_D")
    disp = prog.fn("tree.utils._convolve_two_children")
    conv_names = {disp.name} | _backend_names(prog, disp)
    no_inline = sorted(conv_names) + ["_sub_compute_S"]

    def child(k):
        a = A(k)
        if a is not None and a[0] == "v" and a[1].startswith("c"):
            return int(a[1][1:])
        if const_of(k) is not None:
            return "the constant %s" % show_key(k)  # a constant where a child's R is expected
        if a is not None and a[0] == "sub":
            return "%s (an element the child list does not have)" % show_key(k)  # wrong arm for this number of children
        return None

    concrete_ok = True
    for n in range(0, 6):
        ex = extract(prog, fS, args=[_children(n)], inline=[fD.name], no_inline=no_inline)
        label = "%s with %d child(ren)" % (fS.qualname, n)
        r = ex.result
        if n == 0:
            ok = isinstance(r, Poly) and r.is_const() and r.const_value() == 0
            concrete_ok &= ctx.check(ok, "N3", label + ": neutral element", fS.where(), "without children log S must be 0 (S = 1 at every grid point); the code gives %s" % show(r), construct=fS.qualname, stmt="0 children")
            continue
        a = A(r)
        if a is None or a[0] != "call" or a[1] != "_sub_compute_S" or len(a[2]) != 1:
            # S is not the running sum of D
            if a is not None and (a[0] == "v" or (a[0] == "call" and a[1] in conv_names)):
                ctx.fail("N3", label + ": S is the running sum of the fold", fS.where(), "compute_log_S returns %s: the cumulative sum over the grid (_sub_compute_S) is missing" % show(r), construct=fS.qualname, stmt="%d children" % n)
                concrete_ok = False
                continue
            unrec("%s returns %s for %d children" % (fS.qualname, show(r), n))
        leaves = _fold_leaves(a[2][0], conv_names, child)
        ok = all(isinstance(x, int) for x in leaves) and sorted(leaves) == list(range(n))
        missing = sorted(set(range(n)) - set(leaves))
        rep = sorted({x for x in leaves if isinstance(x, int) and leaves.count(x) > 1})
        why = "with %d children the fold uses children %s: missing %s, repeated %s" % (n, leaves, missing or "none", rep or "none")
        concrete_ok &= ctx.check(ok, "N3", label + ": every child enters the fold exactly once", fD.where(), why, construct=fD.qualname, stmt="%d children" % n)
    ctx.analysed(fS, fD)
    try:
        _fold_any_n(ctx, prog, fD, conv_names)
    except AnalysisError as e:
        if concrete_ok:
            raise
        # the fold is already wrong for a concrete number of children: its loop need not have a recognisable shape
        ctx.fail("N3", fD.qualname + ": for any n the loop folds all remaining children", fD.where(), "the fold is wrong for a concrete number of children (above) and its loop is not a fold over all remaining children (%s)" % e, construct=fD.qualname, stmt="fold loop")


def _fold_any_n(ctx, prog, fD, conv_names):
    # general n: the loop of the fold ranges over all remaining children
    ex = extract(prog, fD, no_inline=sorted(conv_names))
    a = A(ex.result)
    if a is None or a[0] != "cond":
        unrec("%s: symbolic result %s" % (fD.qualname, show(ex.result)))
    last = a[1][-1]
    if last[0] != TRUE:
        unrec("%s: last alternative is guarded" % fD.qualname)

    def idx(k):
        s = A(k)
        if s is not None and s[0] == "sub" and s[1] == Pk(0):
            return s[2]
        if s is not None and s[0] == "elem":
            # `for child in children[m:]`: the i-th element of the slice is child number range(m, len(children))[i]
            d = A(s[1])
            if d is not None and d[0] == "sub" and d[1] == Pk(0):
                sl = A(d[2])
                none = vkey(None)
                if sl is not None and sl[0] == "slice" and sl[2] == none and sl[3] == none and sl[1] != none:
                    rng_ = Poly.atom(("call", "range", (sl[1], Poly.atom(("call", "len", (Pk(0),), ())).key()), ()))
                    return Poly.atom(("elem", rng_.key(), s[2])).key()
        return None

    leaves = _fold_leaves(last[1], conv_names, idx)
    consts = sorted(const_int(k) for k in leaves if const_int(k) is not None)
    elems = [A(k) for k in leaves if const_int(k) is None]
    if any(e is None or e[0] != "elem" for e in elems):
        unrec("%s: child index %s" % (fD.qualname, [show_key(k) for k in leaves]))
    doms = {e[1] for e in elems}
    ok, why = True, ""
    if not elems or len(doms) != 1 or sorted(e[2] for e in elems) != list(range(len(elems))):
        unrec("%s: loop elements %s" % (fD.qualname, [show_key(k) for k in leaves]))
    rg = parse_range(next(iter(doms)))
    if rg is None:
        unrec("%s: fold loop ranges over %s" % (fD.qualname, show_key(next(iter(doms)))))
    m = len(consts)
    if consts != list(range(m)):
        ok, why = False, "the fold starts from children %s" % consts
    elif const_int(rg[0]) != m:
        ok, why = False, "children 0..%d are folded first, but the loop starts at %s: child(ren) in between are %s" % (m - 1, show_key(rg[0]), "skipped" if (const_int(rg[0]) or 0) > m else "repeated")
    elif rg[2] is not None and const_int(rg[2]) != 1:
        ok, why = False, "the fold loop has step %s" % show_key(rg[2])
    elif A(rg[1]) != ("call", "len", (Pk(0),), ()):
        if const_of(rg[1]) is not None or mentions(rg[1], lambda t: t[0] == "call" and t[1] == "len"):
            ok, why = False, "the fold loop stops at %s instead of the number of children" % show_key(rg[1])
        else:
            unrec("%s: loop bound %s" % (fD.qualname, show_key(rg[1])))
    ctx.check(ok, "N3", fD.qualname + ": for any n the loop folds children %d..n-1 after 0..%d" % (m, m - 1), fD.where(), why, construct=fD.qualname, stmt="fold loop")


def _backend_names(prog, disp):
    out = set()
    for c in calls(disp.node):
        nm = last_name(c)
        if nm and isinstance(c.func, ast.Name) and prog.resolve_function(nm, disp.module) is not None:
            out.add(nm)
    return out


# ----------------------------------------------------------------------------------------- N4
ROWMAX_CALLS = ("np.max", "np.amax")
VEC_CONV = ("scipy.signal.fftconvolve",)
ROW_CONV = ("np.convolve",)


def _rowmax_of(atom):
    """(operand key, problem or None) when `atom` is a max over an array, else None."""
    if atom is None:
        return None
    if atom[0] == "call" and atom[1] in ROWMAX_CALLS and len(atom[2]) == 1:
        arr, kw = atom[2][0], kwargs_of(atom)
    elif atom[0] == "mcall" and atom[1] == "max" and not atom[3]:
        arr, kw = atom[2], kwargs_of(atom)
    else:
        return None
    if set(kw) - {"axis", "keepdims"}:
        unrec("max called with %s" % sorted(kw))
    if "axis" not in kw:
        return arr, "the maximum is taken over the whole array, not per sample row"
    if const_int(kw["axis"]) not in (-1, 1):
        return arr, "the maximum is taken along axis %s, not along the grid axis" % show_key(kw["axis"])
    if "keepdims" not in kw or not is_true(kw["keepdims"]):
        unrec("per-row max without keepdims=True")
    return arr, None


class Backend:
    pass


def _analyse_backend(ctx, fi, sites):
    prog = ctx.prog
    q = fi.qualname
    if len(fi.params) != 2:
        unrec("%s no longer takes two children" % q)
    ex = extract(prog, fi)
    R = ex.result
    if not isinstance(R, Poly):
        unrec("%s returns %s" % (q, show(R)))
    p = [Pk(0), Pk(1)]
    # (the logarithm of a literal - a named constant such as LOG_FLOOR = np.log(1e-100) - is not the backend's log)
    logs = [e for e in ex.calls("log") if not (len(e.args) >= 1 and isinstance(e.args[0], Poly) and e.args[0].is_const())]
    if len(logs) != 1:
        unrec("%s: %d np.log calls" % (q, len(logs)))
    lev = logs[0]
    if lev.guards:
        unrec("%s: np.log under a condition" % q)
    log_monos = [(m, c) for m, c in R.terms.items() if any(a[0] == "call" and a[1] == "log" for a, _ in m)]
    if len(log_monos) != 1:
        unrec("%s: result %s" % (q, show(R)))
    m, c = log_monos[0]
    if c != 1 or len(m) != 1 or m[0][1] != 1 or not m[0][0][2] or m[0][0][2][0] != vkey(lev.args[0]):
        unrec("%s: result %s" % (q, show(R)))
    L = m[0][0]
    rest = R - Poly.atom(L)
    Xk = L[2][0]
    b = Backend()
    b.fi, b.q = fi, q
    where_log = fi.where(lev.node) if sites.context(lev.node)[1] is fi.node else fi.where()

    # ---- (d) floor before log --------------------------------------------------------------
    inner = Xk
    d_ok, d_why = None, None
    xa = A(Xk)
    if xa is not None and xa[0] == "call" and xa[1] in ("np.maximum", "np.fmax") and len(xa[2]) == 2:
        ev = next((e for e in ex.events if e.name == xa[1] and tuple(vkey(z) for z in e.args) == xa[2]), None)
        if ev is None or not isinstance(ev.node, ast.Call) or len(ev.node.args) != 2:
            unrec("%s: %s" % (q, show_key(Xk)))
        stmt, fnode, mod = sites.context(ev.node)
        vals = [literal(z, fnode, mod) for z in ev.node.args]
        ci = [i for i, v in enumerate(vals) if v is not None]
        if len(ci) != 1:
            unrec("%s: floor %s" % (q, show_key(Xk)))
        inner = xa[2][1 - ci[0]]
        d_ok = vals[ci[0]] > 0
        d_why = "np.maximum floor %r is not positive" % vals[ci[0]]
    untrunc = None
    ia = A(inner)
    if ia is not None and ia[0] == "sub":
        untrunc = ia[1]
    if d_ok is None:
        pos = ex.events.index(lev)
        found = []
        for ev in ex.events[:pos]:
            if ev.name != "store_sub":
                continue
            bk = vkey(ev.args[0])
            if bk != inner and bk != untrunc:
                continue
            ca = A(ev.args[1])
            if ca is not None:
                from ..termflow import ordering as _ordering
                ca = _ordering(ca)
            if ca is None or ca[0] != "cmp":
                unrec("%s: partial store into the convolution result with index %s" % (q, show(ev.args[1])))
            if ev.guards:
                unrec("%s: conditional floor" % q)
            found.append((ev, bk, ca))
        if len(found) > 1:
            unrec("%s: %d masked stores before np.log" % (q, len(found)))
        if found:
            ev, bk, ca = found[0]
            stmt, fnode, mod = sites.context(ev.node)
            if not isinstance(stmt, ast.Assign):
                unrec("%s: floor statement %s" % (q, u(stmt)))
            c1 = literal(stmt.value, fnode, mod)
            if c1 is None:
                unrec("%s: floor value %s is not a literal" % (q, u(stmt.value)))
            op, ka, kb = ca[1], ca[2], ca[3]
            thr_node = None
            tgt = ev.node
            if isinstance(tgt, ast.Subscript) and isinstance(tgt.slice, ast.Compare) and len(tgt.slice.comparators) == 1:
                lits = [literal(z, fnode, mod) for z in (tgt.slice.left, tgt.slice.comparators[0])]
                thr_node = next((v for v in lits if v is not None), None)
            if ka == bk and const_of(kb) is not None and op in ("<", "<="):
                c0 = thr_node if thr_node is not None else float(const_of(kb))
                if thr_node is None and c0 == 0 and op == "<":
                    unrec("%s: floor threshold not readable" % q)
                covers = c0 >= 0 if op == "<=" else c0 > 0
                if not covers:
                    d_ok, d_why = False, "the mask %s leaves zero entries in place: np.log then yields -inf" % u(tgt.slice if isinstance(tgt, ast.Subscript) else tgt)
                elif c1 <= 0:
                    d_ok, d_why = False, "non-positive entries are replaced by %r, which is not positive" % c1
                elif c1 > 1e-100:
                    d_ok, d_why = False, "non-positive entries are replaced by %r: the statement's underflow floor is 1e-100 of the children's peak product (a larger floor lifts every underflowed grid point to that value)" % c1
                elif c0 > c1:
                    d_ok, d_why = False, "entries up to %r are replaced by the smaller value %r" % (c0, c1)
                else:
                    d_ok = True
            elif (kb == bk and const_of(ka) is not None) or (op == "==" and bk in (ka, kb)):
                d_ok, d_why = False, "the mask %s does not select the non-positive entries" % show(ev.args[1])
            else:
                unrec("%s: mask %s" % (q, show(ev.args[1])))
        else:
            # is there a floor AFTER the log, or none at all?
            later = [ev for ev in ex.events[pos + 1:] if ev.name == "store_sub" and A(ev.args[1]) is not None and A(ev.args[1])[0] == "cmp"]
            d_ok = False
            d_why = "no entry of the truncated convolution is floored before np.log" + (" (a masked store follows the log: too late, -inf/NaN are already produced)" if later else "") + ": a zero (underflow) or negative (FFT round-off) entry gives -inf/NaN, so the reported likelihood is not always finite"
    ctx.check(d_ok, "N4", q + ": (d) non-positive entries are replaced by a positive constant before np.log", where_log, d_why or "", construct=q, stmt="(d) floor before log")

    # ---- (c)+(e) truncation and convolution --------------------------------------------------
    c_ok, c_why, e_ok, e_why = True, "", True, ""
    ops = None
    ia = A(inner)
    if ia is None:
        unrec("%s: logged value %s" % (q, show_key(inner)))

    def grid_ok(k, arrays):
        """None when k is the grid size; else a reason."""
        sr = shape_read(k)
        if sr is not None and sr[0] in arrays:
            if sr[1] in (-1, 1):
                return None
            return "the cut-off %s is the number of sample rows, not the grid size" % show_key(k)
        if const_of(k) is not None or mentions(k, lambda t: t[0] == "attr" and t[2] == "shape"):
            return "the cut-off %s is not the grid size" % show_key(k)
        unrec("%s: cut-off %s" % (q, show_key(k)))

    def trunc_slice(k, arrays):
        s = A(k)
        if s is None or s[0] != "slice":
            unrec("%s: truncation index %s" % (q, show_key(k)))
        lo, hi, st = s[1:4]
        if not (is_none(lo) or const_int(lo) == 0):
            return "the kept window starts at %s, not at entry 0" % show_key(lo)
        if not (is_none(st) or const_int(st) == 1):
            return "the kept window has step %s" % show_key(st)
        if is_none(hi):
            return "the convolution is not cut to the grid (open-ended slice)"
        return grid_ok(hi, arrays)

    if ia[0] == "list":
        b.kind = "direct"
        items = ia[1]
        if len(items) < 2:
            unrec("%s: row list %s" % (q, show_key(inner)))
        rows, doms = [], set()
        pairs = set()
        for it in items:
            t = A(it)
            cut = None
            if t is not None and t[0] == "sub":
                cut, t = t[2], A(t[1])
            if t is None or t[0] != "call" or t[1] not in ROW_CONV or len(t[2]) != 2:
                unrec("%s: row item %s" % (q, show_key(it)))
            kw = kwargs_of(t)
            if set(kw) - {"mode"}:
                unrec("%s: np.convolve(%s)" % (q, sorted(kw)))
            if "mode" in kw and A(kw["mode"]) != ("const", "'full'"):
                c_ok, c_why = False, "np.convolve(mode=%s) does not return the leading entries of the full convolution" % show_key(kw["mode"])
            row_ops = []
            for ok_ in t[2]:
                oa = A(ok_)
                if oa is None or oa[0] != "sub":
                    unrec("%s: convolution operand %s" % (q, show_key(ok_)))
                ri = row_index(oa[2])
                if ri is None:
                    unrec("%s: operand index %s" % (q, show_key(oa[2])))
                row_ops.append((oa[1], ri))
            pairs.add((row_ops[0][0], row_ops[1][0]))
            arrays = {p[0], p[1], row_ops[0][0], row_ops[1][0]}
            (ra, ka), (rb, kb) = row_ops[0][1], row_ops[1][1]
            if ka != "row" or kb != "row":
                e_ok, e_why = False, "an operand line %s is a grid column: the convolution would run over samples" % show_key(it)
            elif ra != rb:
                e_ok, e_why = False, "row %s of one child is convolved with row %s of the other" % (show_key(ra), show_key(rb))
            el = A(ra)
            if el is None or el[0] != "elem":
                if const_of(ra) is not None:
                    e_ok, e_why = False, "every output row convolves the fixed row %s" % show_key(ra)
                else:
                    unrec("%s: row index %s" % (q, show_key(ra)))
            else:
                doms.add(el[1])
            if cut is None:
                if c_ok:
                    c_ok, c_why = False, "the full convolution (2*grid-1 entries) is not cut to the first <grid> entries"
            else:
                w = trunc_slice(cut, arrays)
                if w and c_ok:
                    c_ok, c_why = False, w
        if len(pairs) != 1:
            unrec("%s: rows convolve different arrays" % q)
        ops = list(next(iter(pairs)))
        if e_ok:
            if len(doms) != 1:
                unrec("%s: %d row domains" % (q, len(doms)))
            rg = parse_range(next(iter(doms)))
            if rg is None:
                unrec("%s: rows range over %s" % (q, show_key(next(iter(doms)))))
            e_ok, e_why = _covers_rows(rg, {p[0], p[1], ops[0], ops[1]})
    else:
        b.kind = "fft"
        cut = None
        t = ia
        if t[0] == "sub":
            cut, t = t[2], A(t[1])
        if t is None or t[0] != "call" or t[1] not in VEC_CONV or len(t[2]) != 2:
            unrec("%s: logged value %s" % (q, show_key(inner)))
        ops = list(t[2])
        kw = kwargs_of(t)
        if set(kw) - {"mode", "axes"}:
            unrec("%s: fftconvolve(%s)" % (q, sorted(kw)))
        if "mode" in kw and A(kw["mode"]) != ("const", "'full'"):
            c_ok, c_why = False, "fftconvolve(mode=%s) does not return the leading entries of the full convolution" % show_key(kw["mode"])
        if "axes" not in kw:
            e_ok, e_why = False, "fftconvolve without axes= convolves over the sample axis as well (a 2-D convolution mixing samples)"
        else:
            ax = A(kw["axes"])
            axv = None
            if ax is not None and ax[0] in ("list", "tuple"):
                its = ax[1] if ax[0] == "list" else ax[1:]
                axv = [const_int(z) for z in its]
            elif const_int(kw["axes"]) is not None:
                axv = [const_int(kw["axes"])]
            if axv is None or any(z is None for z in axv):
                unrec("%s: axes=%s" % (q, show_key(kw["axes"])))
            if sorted(set(axv)) not in ([-1], [1]):
                e_ok, e_why = False, "fftconvolve(axes=%s) does not convolve along the grid (last) axis only" % axv
        arrays = {p[0], p[1], ops[0], ops[1]}
        if cut is None:
            c_ok, c_why = False, "the full convolution (2*grid-1 entries) is not cut to the first <grid> entries"
        else:
            ca = A(cut)
            if ca is not None and ca[0] == "tuple" and len(ca) == 3 and (is_ellipsis(ca[1]) or is_full_slice(ca[1])):
                w = trunc_slice(ca[2], arrays)
                if w and c_ok:
                    c_ok, c_why = False, w
            elif ca is not None and ca[0] == "slice":
                c_ok, c_why = False, "the slice %s cuts the sample axis of the 2-D result, not the grid axis" % show_key(cut)
            else:
                unrec("%s: truncation index %s" % (q, show_key(cut)))
    ctx.check(c_ok, "N4", q + ": (c) the convolution is truncated to the first <grid size> entries", where_log, c_why, construct=q, stmt="(c) truncation")
    ctx.check(e_ok, "N4", q + ": (e) convolution along the last axis, row by row, every row", where_log, e_why, construct=q, stmt="(e) per-row convolution")

    # ---- (a) each operand is exp(child - per-row max of that child) ---------------------------
    a_ok, a_why = True, ""
    subtracted = Poly.const(0)
    used = []
    for ok_ in ops:
        oa = A(ok_)
        if oa is None or oa[0] != "call" or oa[1] != "exp" or len(oa[2]) != 1 or oa[3]:
            ks = [i for i in (0, 1) if mentions(ok_, lambda t, i=i: t == ("v", "P%d" % i))]
            if len(ks) == 1 and not mentions(ok_, lambda t: t[0] == "call" and t[1] == "exp"):
                a_ok, a_why = False, "child %d enters the convolution in the log domain (%s, no exp)" % (ks[0], show_key(ok_))
                used.append(ks[0])
                subtracted = subtracted + (P(ks[0]) - _val_of_key(ok_) if _is_polykey(ok_) else Poly.const(0))
                continue
            unrec("%s: convolution operand %s" % (q, show_key(ok_)))
        arg = _val_of_key(oa[2][0])
        ks = [i for i in (0, 1) if arg.terms.get(((("v", "P%d" % i), 1),)) == 1]
        if len(ks) != 1:
            unrec("%s: exp argument %s" % (q, show(arg)))
        k = ks[0]
        used.append(k)
        sub = P(k) - arg
        subtracted = subtracted + sub
        if not sub.terms:
            a_ok, a_why = False, "child %d is exponentiated without subtracting its per-row maximum: exp underflows to 0 for typical log-likelihoods" % k
            continue
        rm = _rowmax_of(sub.as_atom())
        if rm is None:
            if mentions(sub.key(), lambda t: (t[0] == "call" and t[1] in ROWMAX_CALLS) or (t[0] == "mcall" and t[1] == "max")):
                a_ok, a_why = False, "child %d is normalised by %s, not by its per-row maximum" % (k, show(sub))
                continue
            unrec("%s: normaliser %s" % (q, show(sub)))
        arr, prob = rm
        if arr != p[k]:
            a_ok, a_why = False, "child %d is normalised by the maximum of %s, not by its own" % (k, show_key(arr))
        elif prob:
            a_ok, a_why = False, "child %d: %s" % (k, prob)
    if a_ok and sorted(used) != [0, 1]:
        a_ok, a_why = False, "the convolution operands derive from child(ren) %s: one child is used twice, the other not at all" % used
    ctx.check(a_ok, "N4", q + ": (a) each operand is exp(child - per-row max of that child)", where_log, a_why, construct=q, stmt="(a) max-normalisation")

    # ---- (b) exactly what was subtracted is added back after the log ---------------------------
    b_ok = vkey(rest) == vkey(subtracted)
    b_why = "after np.log the code adds %s, but %s was subtracted before exp: the result is off by %s" % (show(rest), show(subtracted), show(subtracted - rest))
    ctx.check(b_ok, "N4", q + ": (b) both subtracted maxes are added back after np.log", where_log, b_why, construct=q, stmt="(b) de-normalisation")
    ctx.sample({"rule": "N4", "back_end": q, "kind": b.kind, "result": show(R)[:400]})
    ctx.analysed(fi)
    return b


def rule_N4(ctx):
    prog = ctx.prog
    ctx.rule("N4", "both convolution back ends normalise by per-row maxes, add both back, truncate to the grid, floor before log, convolve per row; the dispatch is exhaustive on the grid size", 11)
    sites = Sites(prog)
    disp = prog.fn("tree.utils._convolve_two_children")
    names = _backend_names(prog, disp)
    if len(disp.params) != 2:
        unrec("%s no longer takes two children" % disp.qualname)
    ex = extract(prog, disp, no_inline=sorted(names))
    a = A(ex.result)
    if a is None or a[0] != "cond":
        unrec("%s: result %s is not a two-way dispatch" % (disp.qualname, show(ex.result)))
    alts = a[1]
    backends = {}
    arms = []
    undef = False
    for g, vk in alts:
        va = A(vk)
        if va is not None and va[0] in ("undef", "g") or va == ("const", "None"):
            undef = True
            continue
        if va is None or va[0] != "call" or va[1] not in names:
            unrec("%s: arm %s" % (disp.qualname, show_key(vk)))
        fi = prog.resolve_function(va[1], disp.module)
        if va[1] not in backends:
            backends[va[1]] = _analyse_backend(ctx, fi, sites)
        arms.append((g, va, backends[va[1]]))
    if len(arms) != 2 or len(backends) != 2:
        unrec("%s: %d arms over %d back ends" % (disp.qualname, len(arms), len(backends)))
    kinds = sorted(b.kind for b in backends.values())
    if kinds != ["direct", "fft"]:
        unrec("%s: back ends are %s" % (disp.qualname, kinds))
    ok, why = True, ""
    if undef or arms[-1][0] != TRUE:
        ok, why = False, "the two arms are not exhaustive: for some grid size no convolution is computed"
    for g, va, b in arms:
        if ok and (len(va[2]) != 2 or sorted(va[2], key=repr) != sorted([Pk(0), Pk(1)], key=repr) or va[3]):
            ok, why = False, "%s is called with %s, not with the two children" % (va[1], ", ".join(show_key(z) for z in va[2]))
    from ..termflow import ordering as _ordering
    g = _ordering(arms[0][0])
    if ok:
        if g[0] != "cmp" or g[1] not in ("<", "<="):
            unrec("%s: dispatch test %s" % (disp.qualname, show_key(g)))
        lhs, rhs = g[2], g[3]
        if shape_read(lhs) is not None and const_int(rhs) is not None:
            sr, T, first_small = shape_read(lhs), const_int(rhs), True
            s = T - 1 if g[1] == "<" else T
        elif shape_read(rhs) is not None and const_int(lhs) is not None:
            sr, T, first_small = shape_read(rhs), const_int(lhs), False
            s = T if g[1] == "<" else T - 1
        else:
            unrec("%s: dispatch test %s" % (disp.qualname, show_key(g)))
        if sr[0] not in (Pk(0), Pk(1)):
            unrec("%s: dispatch reads the shape of %s" % (disp.qualname, show_key(sr[0])))
        small = arms[0][2] if first_small else arms[1][2]
        if sr[1] not in (-1, 1):
            ok, why = False, "the dispatch reads axis %d (the number of samples), not the grid size (last axis)" % sr[1]
        elif small.kind != "direct":
            ok, why = False, "grids up to %d points are sent to the FFT back end and larger ones to the direct one: below the switch the FFT round-off floor (about 1e-6 of the row peak) replaces the direct path's 1e-100" % s
        elif s < 999:
            ok, why = False, "the FFT back end is used from %d grid points: the property promises direct-path accuracy below 1000" % (s + 1)
        ctx.note("dispatch: direct convolution for grid size <= %d, FFT above" % s)
    ctx.check(ok, "N4", disp.qualname + ": dispatch on the grid size (last axis), two exhaustive arms, direct path below the switch", disp.where(), why, construct=disp.qualname, stmt="dispatch")
    ctx.analysed(disp)


# ----------------------------------------------------------------------------------------- N5
HOOKS = ("discover_vertex", "finish_vertex", "tree_edge", "back_edge", "forward_or_cross_edge")


def rule_N5(ctx):
    prog = ctx.prog
    ctx.rule("N5", "bottom-up order: full refresh in DFS finish order from the virtual root; path refresh walks the root->source path reversed, both ends included", 6)
    f = prog.fn("Tree.update")
    ex = extract(prog, f)
    dfs = ex.calls("rustworkx.dfs_search")
    if len(dfs) != 1 or len(dfs[0].args) != 3 or dfs[0].guards:
        # not the recognised post-order traversal.  The refresh must recompute every node after all of its
        # children; an order derived from graph indices, insertion order or a pre-order walk does not (a grafted
        # subtree gets higher indices than its new parent).  Only a DFS finish-order visitor is accepted.
        ctx.fail("N5", f.qualname + ": full refresh in depth-first finish (post-) order", f.where(), "Tree.update does not refresh through one unconditional rx.dfs_search(graph, [root], visitor) with a finish_vertex visitor (%d such calls found): a parent can be recomputed before its children" % len(dfs), construct=f.qualname, stmt="dfs_search post-order")
        return
    g, srcs, vis = dfs[0].args
    root_idx = vkey(Poly.atom(("sub", vkey(Poly.atom(("attr", Pk(0), "_node_indices"))), vkey(Poly.atom(("attr", Pk(0), "_ROOT_NODE_NAME"))))))
    ok = vkey(g) == vkey(Poly.atom(("attr", Pk(0), "_graph"))) and isinstance(srcs, AList) and not srcs.doms and len(srcs.items) == 1 and vkey(srcs.items[0]) == root_idx
    ctx.check(ok, "N5", f.qualname + ": depth-first search over the tree's graph from the virtual root only", f.where(dfs[0].node), "the full refresh searches %s from %s, not self._graph from [index of the virtual root]: nodes outside that search keep stale log_r" % (show(g), show(srcs)), construct=f.qualname, stmt="dfs_search sources")
    va = A(vis)
    if va is None or va[0] != "call" or not va[1].startswith("new:") or len(va[2]) != 1:
        unrec("%s: visitor %s" % (f.qualname, show(vis)))
    ok = va[2][0] == vkey(Poly.atom(("attr", Pk(0), "_update_node")))
    ctx.check(ok, "N5", f.qualname + ": the visitor is built on self._update_node", f.where(dfs[0].node), "the visitor's update function is %s" % show_key(va[2][0]), construct=f.qualname, stmt="visitor update function")
    vc = prog.resolve_class(va[1][4:], f.module)
    if vc is None:
        unrec("visitor class %s not found" % va[1][4:])
    if not any(b.split(".")[-1] == "DFSVisitor" for c in prog.mro(vc) for b in c.bases):
        unrec("%s does not derive from rustworkx DFSVisitor" % vc.qualname)
    init = prog.method(vc, "__init__")
    if init is None:
        unrec("%s has no __init__" % vc.qualname)
    exi = extract(prog, init)
    attrs = [k[1] for k, v in exi.stores().items() if k[0] == Pk(0) and vkey(v) == Pk(1)]
    if len(attrs) != 1:
        unrec("%s.__init__ does not store its argument in exactly one attribute" % vc.name)
    attr = attrs[0]
    callers = {}
    for h in HOOKS:
        m = prog.method(vc, h)
        if m is None:
            continue
        exh = extract(prog, m)
        evs = [e for e in exh.events if e.name == "." + attr and e.recv is not None and obj(e.recv) == Pk(0)]
        if evs:
            callers[h] = (m, evs)
    fin = callers.get("finish_vertex")
    others = sorted(h for h in callers if h != "finish_vertex")
    if fin is None:
        ctx.fail("N5", vc.qualname + ": the update function runs when a vertex is FINISHED (post-order)", vc.where(), "the visitor calls the node update from %s and not from finish_vertex: a parent is combined before its children have been refreshed" % (others or "no DFS hook"), construct=vc.qualname, stmt="finish_vertex")
    else:
        m, evs = fin
        # (a call from another hook as well is redundant, not wrong: finish_vertex runs last for every vertex)
        ok = any(not e.guards and len(e.args) == 1 and vkey(e.args[0]) == Pk(1) for e in evs)
        why = "finish_vertex must call the update function unconditionally with the finished vertex; found %s" % ["%s(%s)%s" % (attr, ", ".join(show(a) for a in e.args), " under a condition" if e.guards else "") for e in evs]
        if others:
            ctx.note("N5: %s also calls the update function from %s (redundant)" % (vc.name, ", ".join(others)))
        ctx.check(ok, "N5", vc.qualname + ": the update function runs when a vertex is FINISHED (post-order), with that vertex", m.where(), why, construct=vc.qualname, stmt="finish_vertex")
        ctx.analysed(m)
    ctx.analysed(f, init)

    # path refresh
    pf = prog.fn("Tree._update_path_to_root")
    ex = extract(prog, pf, opaque_self_methods={"_update_node"})
    ups = [e for e in ex.events if e.name == "._update_node"]
    if not ups:
        unrec("%s never calls _update_node" % pf.qualname)
    graph = vkey(Poly.atom(("attr", Pk(0), "_graph")))
    src_idx = vkey(Poly.atom(("sub", vkey(Poly.atom(("attr", Pk(0), "_node_indices"))), Pk(1))))
    order_bad = ends_bad = path_bad = None
    seen_general = False
    for e in ups:
        if len(e.args) != 1 or obj(e.recv) != Pk(0):
            unrec("%s: _update_node call %s" % (pf.qualname, [show(a) for a in e.args]))
        el = A(e.args[0])
        if vkey(e.args[0]) == root_idx and e.guards:
            continue  # the one-element fallback path [root] iterated directly: order is immaterial
        if el is None or el[0] != "elem":
            unrec("%s: _update_node(%s) outside the path loop" % (pf.qualname, show(e.args[0])))
        dom = A(el[1])
        rev = False
        path = el[1]
        if dom is not None and dom[0] == "call" and dom[1] == "reversed" and len(dom[2]) == 1:
            rev, path = True, dom[2][0]
        pa = A(path)
        if pa is not None and pa[0] == "sub" and A(pa[2]) is not None and A(pa[2])[0] == "slice":
            lo, hi, st = A(pa[2])[1:4]
            if (is_none(lo) or const_int(lo) == 0) and is_none(hi) and (const_int(st) == -1 or is_none(st) or const_int(st) == 1):
                if const_int(st) == -1:
                    rev = not rev
                path, pa = pa[1], A(pa[1])
            else:
                ends_bad = ends_bad or "the loop runs over %s: an end of the root..source path is skipped (the virtual root's or the source's log_r stays stale)" % show_key(path)
                path, pa = pa[1], A(pa[1])
        if not rev:
            order_bad = order_bad or "the path is walked root -> source (%s): every ancestor is recombined before the child below it has been refreshed" % show_key(el[1])
        # the path itself
        if pa is not None and pa[0] == "list":
            if not (len(pa[1]) == 1 and pa[1][0] == root_idx):
                unrec("%s: fallback path %s" % (pf.qualname, show_key(path)))
            continue
        if pa is None or pa[0] != "sub" or const_int(pa[2]) not in (0, -1):
            unrec("%s: path %s" % (pf.qualname, show_key(path)))
        asp = A(pa[1])
        if asp is None or asp[0] != "call" or asp[1] != "rustworkx.all_simple_paths" or len(asp[2]) != 3:
            unrec("%s: path source %s" % (pf.qualname, show_key(pa[1])))
        seen_general = True
        if asp[2][0] != graph:
            unrec("%s: paths searched in %s" % (pf.qualname, show_key(asp[2][0])))
        if (asp[2][1], asp[2][2]) == (src_idx, root_idx):
            path_bad = path_bad or "all_simple_paths is asked for source -> root paths: the graph's edges point parent -> child, so the path is empty or (reversed) top-down"
        elif (asp[2][1], asp[2][2]) != (root_idx, src_idx):
            path_bad = path_bad or "the refreshed path runs from %s to %s, not from the virtual root to the source node" % (show_key(asp[2][1]), show_key(asp[2][2]))
    if not seen_general:
        unrec("%s: no loop over an all_simple_paths result" % pf.qualname)
    ctx.check(order_bad is None, "N5", pf.qualname + ": the root->source path is walked reversed (source first, root last)", pf.where(), order_bad or "", construct=pf.qualname, stmt="path order")
    ctx.check(ends_bad is None, "N5", pf.qualname + ": every node of the path is refreshed, both ends included", pf.where(), ends_bad or "", construct=pf.qualname, stmt="path ends")
    ctx.check(path_bad is None, "N5", pf.qualname + ": the path is the simple path virtual root -> source in the tree's graph", pf.where(), path_bad or "", construct=pf.qualname, stmt="path endpoints")
    ctx.analysed(pf)


# ----------------------------------------------------------------------------------------- N6
def rule_N6(ctx):
    prog = ctx.prog
    ctx.rule("N6", "a node is combined with the log_r of ALL its successors; the reported vector is the virtual root's log_r", 2)
    f = prog.fn("Tree._update_node")
    ex = extract(prog, f, copy_is_identity=False)
    ups = ex.calls(".update_node_from_child_r_vals")
    if len(ups) != 1 or len(ups[0].args) != 1 or ups[0].guards:
        unrec("%s: %d unconditional update_node_from_child_r_vals(list) calls" % (f.qualname, len(ups)))
    e = ups[0]
    graph = vkey(Poly.atom(("attr", Pk(0), "_graph")))
    succ = ("mcall", "successors", graph, (Pk(1),), ())
    ok, why = True, ""
    recv = A(e.recv)
    if recv != ("sub", graph, Pk(1)):
        ok, why = False, "the node being combined is %s, not self._graph[node_idx]" % show(e.recv)
    lst = e.args[0]
    if not isinstance(lst, AList):
        unrec("%s: child values %s" % (f.qualname, show(lst)))
    if ok and (len(lst.items) != _tf.K_ELEMS or len(lst.doms) != 1):
        unrec("%s: child list %s" % (f.qualname, show(lst)))
    if ok:
        dom = A(lst.doms[0])
        if dom != succ:
            if dom is not None and dom[0] == "mcall" and dom[1] in ("predecessors", "neighbors", "successors", "adj") or (dom is not None and dom[0] == "sub"):
                ok, why = False, "the children are gathered from %s, not from all successors of the node" % show_key(lst.doms[0])
            else:
                unrec("%s: children domain %s" % (f.qualname, show_key(lst.doms[0])))
    if ok:
        for i, it in enumerate(lst.items):
            ia = A(it)
            if ia is not None and ia[0] == "cond":
                ok, why = False, "the comprehension filters the successors (%s): a child that is left out contributes S as if it did not exist" % show(it)
                break
            if ia is None or ia[0] != "attr" or A(ia[1]) is None or A(ia[1])[0] != "elem" or A(A(ia[1])[1]) != succ:
                unrec("%s: child item %s" % (f.qualname, show(it)))
            if ia[2] != "log_r":
                ok, why = False, "the children contribute .%s, not their subtree likelihood .log_r" % ia[2]
                break
    ctx.check(ok, "N6", f.qualname + ": [child.log_r for every successor] feeds the node's own update", f.where(e.node), why, construct=f.qualname, stmt="children gathered")
    g = prog.fn("Tree.data_log_likelihood@getter")
    exg = extract(prog, g, copy_is_identity=False)
    sp = spec(prog, """
        def s(self):
            return self._graph[self._node_indices[self.root_node_name]].log_r
        """, g)
    same(ctx, "N6", g.qualname + ": the virtual root's log_r", g, exg.result, sp.result, "reported likelihood vector", stmt="root log_r")
    ctx.analysed(f, g)


# ----------------------------------------------------------------------------------------- N7
ADDERS = {"add_data_point_to_node": 1, "_internal_add_data_point_to_node": 2, "_add_list_of_data_points_to_node": 1}


def rule_N7(ctx):
    prog = ctx.prog
    ctx.rule("N7", "uniform grid prior -log(number of grid points) on the full (samples, grid) shape; the virtual root holds the prior only", 17)
    # Tree.__init__
    f = prog.fn("Tree.__init__")
    ex = extract(prog, f, opaque_self_methods={"_add_node_to_indices"})
    sp = spec(prog, "def s(self, grid_size):\n    return -np.log(grid_size[1])\n", f)
    same(ctx, "N7", f.qualname + ": _log_prior = -log(number of grid points)", f, ex.store("_log_prior"), sp.result, "self._log_prior", stmt="_log_prior")
    news = ex.calls("new:TreeNode")
    if len(news) != 1 or len(news[0].args) != 3:
        unrec("%s builds %d TreeNode(s)" % (f.qualname, len(news)))
    ok = vkey(news[0].args[0]) == Pk(1)
    ctx.check(ok, "N7", f.qualname + ": the virtual root's payload has the full (samples, grid) shape", f.where(), "the root TreeNode is built with shape %s" % show(news[0].args[0]), construct=f.qualname, stmt="root TreeNode shape")
    same(ctx, "N7", f.qualname + ": the virtual root's payload is filled with the prior", f, news[0].args[1], sp.result, "root TreeNode prior", stmt="root TreeNode prior")
    ctx.analysed(f)
    # Tree._add_node
    an = prog.fn("Tree._add_node")
    ex = extract(prog, an, opaque_self_methods={"_add_node_to_indices"})
    news = ex.calls("new:TreeNode")
    if len(news) != 1 or len(news[0].args) != 3:
        unrec("%s builds %d TreeNode(s)" % (an.qualname, len(news)))
    ok = A(news[0].args[0]) == ("attr", Pk(0), "grid_size") and A(news[0].args[1]) == ("attr", Pk(0), "_log_prior")
    ctx.check(ok, "N7", an.qualname + ": every new node gets TreeNode(self.grid_size, self._log_prior, ...)", an.where(), "a new node is built as TreeNode(%s)" % ", ".join(show(a) for a in news[0].args), construct=an.qualname, stmt="TreeNode(...)")
    ctx.analysed(an)
    # Tree.from_dict
    fd = prog.fn("Tree.from_dict")
    ex = extract(prog, fd, opaque_self_methods={"update"})
    sp = spec(prog, """
        def s(cls, tree_dict):
            if "log_prior" in tree_dict:
                return tree_dict["log_prior"]
            else:
                return -np.log(tree_dict["grid_size"][1])
        """, fd)
    stores = [e for e in ex.events if e.name == "store_attr" and e.kwargs.get("attr") == "_log_prior"]
    if not stores:
        unrec("%s never stores _log_prior" % fd.qualname)
    bad = next((e for e in stores if not _equal_under(e.full_guards, e.args[1], sp.result)), None)
    ctx.check(bad is None, "N7", fd.qualname + ": _log_prior = recorded value, else -log(number of grid points)", fd.where(bad.node) if bad else fd.where(), "the restored tree's prior is %s; expected %s" % (show(bad.args[1]) if bad else "", show(sp.result)), construct=fd.qualname, stmt="_log_prior")
    gs = vkey(Poly.atom(("sub", Pk(1), ("const", "'grid_size'"))))
    by_node = {}
    for e in ex.calls("new:TreeNode"):
        by_node.setdefault(id(e.node), []).append(e)
    if len(by_node) < 2:
        unrec("%s builds TreeNodes at %d site(s)" % (fd.qualname, len(by_node)))
    for i, evs in enumerate(by_node.values()):
        ok, why = True, ""
        for e in evs:
            if len(e.args) != 3:
                unrec("%s: TreeNode(%d args)" % (fd.qualname, len(e.args)))
            if vkey(e.args[0]) != gs:
                ok, why = False, "a restored node is built with shape %s, not tree_dict['grid_size']" % show(e.args[0])
                break
            if not _equal_under(e.full_guards, e.args[1], sp.result):
                ok, why = False, "a restored node is filled with %s, not with the tree's prior" % show(e.args[1])
                break
        ctx.check(ok, "N7", fd.qualname + ": TreeNode site %d gets (grid_size, log_prior)" % i, fd.where(evs[0].node), why, construct=fd.qualname, stmt="TreeNode site %d" % i)
    ctx.analysed(fd)
    # TreeNode.__init__
    tn = prog.fn("TreeNode.__init__")
    ex = extract(prog, tn)
    lp = ex.store("log_p")
    a = A(lp)
    ok, why = True, ""
    if a is not None and a[0] == "call" and a[1] == "np.full" and len(a[2]) == 2 and not (set(kwargs_of(a)) - {"order", "dtype"}):
        if a[2][0] != Pk(1):
            ok, why = False, "log_p is created with shape %s, not the full (samples, grid) shape" % show_key(a[2][0])
        elif a[2][1] != Pk(2):
            ok, why = False, "log_p is filled with %s, not with the prior weight" % show_key(a[2][1])
    elif not mentions(vkey(lp), lambda t: t == ("v", "P2")):
        ok, why = False, "a fresh node's log_p is %s: the grid prior weight is not in it" % show(lp)
    else:
        unrec("%s: log_p = %s" % (tn.qualname, show(lp)))
    ctx.check(ok, "N7", tn.qualname + ": a fresh payload has log_p = prior on the full (samples, grid) shape", tn.where(), why, construct=tn.qualname, stmt="log_p")
    ctx.analysed(tn)
    # DataPoint.__init__: the prior constant used for the outlier marginal counts grid points too
    dp = prog.fn("data.base.DataPoint.__init__")
    ex = extract(prog, dp, no_inline=["_sub_compute_S"])
    if "value" not in dp.params:
        unrec("%s has no value parameter" % dp.qualname)
    val = Pk(dp.params.index("value"))
    seen = {}
    for e in ex.calls("log"):
        seen.setdefault(id(e.node), e)
    if not seen:
        unrec("%s: no np.log of a grid count" % dp.qualname)
    for e in seen.values():
        sr = shape_read(vkey(e.args[0])) if len(e.args) == 1 else None
        if sr is None or sr[0] != val:
            unrec("%s: np.log(%s)" % (dp.qualname, ", ".join(show(a) for a in e.args)))
        ctx.check(sr[1] in (1, -1), "N7", dp.qualname + ": prior constant counts grid points (value.shape[1])", dp.where(e.node), "the prior constant is log of axis %d of the value grid (the number of samples), not of the number of grid points" % sr[1], construct=dp.qualname, stmt="log(value.shape[...])")
    ctx.analysed(dp)
    # closure: no other product function builds a TreeNode or computes a tree's prior
    analysed = {an.qualname, fd.qualname}
    # helpers newer than the rules that the analysed functions call were looked into with them (TermFlow inlines them)
    todo = [an, fd]
    while todo:
        g = todo.pop()
        for c in calls(g.node):
            nm = last_name(c)
            for h in prog.functions.values():
                if h.name == nm and prog.is_new_function(h) and h.qualname not in analysed and (h.cls is None or h.cls is g.cls or g.cls is None):
                    analysed.add(h.qualname)
                    todo.append(h)
    for fi in prog.functions.values():
        for c in calls(fi.node):
            if isinstance(c.func, ast.Name) and c.func.id == "TreeNode" and prog.resolve_class("TreeNode", fi.module) is tn.cls and fi.qualname not in analysed:
                unrec("TreeNode constructed in %s, which N7 does not analyse" % fi.qualname)
        for st in ast.walk(fi.node):
            if isinstance(st, ast.Assign) and fi.qualname not in (f.qualname, fd.qualname):
                for t in st.targets:
                    if isinstance(t, ast.Attribute) and t.attr == "_log_prior" and not (isinstance(st.value, ast.Attribute) and st.value.attr == "_log_prior"):
                        unrec("%s assigns _log_prior = %s, which N7 does not analyse" % (fi.qualname, u(st.value)))
    # no data point is ever added to the virtual root
    n = 0
    for fi in prog.functions.values():
        local_defs = {}
        for s in ast.walk(fi.node):
            if isinstance(s, ast.Assign) and len(s.targets) == 1 and isinstance(s.targets[0], ast.Name):
                local_defs.setdefault(s.targets[0].id, []).append(s.value)
        for c in calls(fi.node):
            nm = last_name(c)
            if nm not in ADDERS or not isinstance(c.func, ast.Attribute):
                continue
            pos = ADDERS[nm]
            node = c.args[pos] if pos < len(c.args) else next((k.value for k in c.keywords if k.arg == "node"), None)
            if node is None:
                unrec("%s: %s without a node argument" % (fi.qualname, u(c)))
            exprs = [node]
            if isinstance(node, ast.Name):
                exprs += local_defs.get(node.id, [])
            is_root = any(_names_root(x) for x in exprs)
            n += 1
            ctx.check(not is_root, "N7", "%s: %s does not target the virtual root" % (fi.qualname, u(c)[:70]), fi.where(c), "a data point is added to the virtual root: the root must contribute its prior only", construct=fi.qualname, stmt=u(c))
    if n < 8:
        unrec("only %d data-adding call sites found" % n)


def _equal_under(guards, got, want):
    """`got` equals `want` whenever all `guards` hold (guards are opaque syntax, as everywhere)."""
    g = g_and(guards)
    under = make_cond([(g, got), (TRUE, want)]) if g != TRUE else got
    eq, how, wit = equivalent(under, want)
    return eq


def _names_root(x):
    for n in ast.walk(x):
        if isinstance(n, ast.Attribute) and n.attr in ("root_node_name", "_ROOT_NODE_NAME"):
            return True
        if isinstance(n, ast.Constant) and n.value == "root":
            return True
    return False


def run(ctx):
    ctx.assume("numpy/scipy semantics (np.convolve, scipy.signal.fftconvolve, ufunc.accumulate, np.max keepdims, np.copyto/np.add out=) are the documented ones")
    ctx.assume("rustworkx.dfs_search calls finish_vertex in post-order; all_simple_paths(g, a, b) lists paths a -> b")
    ctx.assume("equality of the recursion with the brute-force grid sum, and accuracy near the 1e-100 / FFT floors, are NOT decided here")
    from ._treespec import rule_TS

    # first the recursion, the node update, the refresh walks and the queries they rest on against the frozen
    # reference semantics: a semantic change is reported even where a shape rule below would give up
    ctx.soft(rule_TS, owners=["tree_node.TreeNode", "tree.Tree", "tree.utils", "utils.math"])
    ctx.soft(rule_N1)
    ctx.soft(rule_N2)
    ctx.soft(rule_N3)
    ctx.soft(rule_N4)
    ctx.soft(rule_N5)
    ctx.soft(rule_N6)
    ctx.soft(rule_N7)
    # the recursion is evaluated through two memoised entry points: the reported likelihood is the exact
    # marginal only if a cache hit returns what the recursion would compute (same rule objects as C14)
    from . import C14

    from ..formula import imported

    ctx._own_rules = set(ctx.rule_min)
    imported(ctx, C14.rule_K2)
    imported(ctx, C14.rule_K3)
    imported(ctx, C14.rule_K4)
    imported(ctx, C14.rule_K6)
    # a node's vectors are the tree's own: grafted / copied / restored trees share no payload with their source
    from . import _premises

    _premises.deep_copies(ctx)
    # the root vector is the marginal only if every edit refreshes the path it invalidates from low enough (C06.M1 / M2)
    _premises.refresh(ctx)


# Self-test catalogue: one textual edit each, applied to a scratch copy (see selftest.py).
_U = "phyclone/tree/utils.py"
_M = "phyclone/utils/math.py"
_N = "phyclone/tree/tree_node.py"
_T = "phyclone/tree/tree.py"
_V = "phyclone/tree/visitors.py"
_D = "phyclone/data/base.py"
_FFT_TAIL = "    result += child_2_maxes\n\n    result += child_1_maxes\n\n    return result"
SELFTEST = [
    # ---- N4 (b) de-normalisation
    {"name": "N4b-direct-drop-child2-max", "kind": "break", "rule": "N4", "file": _U, "old": "    log_D += child_2_maxes\n\n", "new": ""},
    {"name": "N4b-fft-same-max-twice", "kind": "break", "rule": "N4", "file": _M, "old": _FFT_TAIL, "new": "    result += child_2_maxes\n\n    result += child_2_maxes\n\n    return result"},
    # ---- N4 (c) truncation
    {"name": "N4c-direct-grid-minus-one", "kind": "break", "rule": "N4", "file": _U, "old": "child_1_norm[i, :])[:grid_size]", "new": "child_1_norm[i, :])[:grid_size - 1]"},
    {"name": "N4c-fft-cut-to-sample-count", "kind": "break", "rule": "N4", "file": _M, "old": "result = result[..., : child_1_norm.shape[-1]]", "new": "result = result[..., : child_1_norm.shape[0]]"},
    {"name": "N4c-fft-window-shifted", "kind": "break", "rule": "N4", "file": _M, "old": "result = result[..., : child_1_norm.shape[-1]]", "new": "result = result[..., 1 : child_1_norm.shape[-1] + 1]"},
    # ---- N4 (d) floor before log
    {"name": "N4d-fft-floor-deleted", "kind": "break", "rule": "N4", "file": _M, "old": "    result = result[..., : child_1_norm.shape[-1]]\n\n    result[result <= 0] = 1e-100\n", "new": "    result = result[..., : child_1_norm.shape[-1]]\n"},
    {"name": "N4d-direct-strict-mask-keeps-zeros", "kind": "break", "rule": "N4", "file": _U, "old": "log_D[log_D <= 0] = 1e-100", "new": "log_D[log_D < 0] = 1e-100"},
    {"name": "N4d-direct-floor-after-log", "kind": "break", "rule": "N4", "file": _U, "old": "    log_D[log_D <= 0] = 1e-100\n\n    log_D = np.log(log_D, order=\"C\", dtype=np.float64, out=log_D)\n", "new": "    log_D = np.log(log_D, order=\"C\", dtype=np.float64, out=log_D)\n\n    log_D[log_D <= 0] = 1e-100\n"},
    {"name": "N4d-fft-floor-is-zero", "kind": "break", "rule": "N4", "file": _M, "old": "    result = result[..., : child_1_norm.shape[-1]]\n\n    result[result <= 0] = 1e-100\n", "new": "    result = result[..., : child_1_norm.shape[-1]]\n\n    result[result <= 0] = 0.0\n"},
    {"name": "N4d-fft-mask-on-other-array", "kind": "break", "rule": "N4", "file": _M, "old": "    result = result[..., : child_1_norm.shape[-1]]\n\n    result[result <= 0] = 1e-100\n", "new": "    result = result[..., : child_1_norm.shape[-1]]\n\n    child_1_norm[child_1_norm <= 0] = 1e-100\n"},
    # ---- N4 (a) normalisation
    {"name": "N4a-direct-wrong-childs-max", "kind": "break", "rule": "N4", "file": _U, "old": "child_1_norm = np.exp(child_1 - child_1_maxes)\n\n    child_2_norm = np.exp(child_2 - child_2_maxes)\n\n    grid_size", "new": "child_1_norm = np.exp(child_1 - child_2_maxes)\n\n    child_2_norm = np.exp(child_2 - child_2_maxes)\n\n    grid_size"},
    {"name": "N4a-fft-global-max", "kind": "break", "rule": "N4", "file": _M, "old": "    child_2_maxes = np.max(child_2, axis=-1, keepdims=True)\n\n    child_1_norm = np.exp(child_1 - child_1_maxes)\n\n    child_2_norm = np.exp(child_2 - child_2_maxes)\n\n    result = fftconvolve", "new": "    child_2_maxes = np.max(child_2)\n\n    child_1_norm = np.exp(child_1 - child_1_maxes)\n\n    child_2_norm = np.exp(child_2 - child_2_maxes)\n\n    result = fftconvolve"},
    {"name": "N4a-direct-child-used-twice", "kind": "break", "rule": "N4", "file": _U, "old": "np.convolve(child_2_norm[i, :], child_1_norm[i, :])", "new": "np.convolve(child_1_norm[i, :], child_1_norm[i, :])"},
    # ---- N4 (e) per-row convolution
    {"name": "N4e-direct-fixed-row", "kind": "break", "rule": "N4", "file": _U, "old": "np.convolve(child_2_norm[i, :], child_1_norm[i, :])", "new": "np.convolve(child_2_norm[i, :], child_1_norm[0, :])"},
    {"name": "N4e-direct-last-row-skipped", "kind": "break", "rule": "N4", "file": _U, "old": "[:grid_size] for i in range(num_dims)]", "new": "[:grid_size] for i in range(num_dims - 1)]"},
    {"name": "N4e-fft-sample-axis", "kind": "break", "rule": "N4", "file": _M, "old": "fftconvolve(child_1_norm, child_2_norm, axes=[-1])", "new": "fftconvolve(child_1_norm, child_2_norm, axes=[0])"},
    {"name": "N4e-fft-all-axes", "kind": "break", "rule": "N4", "file": _M, "old": "fftconvolve(child_1_norm, child_2_norm, axes=[-1])", "new": "fftconvolve(child_1_norm, child_2_norm)"},
    # ---- N4 dispatch
    {"name": "N4-dispatch-reads-sample-count", "kind": "break", "rule": "N4", "file": _U, "old": "    grid_size = child_1.shape[-1]\n    if grid_size < 1000:", "new": "    grid_size = child_1.shape[0]\n    if grid_size < 1000:"},
    {"name": "N4-dispatch-arms-swapped", "kind": "break", "rule": "N4", "file": _U, "old": "    if grid_size < 1000:\n        res_arr = _np_conv_dims(child_1, child_2)\n    else:\n        res_arr = fft_convolve_two_children(child_1, child_2)", "new": "    if grid_size < 1000:\n        res_arr = fft_convolve_two_children(child_1, child_2)\n    else:\n        res_arr = _np_conv_dims(child_1, child_2)"},
    {"name": "N4-dispatch-same-child-twice", "kind": "break", "rule": "N4", "file": _U, "old": "res_arr = _np_conv_dims(child_1, child_2)", "new": "res_arr = _np_conv_dims(child_1, child_1)"},
    # ---- N3 fold
    {"name": "N3-loop-starts-at-3", "kind": "break", "rule": "N3", "file": _U, "old": "for j in range(2, num_children):", "new": "for j in range(3, num_children):"},
    {"name": "N3-loop-stops-early", "kind": "break", "rule": "N3", "file": _U, "old": "for j in range(2, num_children):", "new": "for j in range(2, num_children - 1):"},
    {"name": "N3-index-off-by-one", "kind": "break", "rule": "N3", "file": _U, "old": "_convolve_two_children(child_log_R_values[j], conv_res)", "new": "_convolve_two_children(child_log_R_values[j - 1], conv_res)"},
    {"name": "N3-accumulator-dropped", "kind": "break", "rule": "N3", "file": _U, "old": "_convolve_two_children(child_log_R_values[j], conv_res)", "new": "_convolve_two_children(child_log_R_values[j], child_log_R_values[0])"},
    {"name": "N3-running-sum-skipped", "kind": "break", "rule": "N3", "file": _U, "old": "    log_S = _sub_compute_S(log_D)\n\n    return np.ascontiguousarray(log_S)", "new": "    log_S = log_D\n\n    return np.ascontiguousarray(log_S)"},
    # ---- N2 running sum
    {"name": "N2-maximum-accumulate", "kind": "break", "rule": "N2", "file": _U, "old": "np.logaddexp.accumulate(log_D[i, :], out=log_S[i, :])", "new": "np.maximum.accumulate(log_D[i, :], out=log_S[i, :])"},
    {"name": "N2-column-instead-of-row", "kind": "break", "rule": "N2", "file": _U, "old": "np.logaddexp.accumulate(log_D[i, :], out=log_S[i, :])", "new": "np.logaddexp.accumulate(log_D[:, i], out=log_S[:, i])"},
    {"name": "N2-row-mismatch", "kind": "break", "rule": "N2", "file": _U, "old": "np.logaddexp.accumulate(log_D[i, :], out=log_S[i, :])", "new": "np.logaddexp.accumulate(log_D[i, :], out=log_S[i - 1, :])"},
    {"name": "N2-first-row-skipped", "kind": "break", "rule": "N2", "file": _U, "old": "    for i in range(num_dims):\n        np.logaddexp", "new": "    for i in range(1, num_dims):\n        np.logaddexp"},
    {"name": "N2-rows-bounded-by-grid", "kind": "break", "rule": "N2", "file": _U, "old": "    log_S = np.empty_like(log_D)\n    num_dims = log_D.shape[0]", "new": "    log_S = np.empty_like(log_D)\n    num_dims = log_D.shape[1]"},
    # ---- N1 node combine
    {"name": "N1-leaf-alias", "kind": "break", "rule": "N1", "file": _N, "old": "            np.copyto(log_r, log_p)\n            return", "new": "            self.log_r = log_p\n            return"},
    {"name": "N1-own-data-dropped", "kind": "break", "rule": "N1", "file": _N, "old": "np.add(log_p, log_s, out=log_r, order=\"C\")", "new": "np.copyto(log_r, log_s)"},
    {"name": "N1-written-into-log_p", "kind": "break", "rule": "N1", "file": _N, "old": "np.add(log_p, log_s, out=log_r, order=\"C\")", "new": "np.add(log_p, log_s, out=log_p, order=\"C\")"},
    {"name": "N1-leaf-not-reset", "kind": "break", "rule": "N1", "file": _N, "old": "            np.copyto(log_r, log_p)\n            return", "new": "            return"},
    # ---- N5 bottom-up order
    {"name": "N5-discover-vertex", "kind": "break", "rule": "N5", "file": _V, "old": "    def finish_vertex(self, v, t):\n        self.node_update_fxn(v)", "new": "    def discover_vertex(self, v, t):\n        self.node_update_fxn(v)"},
    {"name": "N5-path-top-down", "kind": "break", "rule": "N5", "file": _T, "old": "for source in reversed(path):", "new": "for source in path:"},
    {"name": "N5-path-skips-root", "kind": "break", "rule": "N5", "file": _T, "old": "for source in reversed(path):", "new": "for source in reversed(path[1:]):"},
    {"name": "N5-path-skips-source", "kind": "break", "rule": "N5", "file": _T, "old": "for source in reversed(path):", "new": "for source in reversed(path[:-1]):"},
    {"name": "N5-dfs-from-first-node", "kind": "break", "rule": "N5", "file": _T, "old": "        rx.dfs_search(self._graph, [root_idx], vis)\n\n    def _add_node", "new": "        rx.dfs_search(self._graph, [root_idx + 1], vis)\n\n    def _add_node"},
    # ---- N6 children gathered
    {"name": "N6-children-log_p", "kind": "break", "rule": "N6", "file": _T, "old": "child_log_r_values = [child.log_r for child in self._graph.successors(node_idx)]", "new": "child_log_r_values = [child.log_p for child in self._graph.successors(node_idx)]"},
    {"name": "N6-children-filtered", "kind": "break", "rule": "N6", "file": _T, "old": "child_log_r_values = [child.log_r for child in self._graph.successors(node_idx)]", "new": "child_log_r_values = [child.log_r for child in self._graph.successors(node_idx) if child.data_points]"},
    {"name": "N6-first-child-dropped", "kind": "break", "rule": "N6", "file": _T, "old": "child_log_r_values = [child.log_r for child in self._graph.successors(node_idx)]", "new": "child_log_r_values = [child.log_r for child in self._graph.successors(node_idx)[1:]]"},
    {"name": "N6-reports-root-log_p", "kind": "break", "rule": "N6", "file": _T, "old": "        return self._graph[root_idx].log_r\n", "new": "        return self._graph[root_idx].log_p\n"},
    # ---- N7 grid prior
    {"name": "N7-prior-counts-samples", "kind": "break", "rule": "N7", "file": _T, "old": "        self._log_prior = -np.log(grid_size[1])", "new": "        self._log_prior = -np.log(grid_size[0])"},
    {"name": "N7-from_dict-prior-counts-samples", "kind": "break", "rule": "N7", "file": _T, "old": "            log_prior = -np.log(grid_size[1])\n        new_graph", "new": "            log_prior = -np.log(grid_size[0])\n        new_graph"},
    {"name": "N7-node-without-prior", "kind": "break", "rule": "N7", "file": _N, "old": "self.log_p = np.full(grid_size, log_prior, order=\"C\")", "new": "self.log_p = np.zeros(grid_size, order=\"C\")"},
    {"name": "N7-new-node-prior-zero", "kind": "break", "rule": "N7", "file": _T, "old": "node_obj = TreeNode(self.grid_size, self._log_prior, node)", "new": "node_obj = TreeNode(self.grid_size, 0.0, node)"},
    {"name": "N7-datapoint-prior-counts-samples", "kind": "break", "rule": "N7", "file": _D, "old": "log_prior = -np.log(value.shape[1])", "new": "log_prior = -np.log(value.shape[0])"},
    {"name": "N7-data-added-to-root", "kind": "break", "rule": "N7", "file": _T, "old": "        self.add_data_point_to_node(data_point, self._OUTLIER_NODE_NAME)", "new": "        self.add_data_point_to_node(data_point, self._ROOT_NODE_NAME)"},
    # ---- benign variants
    {"name": "benign-rename-child_1_norm", "kind": "benign", "edits": [
        {"file": _U, "old": "    child_1_norm = np.exp(child_1 - child_1_maxes)\n\n    child_2_norm = np.exp(child_2 - child_2_maxes)\n\n    grid_size = child_1.shape[-1]\n\n    arr_list = [np.convolve(child_2_norm[i, :], child_1_norm[i, :])", "new": "    lin_a = np.exp(child_1 - child_1_maxes)\n\n    child_2_norm = np.exp(child_2 - child_2_maxes)\n\n    grid_size = child_1.shape[-1]\n\n    arr_list = [np.convolve(child_2_norm[i, :], lin_a[i, :])"}]},
    {"name": "benign-both-maxes-in-one-helper", "kind": "benign", "file": _M, "old": "def fft_convolve_two_children(child_1, child_2):\n    \"\"\"FFT convolution\"\"\"\n    child_1_maxes = np.max(child_1, axis=-1, keepdims=True)\n\n    child_2_maxes = np.max(child_2, axis=-1, keepdims=True)\n", "new": "def _row_maxes(a, b):\n    return np.max(a, axis=-1, keepdims=True), np.max(b, axis=-1, keepdims=True)\n\n\ndef fft_convolve_two_children(child_1, child_2):\n    \"\"\"FFT convolution\"\"\"\n    child_1_maxes, child_2_maxes = _row_maxes(child_1, child_2)\n"},
    {"name": "benign-copyto-as-slice-assignment", "kind": "benign", "file": _N, "old": "            np.copyto(log_r, log_p)\n            return", "new": "            log_r[:] = log_p\n            return"},
    {"name": "benign-add-as-slice-assignment", "kind": "benign", "file": _N, "old": "np.add(log_p, log_s, out=log_r, order=\"C\")", "new": "self.log_r[...] = log_s + log_p"},
    {"name": "benign-fft-denormalise-in-one-statement", "kind": "benign", "file": _M, "old": "    result = np.log(result, order=\"C\", dtype=np.float64)\n\n" + _FFT_TAIL, "new": "    out = child_1_maxes + np.log(result, order=\"C\", dtype=np.float64) + child_2_maxes\n\n    return out"},
    {"name": "benign-floor-before-truncation", "kind": "benign", "file": _M, "old": "    result = result[..., : child_1_norm.shape[-1]]\n\n    result[result <= 0] = 1e-100\n", "new": "    result[result <= 0] = 1e-100\n\n    result = result[..., : child_2.shape[1]]\n"},
    {"name": "benign-floor-by-np-maximum", "kind": "benign", "file": _M, "old": "    result[result <= 0] = 1e-100\n\n    result = np.log(result, order=\"C\", dtype=np.float64)", "new": "    result = np.log(np.maximum(result, 1e-100), order=\"C\", dtype=np.float64)"},
    {"name": "benign-dispatch-test-inverted", "kind": "benign", "file": _U, "old": "    if grid_size < 1000:\n        res_arr = _np_conv_dims(child_1, child_2)\n    else:\n        res_arr = fft_convolve_two_children(child_1, child_2)", "new": "    if grid_size >= 1000:\n        res_arr = fft_convolve_two_children(child_2, child_1)\n    else:\n        res_arr = _np_conv_dims(child_1, child_2)"},
    {"name": "benign-fold-from-first-child", "kind": "benign", "file": _U, "old": "    conv_res = _convolve_two_children(child_log_R_values[0], child_log_R_values[1])\n    for j in range(2, num_children):", "new": "    conv_res = child_log_R_values[0]\n    for j in range(1, num_children):"},
    {"name": "benign-running-sum-row-index-short", "kind": "benign", "file": _U, "old": "np.logaddexp.accumulate(log_D[i, :], out=log_S[i, :])", "new": "np.logaddexp.accumulate(log_D[i], out=log_S[i])\n        print(i)"},
    {"name": "benign-visitor-inline-and-attr-renamed", "kind": "benign", "edits": [
        {"file": _T, "old": "        vis = PostOrderNodeUpdater(self._update_node)\n        root_idx = self._node_indices[self._ROOT_NODE_NAME]\n        rx.dfs_search(self._graph, [root_idx], vis)", "new": "        start = self._node_indices[self.root_node_name]\n        rx.dfs_search(self._graph, [start], PostOrderNodeUpdater(self._update_node))"},
        {"file": _V, "old": "    __slots__ = \"node_update_fxn\"\n\n    def __init__(self, node_update_fxn):\n        self.node_update_fxn = node_update_fxn\n\n    def finish_vertex(self, v, t):\n        self.node_update_fxn(v)", "new": "    __slots__ = \"fxn\"\n\n    def __init__(self, fxn):\n        self.fxn = fxn\n\n    def finish_vertex(self, vertex, t):\n        self.fxn(vertex)"}]},
    {"name": "benign-path-reversed-by-slice", "kind": "benign", "file": _T, "old": "        for source in reversed(path):\n            self._update_node(source)", "new": "        for idx in path[::-1]:\n            self._update_node(idx)"},
    {"name": "benign-children-gathered-by-loop", "kind": "benign", "file": _T, "old": "        child_log_r_values = [child.log_r for child in self._graph.successors(node_idx)]\n", "new": "        kids = self._graph.successors(node_idx)\n        child_log_r_values = [k.log_r for k in kids]\n"},
    {"name": "benign-prior-as-log-of-reciprocal", "kind": "benign", "file": _T, "old": "        self._log_prior = -np.log(grid_size[1])", "new": "        num_grid = grid_size[1]\n        self._log_prior = np.log(1 / num_grid)"},
    {"name": "N4-floor-one", "kind": "break", "rule": "N4", "file": "phyclone/tree/utils.py", "old": "    log_D[log_D <= 0] = 1e-100", "new": "    log_D[log_D <= 0] = 1.0"},
    {"name": "N1-one-child-treated-as-leaf", "kind": "break", "rule": ["N1", "TS"], "file": "phyclone/tree/tree_node.py", "old": "        if len(child_log_r_values) == 0:\n            np.copyto(log_r, log_p)", "new": "        if len(child_log_r_values) <= 1:\n            np.copyto(log_r, log_p)"},
    {"name": "N3-two-children-take-first", "kind": "break", "rule": "N3", "file": "phyclone/tree/utils.py", "old": "    if num_children == 1:\n        return child_log_R_values[0]", "new": "    if num_children <= 2:\n        return child_log_R_values[0]"},
    {"name": "TS-path-refresh-skips-nodes", "kind": "break", "rule": ["TS", "N5"], "file": "phyclone/tree/tree.py", "old": "        for source in reversed(path):\n            self._update_node(source)", "new": "        for source in reversed(path[1:]):\n            self._update_node(source)"},
]
