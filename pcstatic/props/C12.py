"""C12 — result tables list every mutation once per sample, consistent with the tree (structural premises).

Decided here: the rustworkx -> networkx conversion gives the networkx graph every source node (not only
edge end points) before any per-node lookup and copies each node's payload, whose keys cover what the MAP
code reads; the labels table emits one record per labelled data point (per mutation of the cluster when
pre-clustered) and a fill-in record with the outlier name for everything not seen, the `seen` set being
exactly what was emitted; the sample column is the full sample list on every row, then exploded; ccf /
clonal prevalence are read at the sample's position from the clone's vectors, -1 for clones without one;
the Newick writer (post-order hook, one append per non-root vertex to its parent's list, `(a,b)name`,
root terminated by `;`, names from the tree's index->name map); table and Newick text are produced from
the same tree object and written to the paths the caller named.
NOT decided: pandas groupby / explode semantics, CCF ranges (C10).
"""
import ast
import string

from ..astutil import ancestors, call_name, calls, enclosing_stmt, kwarg, parents, u
from ..formula import atoms_of, contains_key, extract, same, spec
from ..model import AnalysisError
from ..paths import enumerate_paths
from ..termflow import ADict, AList, Poly, Unsupported, equivalent, key_atom, poly_from_key, show, show_key, vkey

PT = "process_trace.process_trace."
NI = [
    "get_clone_table", "get_labels_table", "create_topology_dict_from_trace", "create_topology_dataframe",
    "count_topology", "from_dict", "to_newick_string", "create_topologies_archive", "get_consensus_tree",
    "get_tree_from_consensus_graph", "exp_normalize", "print_string_to_file",
    "get_map_node_ccfs_and_clonal_prev_dicts",
]
TRUE = ("const", "True")


# ----------------------------------------------------------------------------- term helpers
def _eq(a, b):
    try:
        return equivalent(a, b)[0]
    except Unsupported as e:
        raise AnalysisError("terms cannot be compared: %s" % e)


def _is_polykey(k):
    return isinstance(k, tuple) and len(k) >= 1 and k[0] == "poly"


def _atom(k):
    a = key_atom(k) if isinstance(k, tuple) and k else None
    while a is not None and a[0] == "val":
        a = key_atom(a[1])
    return a


def _base_key(k):
    """Key of the object itself, looking through the engine's `upd` (effect-only call) wrappers."""
    a = _atom(k)
    while a is not None and a[0] == "upd":
        k = a[2]
        a = _atom(k)
    return k


def _same_base(k1, k2):
    """Do two keys denote the same object (looking through effect wrappers)?  Structural equality first, then
    equality of the terms under random interpretation (differently written, equal expressions)."""
    a, b = _base_key(k1), _base_key(k2)
    if a == b:
        return True
    try:
        from ..termflow import Poly, poly_from_key

        def val(k):
            return poly_from_key(k) if _is_polykey(k) else Poly.atom(k)

        return equivalent(val(a), val(b))[0]
    except (Unsupported, AnalysisError, TypeError, ValueError):
        return False


def _str_of_key(k):
    a = _atom(k)
    if a is not None and a[0] == "const" and isinstance(a[1], str) and a[1][:1] in ("'", '"'):
        try:
            return ast.literal_eval(a[1])
        except (ValueError, SyntaxError):
            return None
    return None


def _str_of(v):
    if isinstance(v, str):
        return v
    if v is None or isinstance(v, bool):
        return None
    return _str_of_key(vkey(v))


def _value_of_key(k):
    if _is_polykey(k):
        return poly_from_key(k)
    return Poly.atom(("val", k))


def _param_key(fi, name):
    if name not in fi.params:
        raise AnalysisError("%s has no parameter %r" % (fi.qualname, name))
    return Poly.atom(("v", "P%d" % fi.params.index(name))).key()


def _bind(ev, callee):
    params = callee.params
    out = {}
    for i, a in enumerate(ev.args):
        if i >= len(params):
            raise AnalysisError("call of %s passes more positional arguments than it has parameters" % callee.qualname)
        out[params[i]] = a
    for k, v in ev.kwargs.items():
        if k not in params:
            raise AnalysisError("call of %s passes unknown keyword %s" % (callee.qualname, k))
        out[k] = v
    return out


def _events(ex, suffix):
    return [e for e in ex.events if e.name == suffix or e.name.endswith("." + suffix)]


def _lower_min(ctx, rule):
    """A violation is already recorded and the remaining instances of the rule cannot be evaluated."""
    ctx.rule_min[rule] = min(ctx.rule_min.get(rule, 0), ctx.instance_counts().get(rule, 0))


# ----------------------------------------------------------------------------- AST helpers
class _View:
    """Reaching definitions of single-assignment locals inside one function, for expanding an
    expression into the expression it denotes (renames and statement splits become invisible)."""

    def __init__(self, fnode):
        self.f = fnode
        self.pmap = parents(fnode)
        self.assigns = {}
        self.other = set()
        self.keep = set()  # names that denote an object (identity matters): never expanded
        plain = set()
        for n in ast.walk(fnode):
            if isinstance(n, ast.Assign) and len(n.targets) == 1 and isinstance(n.targets[0], ast.Name):
                self.assigns.setdefault(n.targets[0].id, []).append(n)
                plain.add(id(n.targets[0]))
        for n in ast.walk(fnode):
            if isinstance(n, ast.Name) and isinstance(n.ctx, (ast.Store, ast.Del)) and id(n) not in plain:
                self.other.add(n.id)

    def _stmt(self, node):
        return node if isinstance(node, ast.stmt) else enclosing_stmt(node, self.pmap)

    def reaching(self, name, at):
        """The Assign that reaches the use `at` on every path (same or enclosing block, nearest before),
        or None when the name is bound otherwise / ambiguously."""
        if name in self.other or name in self.keep or name not in self.assigns:
            return None
        use = self._stmt(at)
        chain = [use] + list(ancestors(use, self.pmap))
        pos = (use.lineno, use.col_offset)
        best = None
        for a in self.assigns[name]:
            if (a.lineno, a.col_offset) >= pos:
                continue
            par = self.pmap.get(id(a))
            via = [c for c in chain if self.pmap.get(id(c)) is par]
            if not via:
                continue
            same_list = False
            for fld in ("body", "orelse", "finalbody"):
                lst = getattr(par, fld, None)
                if isinstance(lst, list) and any(x is a for x in lst) and any(x is via[0] for x in lst):
                    same_list = True
            if same_list and (best is None or (a.lineno, a.col_offset) > (best.lineno, best.col_offset)):
                best = a
        if best is None:
            return None
        for a in self.assigns[name]:
            if a is not best and (best.lineno, best.col_offset) < (a.lineno, a.col_offset) < pos:
                return None  # a later (conditional) rebinding may reach the use
        return best

    def alternatives(self, name, at):
        """Values a name may hold at `at`: the reaching definition, else every earlier assignment."""
        r = self.reaching(name, at)
        if r is not None:
            return [r]
        use = self._stmt(at)
        return [a for a in self.assigns.get(name, []) if (a.lineno, a.col_offset) < (use.lineno, use.col_offset)] if name not in self.other else []

    def expand(self, expr, at=None, depth=0):
        at = at if at is not None else expr
        view = self

        class T(ast.NodeTransformer):
            def visit_Name(self, n):
                if isinstance(n.ctx, ast.Load) and depth < 10:
                    r = view.reaching(n.id, at)
                    if r is not None:
                        return view.expand(r.value, r, depth + 1)
                return n

        import copy

        return T().visit(copy.deepcopy(expr))

    def text(self, expr, at=None):
        return u(self.expand(expr, at))


def _merge(pieces):
    out = []
    for p in pieces:
        if p[0] == "lit" and out and out[-1][0] == "lit":
            out[-1] = ("lit", out[-1][1] + p[1])
        elif p[0] == "lit" and p[1] == "":
            continue
        else:
            out.append(p)
    return out


def _pieces(view, e, at, depth=0):
    """A string-valued expression as a sequence of ('lit', text) / ('expr', node) pieces: str.format,
    f-strings, `+`, `%s` and str() are all read as concatenation."""
    if depth > 10:
        return [("expr", e)]
    if isinstance(e, ast.Constant) and isinstance(e.value, str):
        return [("lit", e.value)]
    if isinstance(e, ast.JoinedStr):
        out = []
        for v in e.values:
            if isinstance(v, ast.Constant):
                out.append(("lit", str(v.value)))
            elif isinstance(v, ast.FormattedValue) and v.format_spec is None and v.conversion in (-1, 115):
                out += _pieces(view, v.value, at, depth + 1)
            else:
                raise AnalysisError("f-string with a format spec / conversion in a Newick text: %s" % u(e))
        return _merge(out)
    if isinstance(e, ast.BinOp) and isinstance(e.op, ast.Add):
        return _merge(_pieces(view, e.left, at, depth + 1) + _pieces(view, e.right, at, depth + 1))
    if isinstance(e, ast.BinOp) and isinstance(e.op, ast.Mod) and isinstance(e.left, ast.Constant) and isinstance(e.left.value, str):
        args = list(e.right.elts) if isinstance(e.right, ast.Tuple) else [e.right]
        parts = e.left.value.split("%s")
        if len(parts) != len(args) + 1 or "%" in "".join(parts):
            raise AnalysisError("%%-format other than %%s in a Newick text: %s" % u(e))
        out = [("lit", parts[0])]
        for a, p in zip(args, parts[1:]):
            out += _pieces(view, a, at, depth + 1) + [("lit", p)]
        return _merge(out)
    if isinstance(e, ast.Call) and isinstance(e.func, ast.Name) and e.func.id == "str" and len(e.args) == 1 and not e.keywords:
        return _pieces(view, e.args[0], at, depth + 1)
    if isinstance(e, ast.Call) and isinstance(e.func, ast.Attribute) and e.func.attr == "format":
        tv = view.expand(e.func.value, at)
        if isinstance(tv, ast.Constant) and isinstance(tv.value, str):
            out, auto = [], 0
            kws = {k.arg: k.value for k in e.keywords if k.arg}
            for lit, field, fspec, conv in string.Formatter().parse(tv.value):
                out.append(("lit", lit))
                if field is None:
                    continue
                if fspec or conv not in (None, "s"):
                    raise AnalysisError("format spec / conversion in a Newick text: %s" % u(e))
                if field == "":
                    field, auto = str(auto), auto + 1
                if field.isdigit() and int(field) < len(e.args):
                    out += _pieces(view, e.args[int(field)], at, depth + 1)
                elif field in kws:
                    out += _pieces(view, kws[field], at, depth + 1)
                else:
                    raise AnalysisError("format field %r has no argument in %s" % (field, u(e)))
            return _merge(out)
    if isinstance(e, ast.Name):
        r = view.reaching(e.id, at)
        if r is not None:
            return _pieces(view, r.value, r, depth + 1)
        return [("expr", e)]
    return [("expr", e)]


def _ptext(view, pieces, at):
    return [p[1] if p[0] == "lit" else "{" + view.text(p[1], at) + "}" for p in pieces]


# ----------------------------------------------------------------------------- N1
def _covers_all_nodes(view, arg, src, at):
    """True / False / raises: does the iterable `arg` name every node of the source graph by node_id?"""
    e = arg
    if isinstance(e, ast.Name):
        r = view.reaching(e.id, at)
        if r is None:
            raise AnalysisError("add_nodes_from(%s): the iterable is not a single-assignment local" % e.id)
        e, at = r.value, r
    if isinstance(e, ast.Call) and isinstance(e.func, ast.Name) and e.func.id in ("list", "set", "tuple") and len(e.args) == 1:
        e = e.args[0]
    if not isinstance(e, (ast.GeneratorExp, ast.ListComp, ast.SetComp)) or len(e.generators) != 1:
        raise AnalysisError("add_nodes_from(%s): unrecognised iterable" % u(arg)[:80])
    g = e.generators[0]
    if not isinstance(g.target, ast.Name):
        raise AnalysisError("add_nodes_from: unrecognised comprehension target")
    v = g.target.id
    it = view.text(g.iter, at)
    elt = e.elt.elts[0] if isinstance(e.elt, ast.Tuple) and e.elt.elts else e.elt
    if it == "%s.nodes()" % src:
        named = u(elt) == "%s.node_id" % v
    elif it in ("%s.node_indices()" % src, "%s.node_indexes()" % src):
        named = u(elt) in ("%s[%s].node_id" % (src, v), "%s.get_node_data(%s).node_id" % (src, v))
    else:
        return False
    return named and not g.ifs


def rule_N1(ctx):
    prog = ctx.prog
    ctx.rule("N1", "the networkx graph receives every source node (not only edge end points) before any per-node lookup, and every node's payload, whose keys cover what the MAP code reads", 5)
    f = prog.fn("process_trace.utils.convert_rustworkx_to_networkx")
    view = _View(f.node)
    src = f.params[0]
    digs = {}
    for n in ast.walk(f.node):
        if isinstance(n, ast.Assign) and isinstance(n.value, ast.Call) and call_name(n.value).split(".")[-1] == "DiGraph":
            if len(n.targets) == 1 and isinstance(n.targets[0], ast.Name):
                digs[n.targets[0].id] = n
    view.keep = set(digs) | {src}
    direct = [r for r in ast.walk(f.node) if isinstance(r, ast.Return) and isinstance(r.value, ast.Call) and call_name(r.value).split(".")[-1] == "DiGraph"]
    if not digs and not direct:
        raise AnalysisError("convert_rustworkx_to_networkx builds no networkx DiGraph (anchor shape changed)")
    for r in direct:
        ctx.fail("N1", "returned DiGraph holds every source node", f.where(r), "the directed graph is returned as built from %s: nodes without edges (a tree whose data points are all outliers has only the root) are missing" % u(r.value)[:80], construct=f.qualname, stmt="return DiGraph(edges)")
    loops = {id(l.iter): l for l in ast.walk(f.node) if isinstance(l, ast.For)}

    def adds_all(step, G):
        if step.kind == "stmt":
            for c in calls(step.node):
                if isinstance(c.func, ast.Attribute) and isinstance(c.func.value, ast.Name) and c.func.value.id == G and c.func.attr == "add_nodes_from" and c.args:
                    if _covers_all_nodes(view, c.args[0], src, step.node):
                        return True
        if step.kind == "iter" and id(step.node) in loops:  # zero iterations: there is no node to add
            l = loops[id(step.node)]
            if _adds_own_node(l, G) is not None:
                return True
        return False

    def _adds_own_node(l, G):
        """Index of the top-level statement of loop `l` (over every node of the source graph) that adds the loop's
        own node to G — by `<target>.node_id` or a local bound to it in the body — or None."""
        if not (isinstance(l.target, ast.Name) and u(l.iter) == "%s.nodes()" % src):
            return None
        names = {"%s.node_id" % l.target.id}
        for i, st_ in enumerate(l.body):
            if isinstance(st_, ast.Assign) and len(st_.targets) == 1 and isinstance(st_.targets[0], ast.Name) and u(st_.value) in names:
                names.add(st_.targets[0].id)
            if isinstance(st_, ast.Expr) and isinstance(st_.value, ast.Call) and u(st_.value.func) == "%s.add_node" % G and st_.value.args and u(st_.value.args[0]) in names:
                return i, names
        return None

    def _own_node_added_before(n, G):
        """A lookup G.nodes[x] inside the per-node loop, after that loop's `G.add_node(x)` for the same node."""
        for l in loops.values():
            r = _adds_own_node(l, G)
            if r is None:
                continue
            i, names = r
            for j, st_ in enumerate(l.body):
                if any(x is n for x in ast.walk(st_)):
                    return j > i and u(n.slice) in names
        return False

    def lookups(step, G):
        if step.kind == "with":
            return []
        return [n for n in ast.walk(step.node) if isinstance(n, ast.Subscript) and isinstance(n.value, ast.Attribute) and n.value.attr == "nodes" and isinstance(n.value.value, ast.Name) and n.value.value.id == G]

    ret_seen, look_seen = {}, {}
    for steps, oc in enumerate_paths(f.node.body):
        for G, asg in digs.items():
            built = [i for i, s in enumerate(steps) if s.kind == "stmt" and s.node is asg]
            if not built:
                continue
            b = built[-1]
            added = None
            for i in range(b + 1, len(steps)):
                s = steps[i]
                if added is None and adds_all(s, G):
                    added = i
                for n in lookups(s, G):
                    look_seen.setdefault(id(n), [n, True])
                    if added is None and not _own_node_added_before(n, G):
                        look_seen[id(n)][1] = False
                if s.kind == "stmt" and isinstance(s.node, ast.Return) and isinstance(s.node.value, ast.Name) and s.node.value.id == G:
                    ret_seen.setdefault(id(s.node), [s.node, True])
                    if added is None:
                        ret_seen[id(s.node)][1] = False
    if not ret_seen and not direct:
        raise AnalysisError("convert_rustworkx_to_networkx never returns the DiGraph it builds")
    for node, ok in ret_seen.values():
        ctx.check(ok, "N1", "returned DiGraph holds every source node", f.where(node), "on some path the directed graph is built from the edge list only and returned without add_nodes_from(<node_id of every node of %s>): an edgeless tree (all data points outliers) yields a graph without 'root', and get_clone_table raises KeyError" % src, construct=f.qualname, stmt="return " + u(node.value))
    for node, ok in look_seen.values():
        ctx.check(ok, "N1", "per-node lookup happens on a graph that already holds every source node", f.where(node), "`%s` is evaluated for every node of %s before the nodes have been added to the graph: KeyError for a node without edges (edgeless tree: 'root')" % (u(node), src), construct=f.qualname, stmt=u(node))
    # ---- payload of every node
    pay = []
    for l in ast.walk(f.node):
        if isinstance(l, ast.For) and isinstance(l.target, ast.Name) and u(l.iter) == "%s.nodes()" % src:
            v = l.target.id
            for s in l.body:
                for c in calls(s):
                    if isinstance(c.func, ast.Attribute) and c.func.attr == "update" and len(c.args) == 1:
                        recv = view.text(c.func.value, c)
                        arg = view.text(c.args[0], c)
                        tgt = [G for G in digs if recv == "%s.nodes[%s.node_id]" % (G, v)]
                        if tgt:
                            pay.append((c, s in l.body and isinstance(s, (ast.Expr, ast.Assign)), arg == "%s.to_dict()" % v))
    for c in calls(f.node):
        if isinstance(c.func, ast.Attribute) and c.func.attr == "add_nodes_from" and c.args and isinstance(c.args[0], (ast.GeneratorExp, ast.ListComp)):
            e = c.args[0]
            if isinstance(e.elt, ast.Tuple) and len(e.elt.elts) == 2 and len(e.generators) == 1 and isinstance(e.generators[0].target, ast.Name):
                v = e.generators[0].target.id
                if u(e.generators[0].iter) == "%s.nodes()" % src and u(e.elt.elts[0]) == "%s.node_id" % v:
                    pay.append((c, not e.generators[0].ifs, u(e.elt.elts[1]) == "%s.to_dict()" % v))
    if not pay:
        raise AnalysisError("convert_rustworkx_to_networkx: cannot find where the node payload (to_dict) is attached to the networkx nodes")
    for c, uncond, same in pay:
        ctx.check(uncond and same, "N1", "every source node's payload is attached to the networkx node of the same id", f.where(c), "`%s` does not merge <node>.to_dict() into the networkx node named <node>.node_id for every source node" % u(c)[:120], construct=f.qualname, stmt="payload")
    # ---- payload keys cover what the MAP code reads from the nodes
    td = prog.fn("TreeNode.to_dict")
    rets = [r for r in ast.walk(td.node) if isinstance(r, ast.Return)]
    if len(rets) != 1 or not isinstance(rets[0].value, ast.Dict) or not all(isinstance(k, ast.Constant) for k in rets[0].value.keys):
        raise AnalysisError("TreeNode.to_dict does not return a dict display with constant keys")
    provided = {k.value for k in rets[0].value.keys}
    mp = prog.module("process_trace.map")
    loaded, stored = {}, set()
    for fi in prog.functions.values():
        if fi.module is not mp:
            continue
        vw = _View(fi.node)
        for n in ast.walk(fi.node):
            if isinstance(n, ast.Subscript) and isinstance(n.slice, ast.Constant) and isinstance(n.slice.value, str):
                base = vw.expand(n.value, n)
                if isinstance(base, ast.Subscript) and isinstance(base.value, ast.Attribute) and base.value.attr == "nodes":
                    if isinstance(n.ctx, ast.Store):
                        stored.add(n.slice.value)
                    else:
                        loaded.setdefault(n.slice.value, (fi, n))
    # `node.update({...})`, `node.update(key=...)`, `node.update(record._asdict())` store keys as well
    def record_fields_of(fi, e, depth=0):
        if depth > 3:
            return None
        if isinstance(e, ast.Name):
            defs = [n.value for n in ast.walk(fi.node) if isinstance(n, ast.Assign) and len(n.targets) == 1 and isinstance(n.targets[0], ast.Name) and n.targets[0].id == e.id]
            if len(defs) == 1:
                return record_fields_of(fi, defs[0], depth + 1)
            return None
        if isinstance(e, ast.Call) and isinstance(e.func, ast.Name):
            names = prog.record_fields(e.func.id, fi.module)
            if names is not None:
                return names
            g = prog.resolve_function(e.func.id, fi.module)
            if g is not None:
                outs = [record_fields_of(g, r.value, depth + 1) for r in ast.walk(g.node) if isinstance(r, ast.Return) and r.value is not None]
                if outs and all(o is not None and o == outs[0] for o in outs):
                    return outs[0]
        return None

    for fi in prog.functions.values():
        if fi.module is not mp:
            continue
        vw = _View(fi.node)
        for c in calls(fi.node):
            if not (isinstance(c.func, ast.Attribute) and c.func.attr == "update"):
                continue
            base = vw.expand(c.func.value, c)
            if not (isinstance(base, ast.Subscript) and isinstance(base.value, ast.Attribute) and base.value.attr == "nodes"):
                continue
            for kw in c.keywords:
                if kw.arg:
                    stored.add(kw.arg)
            for a in c.args:
                if isinstance(a, ast.Dict) and all(isinstance(k, ast.Constant) and isinstance(k.value, str) for k in a.keys):
                    stored |= {k.value for k in a.keys}
                elif isinstance(a, ast.Call) and isinstance(a.func, ast.Attribute) and a.func.attr == "_asdict" and not a.args:
                    names = record_fields_of(fi, a.func.value)
                    if names is None:
                        raise AnalysisError("N1: %s stores the fields of %s on a node; the record type is not recognised" % (fi.qualname, u(a.func.value)))
                    stored |= set(names)
                else:
                    raise AnalysisError("N1: %s updates a node from %s (keys not recognised)" % (fi.qualname, u(a)[:60]))
    need = {k: v for k, v in loaded.items() if k not in stored}
    if not need:
        raise AnalysisError("process_trace/map.py reads no node attribute that comes from the tree (anchor shape changed)")
    for k, (fi, n) in sorted(need.items()):
        ctx.check(k in provided, "N1", "node attribute %r read by the MAP code is provided by TreeNode.to_dict" % k, fi.where(n), "%s reads graph.nodes[...][%r], which neither map.py stores nor TreeNode.to_dict provides (%s): KeyError for every tree" % (fi.name, k, sorted(provided)), construct=fi.qualname, stmt="nodes[...][%r]" % k)
    ctx.analysed(f, td)


# ----------------------------------------------------------------------------- N2
N2_SPEC = """
def s(data, tree, clusters=None):
    labels = tree.labels
    outlier = tree.outlier_node_name
    records = []
    seen = set()
    if clusters is None:
        for idx in labels:
            records.append({"mutation_id": data[idx].name, "clone_id": labels[idx]})
            seen.add(data[idx].name)
        for point in data:
            if point.name not in seen:
                records.append({"mutation_id": point.name, "clone_id": outlier})
        return pd.DataFrame(records)
    else:
        by_cluster = clusters.groupby("cluster_id")
        for idx in labels:
            cluster_id = int(data[idx].name)
            members = by_cluster.get_group(cluster_id)["mutation_id"].unique()
            for mutation in members:
                records.append({"mutation_id": mutation, "clone_id": labels[idx], "cluster_id": cluster_id})
            seen.update(members)
        rest = clusters.loc[~clusters["mutation_id"].isin(seen)]
        rest["clone_id"] = outlier
        records.extend(rest.to_dict("records"))
        return pd.DataFrame(records)
"""


def _arm_of(ev, pkey):
    """'flat' / 'clustered' by the guard `clusters is None` on the event's path, else None."""
    for g in ev.guards:
        pol = True
        if g[0] == "not":
            g, pol = g[1], False
        if g[0] == "cmp" and g[1] == "==" and pkey in (g[2], g[3]):
            other = g[3] if g[2] == pkey else g[2]
            a = _atom(other)
            if other == ("const", "None") or (a is not None and a[0] == "const" and a[1] == "None"):
                return "flat" if pol else "clustered"
    return None


def _record_alts(item):
    """[(guard key, {field: value key} | None)] for one element of the records list (None = absent /
    an opaque block of records, returned as ('opaque', key))."""
    if isinstance(item, ADict):
        return [(TRUE, {ast.literal_eval(k[1]) if k[0] == "const" else show_key(k): vkey(v[1]) for k, v in item.items.items()})]
    k = vkey(item)
    a = _atom(k)
    if a is not None and a[0] == "cond":
        out = []
        for g, vk in a[1]:
            va = _atom(vk) if not (isinstance(vk, tuple) and vk and vk[0] == "dict") else None
            if isinstance(vk, tuple) and vk and vk[0] == "dict":
                out.append((g, {(_str_of_key(kk) if _str_of_key(kk) is not None else show_key(kk)): vv for kk, vv in vk[1]}))
            elif va is not None and va[0] == "dict":
                out.append((g, {(_str_of_key(kk) if _str_of_key(kk) is not None else show_key(kk)): vv for kk, vv in va[1]}))
            elif va is not None and va[0] == "absent":
                out.append((g, None))
            else:
                out.append((g, ("opaque", vk)))
        return out
    if a is not None and a[0] == "dict":
        return [(TRUE, {(_str_of_key(kk) if _str_of_key(kk) is not None else show_key(kk)): vv for kk, vv in a[1]})]
    return [(TRUE, ("opaque", k))]


def _guards_equal(g1, g2, trials=32):
    """Same test: identical, or the same truth value under congruent random interpretations."""
    if g1 == g2:
        return True
    from ..termflow import Valuation

    try:
        for t in range(trials):
            v = Valuation(t, salt="s0")
            if v.truth(g1) != v.truth(g2):
                return False
        return True
    except (ValueError, OverflowError, ZeroDivisionError, Unsupported, TypeError):
        return False


def _alts_equal(ga, wa, fields):
    if len(ga) != len(wa):
        return False
    for (g1, r1), (g2, r2) in zip(ga, wa):
        if not _guards_equal(g1, g2):
            return False
        if r1 is None or r2 is None:
            if r1 is not r2:
                return False
            continue
        if isinstance(r1, tuple) or isinstance(r2, tuple):
            if not (isinstance(r1, tuple) and isinstance(r2, tuple) and _eq(_value_of_key(r1[1]), _value_of_key(r2[1]))):
                return False
            continue
        for fld in fields:
            if (fld in r1) != (fld in r2):
                return False
            if fld in r1 and not _eq(_value_of_key(r1[fld]), _value_of_key(r2[fld])):
                return False
    return True


def _show_alts(alts):
    out = []
    for g, r in alts:
        if r is None:
            out.append("%s -> nothing" % show_key(g))
        elif isinstance(r, tuple):
            out.append("%s -> *%s" % (show_key(g), show_key(r[1])[:160]))
        else:
            out.append("%s -> {%s}" % (show_key(g)[:200], ", ".join("%s: %s" % (k, show_key(v)[:120]) for k, v in sorted(r.items()))))
    return " | ".join(out)[:700]


def _is_fill(alts):
    """A fill-in element: emitted under a condition, or an opaque block of records."""
    return any(g != TRUE or isinstance(r, tuple) for g, r in alts)


def rule_N2(ctx):
    prog = ctx.prog
    ctx.rule("N2", "labels table: one record per labelled data point (per mutation of its cluster when pre-clustered), then an outlier-named record for every data point / cluster row not seen, `seen` being exactly what was emitted", 7)
    f = prog.fn(PT + "get_labels_table")
    ex = extract(prog, f)
    sp = spec(prog, N2_SPEC, f)
    pkey = _param_key(f, "clusters")
    FIELDS = ("mutation_id", "clone_id")

    def frames(e):
        out = {}
        for ev in _events(e, "DataFrame"):
            arm = _arm_of(ev, pkey)
            if arm is None or arm in out or not ev.args:
                raise AnalysisError("get_labels_table: DataFrame construction not selected by `clusters is None` (or repeated)")
            out[arm] = ev
        if set(out) != {"flat", "clustered"}:
            raise AnalysisError("get_labels_table: expected one DataFrame(records) per arm, found %s" % sorted(out))
        return out

    got, want = frames(ex), frames(sp)
    names = {"flat": "unclustered", "clustered": "pre-clustered"}
    for arm in ("flat", "clustered"):
        g, w = got[arm].args[0], want[arm].args[0]
        where = f.where(got[arm].node)
        if not isinstance(g, AList):
            raise AnalysisError("get_labels_table (%s): the records handed to DataFrame are %s, not a list built in the function" % (names[arm], show(g)[:120]))
        gi = [_record_alts(x) for x in g.items]
        wi = [_record_alts(x) for x in w.items]
        glab, gfill = [x for x in gi if not _is_fill(x)], [x for x in gi if _is_fill(x)]
        wlab, wfill = [x for x in wi if not _is_fill(x)], [x for x in wi if _is_fill(x)]
        ok = len(glab) == len(wlab) and all(_alts_equal(a, b, FIELDS) for a, b in zip(glab, wlab))
        what = "one record {mutation_id: data[idx].name, clone_id: labels[idx]} per labelled data point" if arm == "flat" else "one record per mutation of the data point's cluster (get_group(int(name)) of groupby('cluster_id')), all with the clone of that data point"
        ctx.check(ok, "N2", "get_labels_table (%s): %s" % (names[arm], what), where, "labelled records differ from the specification: code %s ; specification %s" % (" || ".join(_show_alts(x) for x in glab)[:600], " || ".join(_show_alts(x) for x in wlab)[:600]), construct=f.qualname, stmt=names[arm] + ": labelled records")
        ok = len(gfill) == len(wfill) and all(_alts_equal(a, b, FIELDS) for a, b in zip(gfill, wfill))
        what = "an outlier-named record for every data point whose name was not emitted" if arm == "flat" else "the cluster-file rows whose mutation was not emitted, as records"
        ctx.check(ok, "N2", "get_labels_table (%s): fill-in: %s" % (names[arm], what), where, "fill-in records differ from the specification (every input mutation must appear; the `seen` set must hold exactly the emitted mutation ids): code %s ; specification %s" % (" || ".join(_show_alts(x) for x in gfill)[:700] or "none", " || ".join(_show_alts(x) for x in wfill)[:700]), construct=f.qualname, stmt=names[arm] + ": fill-in records")
        order_ok = [_is_fill(x) for x in gi] == [_is_fill(x) for x in wi]
        ctx.check(order_ok, "N2", "get_labels_table (%s): nothing else is emitted and the fill-in follows the labelled records" % names[arm], where, "per unrolled iteration the record list has %d element(s) (labelled / fill-in pattern %s), the specification %d (%s)" % (len(gi), ["fill" if _is_fill(x) else "label" for x in gi], len(wi), ["fill" if _is_fill(x) else "label" for x in wi]), construct=f.qualname, stmt=names[arm] + ": record list shape")
    # the fill-in block of the pre-clustered arm carries the outlier name
    def clone_store(e):
        return [ev for ev in e.calls("store_sub") if _str_of(ev.args[1]) == "clone_id" and _arm_of(ev, pkey) == "clustered"]

    gs, ws = clone_store(ex), clone_store(sp)
    if len(ws) != 1:
        raise AnalysisError("N2 specification is malformed")
    if len(gs) != 1:
        ctx.fail("N2", "get_labels_table (pre-clustered): the fill-in rows get clone_id = outlier node name", f.where(), "%d assignment(s) of a 'clone_id' column in the pre-clustered arm (expected one, on the rows not seen)" % len(gs), construct=f.qualname, stmt="pre-clustered: fill-in clone_id")
    else:
        ok = _eq(gs[0].args[2], ws[0].args[2]) and _same_base(vkey(gs[0].args[0]), vkey(ws[0].args[0]))
        ctx.check(ok, "N2", "get_labels_table (pre-clustered): the fill-in rows get clone_id = outlier node name", f.where(gs[0].node), "the rows not seen are %s with clone_id = %s; the specification: %s with clone_id = %s" % (show(gs[0].args[0])[:200], show(gs[0].args[2])[:80], show(ws[0].args[0])[:200], show(ws[0].args[2])[:80]), construct=f.qualname, stmt="pre-clustered: fill-in clone_id")
    ctx.analysed(f)


# ----------------------------------------------------------------------------- N3 / N4
N34_SPEC = """
def s(data, samples, tree, clusters=None):
    labels = get_labels_table(data, tree, clusters=clusters)
    ccfs, prevalences = get_map_node_ccfs_and_clonal_prev_dicts(tree)
    position = {sample: i for i, sample in enumerate(samples)}
    labels["sample_id"] = [samples] * len(labels)
    rows = labels.explode("sample_id")
    parts = []
    for key, group in rows.groupby(["clone_id", "sample_id"]):
        clone_id, sample_id = key
        if clone_id in ccfs:
            group["ccf"] = ccfs[clone_id][position[sample_id]]
            group["clonal_prev"] = prevalences[clone_id][position[sample_id]]
        else:
            group["ccf"] = -1
            group["clonal_prev"] = -1
        parts.append(group)
    return pd.concat(parts, ignore_index=True)
"""


def rule_N3_N4(ctx):
    prog = ctx.prog
    ctx.rule("N3", "clone table: the sample_id column holds the full sample list on every row and is then exploded; the groups of the exploded frame are what is returned", 3)
    ctx.rule("N4", "clone table: ccf / clonal_prev are read at the sample's position from the clone's vectors when the clone has one, both -1 otherwise", 2)
    f = prog.fn(PT + "get_clone_table")
    ex = extract(prog, f, no_inline=NI)
    sp = spec(prog, N34_SPEC, f, no_inline=NI)

    def col_stores(e, col):
        return [ev for ev in e.calls("store_sub") if _str_of(ev.args[1]) == col]

    # N3.a
    gs, ws = col_stores(ex, "sample_id"), col_stores(sp, "sample_id")
    gl = _events(ex, "get_labels_table")
    if len(gl) != 1:
        raise AnalysisError("get_clone_table: expected one get_labels_table call, found %d" % len(gl))
    if len(gs) != 1:
        ass = [e for e in ex.calls(".assign") if "sample_id" in e.kwargs]
        if not ass:
            raise AnalysisError("get_clone_table: cannot find where the 'sample_id' column is created")
        gs = ass
        val, base = ass[0].kwargs["sample_id"], ass[0].recv
    else:
        val, base = gs[0].args[2], gs[0].args[0]
    wval, wbase = ws[0].args[2], ws[0].args[0]
    ok = _eq(val, wval) and _same_base(vkey(base), vkey(wbase))
    ctx.check(ok, "N3", "get_clone_table: sample_id = [samples] * len(labels) on the labels table", f.where(gs[0].node), "the sample_id column of %s is %s; every row must carry the whole sample list (%s) so that explode yields one row per sample" % (show(base)[:120], show(val)[:200], show(wval)[:200]), construct=f.qualname, stmt="sample_id column")
    # N3.b
    ge, we = ex.calls(".explode"), sp.calls(".explode")
    if not ge:
        ctx.fail("N3", "get_clone_table: the table is exploded on sample_id", f.where(), "no explode: each mutation appears once with a list of samples instead of once per sample", construct=f.qualname, stmt="explode")
    else:
        ok = len(ge) == 1 and ge[0].args and _str_of(ge[0].args[0]) == "sample_id" and _same_base(vkey(ge[0].recv), vkey(base))
        ctx.check(ok, "N3", "get_clone_table: the table is exploded on sample_id", f.where(ge[0].node), "explode(%s) on %s; expected explode('sample_id') on the labels table that received the column" % (", ".join(show(a) for a in ge[0].args), show(ge[0].recv)[:160]), construct=f.qualname, stmt="explode")
    # N3.c the returned frame is the concatenation of the groups of the exploded frame
    if ex.result is None:
        raise AnalysisError("get_clone_table returns nothing")
    expl = [a for a in atoms_of(ex.result, tag="mcall", name="explode")] + [a for a in atoms_of(ex.result, tag="upd") if a[1] == "explode"]
    grp = [a for a in atoms_of(ex.result, tag="mcall", name="groupby")]
    keys_ok = False
    for a in grp:
        ks = a[3][0] if a[3] else dict(a[4]).get("by")
        if isinstance(ks, tuple) and ks and ks[0] == "list" and sorted(str(_str_of_key(x)) for x in ks[1]) == ["clone_id", "sample_id"]:
            keys_ok = keys_ok or any(contains_key(a[2], e) for e in expl)
    ok = bool(expl) and bool(grp) and keys_ok
    ctx.check(ok, "N3", "get_clone_table returns the (clone_id, sample_id) groups of the exploded table", f.where(), "the returned table (%s) is not assembled from groupby(['clone_id', 'sample_id']) of the exploded labels table" % show(ex.result)[:200], construct=f.qualname, stmt="returned table")
    # N3.d every group is returned, on every path (a group whose clone has no CCF — the outliers — included)
    same(ctx, "N3", "get_clone_table returns every (clone_id, sample_id) group, whether or not the clone has a CCF", f, ex.result, sp.result, "returned table", stmt="returned groups")
    # N4
    for col in ("ccf", "clonal_prev"):
        gsub = {k: v for k, v in ex.sub_stores().items() if _str_of_key(k[1]) == col}
        wsub = {k: v for k, v in sp.sub_stores().items() if _str_of_key(k[1]) == col}
        if not wsub:
            raise AnalysisError("N4 specification is malformed")
        if not gsub:
            ctx.fail("N4", "get_clone_table: column %s" % col, f.where(), "no assignment of the %r column on the groups" % col, construct=f.qualname, stmt="column " + col)
            continue
        ok, why = True, ""
        for k, wv in wsub.items():
            match = [gv for gk, gv in gsub.items() if _same_base(gk[0], k[0])]
            if len(match) != 1:
                ok, why = False, "group %s receives no %r value" % (show_key(k[0])[:120], col)
                break
            if not _eq(match[0], wv):
                ok, why = False, "%s of a (clone, sample) group is %s ; specification: %s" % (col, show(match[0])[:500], show(wv)[:500])
                break
        ctx.check(ok, "N4", "get_clone_table: %s = <clone's %s vector>[position of the sample] if the clone has one, else -1" % (col, col), f.where(), why, construct=f.qualname, stmt="column " + col)
    ctx.analysed(f)


# ----------------------------------------------------------------------------- N5
def rule_N5(ctx):
    prog = ctx.prog
    ctx.rule("N5", "Newick writer: text built in the post-order hook; `(children joined by ,)name` for inner vertices, `name` for leaves; appended once to the parent's list unless root; root text + `;`; parent map and names from the tree's index->name map", 11)
    cls = prog.cls("tree.visitors.GraphToNewickVisitor")
    if not any("DFSVisitor" in b for c in prog.mro(cls) for b in c.bases):
        raise AnalysisError("GraphToNewickVisitor is no longer a rustworkx DFSVisitor")
    # the hook that finishes the text
    writers = [m for m in cls.methods.values() if m.name != "__init__" and any(isinstance(n, ast.Attribute) and n.attr == "final_string" and isinstance(n.ctx, ast.Store) for n in ast.walk(m.node))]
    if len(writers) != 1:
        raise AnalysisError("GraphToNewickVisitor: expected exactly one hook that stores final_string, found %d" % len(writers))
    fv = writers[0]
    ctx.check(fv.name == "finish_vertex", "N5", "the Newick text of a vertex is built when the vertex is finished (post-order)", fv.where(), "the text is built in `%s`: only finish_vertex runs after all children of the vertex have been finished, so only there is the children's text complete" % fv.name, construct=fv.qualname, stmt="hook name")
    if len(fv.params) < 2:
        raise AnalysisError("%s: unexpected signature" % fv.qualname)
    # the hook against its specification, helpers of the visitor inlined: in every scenario (vertex has children or
    # not, vertex is the root or not) the same text is appended to the same list / stored as the result.  Strings are
    # compared in TermFlow's canonical form, so f-strings, str.format, str() and `+` are one spelling.
    from ..formula import same_effects

    exv = extract(prog, fv)
    spv = spec(prog, """
        def s(self, v, t):
            name = self.node_indices_rev[v]
            if name in self.parents:
                text = "(" + ",".join(self.dict_of_lists[name]) + ")" + str(name)
            else:
                text = str(name)
            if name != self.root_node_name:
                self.dict_of_lists[self.child_parent_mapping[name]].append(text)
            else:
                self.final_string = text + ";"
        """, fv)

    def fx(e):
        return [ev for ev in e.events if ev.name == ".append" or (ev.name == "store_attr" and ev.kwargs.get("attr") == "final_string")]

    ga, wa = [ev for ev in fx(exv) if ev.name == ".append"], [ev for ev in fx(spv) if ev.name == ".append"]
    gs, ws = [ev for ev in fx(exv) if ev.name == "store_attr"], [ev for ev in fx(spv) if ev.name == "store_attr"]
    same_effects(ctx, "N5", "vertex text is `name` for a leaf and `(children joined by ,)name` for an inner vertex; a non-root vertex is appended exactly once to its parent's list", fv, ga, wa, "text appended to the parent's list")
    same_effects(ctx, "N5", "the root's text, terminated by ';', becomes the result", fv, gs, ws, "final_string")
    for _ in range(5):  # the clauses the two comparisons above decide together (kept as instances for the vacuity guard)
        ctx.ok("N5", "finish_vertex clause decided by the specification comparison", fv.where())
    # ---- tree_edge, __init__, to_newick_string (TermFlow)
    te = prog.method(cls, "tree_edge")
    if te is None:
        raise AnalysisError("GraphToNewickVisitor.tree_edge vanished")
    ext = extract(prog, te)
    spt = spec(prog, """
        def s(self, edge):
            parent_name = self.node_indices_rev[edge[0]]
            child_name = self.node_indices_rev[edge[1]]
            self.child_parent_mapping[child_name] = parent_name
            self.parents.add(parent_name)
        """, te)
    gsub = [e for e in ext.calls("store_sub") if _eq(e.args[0], spt.calls("store_sub")[0].args[0])]
    w = spt.calls("store_sub")[0]
    ok = len(gsub) == 1 and _eq(gsub[0].args[1], w.args[1]) and _eq(gsub[0].args[2], w.args[2])
    ctx.check(ok, "N5", "tree_edge records parent name of the child name (edge = (parent, child), names from node_indices_rev)", te.where(), "child_parent_mapping is updated as %s; expected [%s] = %s" % ("; ".join("[%s] = %s" % (show(e.args[1]), show(e.args[2])) for e in gsub) or "nothing", show(w.args[1]), show(w.args[2])), construct=te.qualname, stmt="child_parent_mapping")
    ga, wa = [e for e in ext.calls(".add")], spt.calls(".add")
    ok = len(ga) == 1 and _eq(ga[0].recv, wa[0].recv) and _eq(ga[0].args[0], wa[0].args[0])
    ctx.check(ok, "N5", "tree_edge marks the parent's name as having children", te.where(), "parents receives %s; expected the parent's name %s" % (", ".join(show(e.args[0]) for e in ga) or "nothing", show(wa[0].args[0])), construct=te.qualname, stmt="parents.add")
    init = cls.methods.get("__init__")
    if init is None:
        raise AnalysisError("GraphToNewickVisitor.__init__ vanished")
    exi = extract(prog, init)
    st = exi.stores("node_indices_rev")
    tree_p = Poly.atom(("v", "P1"))
    want = Poly.atom(("attr", tree_p.key(), "_node_indices_rev"))
    ok = len(st) == 1 and _eq(next(iter(st.values())), want)
    ctx.check(ok, "N5", "names come from the tree's index->name map (_node_indices_rev, the map kept in step with the data that `labels` reports)", init.where(), "node_indices_rev = %s" % ", ".join(show(x) for x in st.values()), construct=init.qualname, stmt="node_indices_rev")
    dl = exi.stores("dict_of_lists")
    ok = len(dl) == 1 and [a for a in atoms_of(next(iter(dl.values())), tag="call") if a[1].split(".")[-1] == "defaultdict" and a[2] and _atom(a[2][0]) == ("g", "list")]
    ctx.check(bool(ok), "N5", "child lists default to empty (defaultdict(list))", init.where(), "dict_of_lists = %s: appending the first child of a vertex needs a list to exist" % ", ".join(show(x) for x in dl.values()), construct=init.qualname, stmt="dict_of_lists")
    tn = prog.fn("Tree.to_newick_string")
    exn = extract(prog, tn)
    spn = spec(prog, """
        def s(self):
            visitor = GraphToNewickVisitor(self)
            rx.dfs_search(self._graph, [self._node_indices[self._ROOT_NODE_NAME]], visitor)
            return visitor.final_string
        """, tn)
    gd, wd = _events(exn, "dfs_search"), _events(spn, "dfs_search")
    ok = len(gd) == 1 and len(gd[0].args) == 3 and all(_eq(a, b) for a, b in zip(gd[0].args, wd[0].args))
    res_ok = exn.result is not None and _same_base(vkey(exn.result), vkey(spn.result))
    ctx.check(ok and res_ok, "N5", "to_newick_string runs one DFS of the tree's own graph from the root with a fresh visitor and returns its final_string", tn.where(), "dfs_search(%s) returning %s; expected dfs_search(%s) returning %s" % (", ".join(show(a)[:80] for a in gd[0].args) if gd else "-", show(exn.result)[:100], ", ".join(show(a)[:80] for a in wd[0].args), show(spn.result)[:100]), construct=tn.qualname, stmt="to_newick_string")
    ctx.analysed(fv, te, init, tn)


# ----------------------------------------------------------------------------- N6
def _n6_function(ctx, f):
    """Table built from the tree whose Newick text is written.  Events inside inlined helpers do not
    carry the caller's path condition, so tables and texts are paired by content: the set of trees that
    get a table must be the set of trees that get a Newick text."""
    prog = ctx.prog
    gct = prog.fn(PT + "get_clone_table")
    ex = extract(prog, f, no_inline=NI)
    writes = _events(ex, "print_string_to_file")
    csvs = ex.calls(".to_csv")
    if not _events(ex, "get_clone_table") or not writes or not csvs:
        raise AnalysisError("%s: expected get_clone_table, to_csv and print_string_to_file calls (found %d / %d / %d)" % (f.qualname, len(_events(ex, "get_clone_table")), len(csvs), len(writes)))
    text_trees = set()
    table_trees = set()
    ok, why = True, ""
    for wv in writes:
        a = _atom(vkey(wv.args[0])) if wv.args else None
        if a is None or a[0] != "mcall" or a[1] != "to_newick_string":
            # some other text (e.g. a Newick string recorded for a different visit of the topology): it is not
            # derived from the tree object the table is computed from
            ok, why = False, "the text written as the tree file is %s, not the Newick string of the tree the table is built from (<tree>.to_newick_string())" % (show(wv.args[0])[:160] if wv.args else "?")
            continue
        text_trees.add(_base_key(a[2]))
    for c in csvs:
        srcs = [t for t in atoms_of(c.recv, tag="call") if t[1].split(".")[-1] == "get_clone_table"]
        if not srcs:
            ok, why = False, "the table written (%s) is not the result of get_clone_table" % show(c.recv)[:160]
            continue
        for s in srcs:
            params = gct.params
            bound = {params[i]: k for i, k in enumerate(s[2]) if i < len(params)}
            bound.update({k: v for k, v in s[3]})
            if "tree" not in bound:
                raise AnalysisError("%s: get_clone_table called without a tree" % f.qualname)
            table_trees.add(_base_key(bound["tree"]))
    if ok and table_trees != text_trees:
        only_t = [show_key(k)[:160] for k in table_trees - text_trees]
        only_n = [show_key(k)[:160] for k in text_trees - table_trees]
        ok, why = False, "tables are computed from %s, Newick texts from %s" % (only_t or "the same trees", only_n or "the same trees")
    return ex, ok, why, len(table_trees)


def rule_N6(ctx):
    prog = ctx.prog
    ctx.rule("N6", "the tree handed to get_clone_table is the tree whose Newick text is written, the table is built from the run's data / samples / clusters, and each goes to the path named for it", 10)
    gct = prog.fn(PT + "get_clone_table")
    for name in ("write_map_results", "write_consensus_results", "create_topologies_archive"):
        f = prog.fn(PT + name)
        if name == "create_topologies_archive" and any(isinstance(n, (ast.Break, ast.Return)) for l in ast.walk(f.node) if isinstance(l, (ast.For, ast.While)) for n in ast.walk(l)):
            raise AnalysisError("create_topologies_archive leaves its loop early (C11.A4 reports it); N6 cannot unroll it")
        ex, ok, why, n = _n6_function(ctx, f)
        ctx.check(ok and n > 0, "N6", "%s: table and Newick text come from one tree object" % name, f.where(), why or "no table found", construct=f.qualname, stmt="tree of table == tree of Newick")
        # inputs of the table
        okd, whyd = True, ""
        for t in _events(ex, "get_clone_table"):
            b = _bind(t, gct)
            for p, key in (("data", "data"), ("samples", "samples"), ("clusters", "clusters")):
                if p not in b:
                    if p == "clusters":
                        okd, whyd = False, "get_clone_table is called without the clusters of the run: a pre-clustered run would list cluster ids instead of mutations"
                    else:
                        raise AnalysisError("%s: get_clone_table called without %s" % (name, p))
                    continue
                a = _atom(vkey(b[p]))
                got = None
                if a is not None and a[0] == "sub":
                    got = _str_of_key(a[2])
                elif a is not None and a[0] == "mcall" and a[1] == "get" and a[3]:
                    got = _str_of_key(a[3][0])
                if got is None and (b[p] is None or vkey(b[p]) == vkey(None)):
                    # the literal None (or a helper's default None passed on): the table is built without that input
                    okd, whyd = False, "get_clone_table receives %s = None in %s: %s" % (p, name, "a pre-clustered run would list cluster ids instead of mutations" if p == "clusters" else "the table is not built from the run's %s" % p)
                    continue
                if got is None:
                    raise AnalysisError("%s: argument %s of get_clone_table is %s, not a keyed read of a chain result" % (name, p, show(b[p])[:120]))
                if got != key:
                    okd, whyd = False, "get_clone_table receives %s = <result>[%r]" % (p, got)
        ctx.check(okd, "N6", "%s: the table is built from the run's data, samples and clusters" % name, f.where(), whyd, construct=f.qualname, stmt="table inputs")
        # destinations
        if name != "create_topologies_archive":
            ptab, ptree = _param_key(f, "out_table_file"), _param_key(f, "out_tree_file")
            okp = all(c.args and vkey(c.args[0]) == ptab for c in ex.calls(".to_csv")) and all(len(w.args) == 2 and vkey(w.args[1]) == ptree for w in _events(ex, "print_string_to_file"))
            ctx.check(okp, "N6", "%s: the table goes to out_table_file and the Newick text to out_tree_file" % name, f.where(), "to_csv(%s) / print_string_to_file(…, %s)" % (", ".join(show(c.args[0]) for c in ex.calls(".to_csv") if c.args), ", ".join(show(w.args[1]) for w in _events(ex, "print_string_to_file") if len(w.args) == 2)), construct=f.qualname, stmt="output paths")
        else:
            adds = ex.calls(".add")
            written = {vkey(c.args[0]) for c in ex.calls(".to_csv") if c.args} | {vkey(w.args[1]) for w in _events(ex, "print_string_to_file") if len(w.args) == 2}
            added = {vkey(a.args[0]) for a in adds if a.args}
            okp = bool(adds) and written == added
            ctx.check(okp, "N6", "create_topologies_archive: exactly the files just written (table, Newick) are added to the archive", f.where(), "files written: %d, files added: %d, in common: %d" % (len(written), len(added), len(written & added)), construct=f.qualname, stmt="archive members")
            ids = set()
            for a in adds:
                arc = a.kwargs.get("arcname", a.args[1] if len(a.args) > 1 else None)
                if arc is None:
                    raise AnalysisError("create_topologies_archive: archive.add without arcname")
                j = [x for x in atoms_of(arc, tag="call") if x[1].split(".")[-1] == "join"]
                if not j or not j[0][2]:
                    raise AnalysisError("create_topologies_archive: arcname is not os.path.join(<id>, <file>)")
                ids.add((j[0][2][0], tuple(a.guards)))
            per_path = {}
            for k, g in ids:
                per_path.setdefault(g, set()).add(k)
            okd = all(len(v) == 1 for v in per_path.values())
            ctx.check(okd, "N6", "create_topologies_archive: table and Newick of one topology are filed under the same topology id", f.where(), "the two members of one topology use different directory names", construct=f.qualname, stmt="archive directory")
        ctx.analysed(f)


def rule_N7(ctx):
    """The consensus command completes on every trace only if the retained clades are pairwise nested or disjoint:
    consensus() raises "Inconsistent set of clades" otherwise.  Two conflicting clades cannot both have support
    strictly above one half (supports of conflicting clades sum to at most 1), but they can both have support equal
    to it (a 50/50 split of an even-length trace, exactly representable in counts mode): the comparison with the
    threshold has to be strict."""
    from ..termflow import equivalent

    prog = ctx.prog
    ctx.rule("N7", "consensus keeps a clade only when its support is strictly above the threshold (a strict majority is conflict-free; `>=` admits two conflicting clades at exactly one half and consensus() raises)", 1)
    f = prog.fn("consensus.key_above_threshold")
    ex = extract(prog, f)
    strict = spec(prog, "def s(counter, threshold):\n    return set([key for key, value in counter.items() if value > threshold])\n", f)
    eq, _, _ = equivalent(ex.result, strict.result)
    if not eq:
        # a different container type for the same keys is not this rule's business
        for wrap in ("frozenset", "list", "tuple"):
            alt = spec(prog, "def s(counter, threshold):\n    return %s([key for key, value in counter.items() if value > threshold])\n" % wrap, f)
            eq = eq or equivalent(ex.result, alt.result)[0]
    ctx.check(eq, "N7", "key_above_threshold keeps exactly the keys whose value is strictly greater than the threshold", f.where(), "the retained set is %s: at the default threshold two conflicting clades with support exactly 0.5 are both kept and the command fails with 'Inconsistent set of clades'" % show(ex.result)[:300], construct=f.qualname, stmt="value > threshold")
    ctx.analysed(f)


def rule_N8(ctx):
    """The cluster table the summary commands expand clusters with is the one stored in the trace: one row per mutation
    (`mutation_id`, `cluster_id`), duplicates removed.  A PyClone-VI cluster file has one row per mutation *per sample*;
    without the de-duplication every mutation of a cluster that is not in the tree is listed once per sample row."""
    prog = ctx.prog
    ctx.rule("N8", "the cluster table stored with each chain is the cluster file projected onto (mutation_id, cluster_id) with duplicates dropped", 1)
    w = prog.fn("process_trace.create_main_run_output")
    ex = extract(prog, w)
    sp = spec(prog, """
def s(cluster_file, out_file, results):
    for chain_result in results.values():
        if cluster_file is not None:
            chain_result["clusters"] = pd.read_csv(cluster_file, sep="\\t")[["mutation_id", "cluster_id"]].drop_duplicates()
""", w)
    got = [e for e in ex.events if e.name == "store_sub" and len(e.args) == 3 and e.args[1] == "clusters"]
    want = [e for e in sp.events if e.name == "store_sub" and len(e.args) == 3 and e.args[1] == "clusters"]
    if not got:
        raise AnalysisError("N8: create_main_run_output stores no 'clusters' entry")
    ok, why = True, ""
    for g in got:
        v = g.args[2]
        if not any(equivalent(v, w_.args[2])[0] for w_ in want):
            # the same table spelled with usecols= / subset= / a named intermediate is the same table only if the
            # projection and the de-duplication are both there
            a_names = {a[1] for a in atoms_of(v) if a[0] in ("call", "mcall") and isinstance(a[1], str)}
            has_dedup = any(n_.split(".")[-1] in ("drop_duplicates", "unique", "groupby") for n_ in a_names)
            if not has_dedup:
                ok, why = False, "the stored table is %s: the rows of the cluster file are kept as they are (one per mutation and sample), not reduced to one per mutation" % show(v)[:200]
            else:
                raise AnalysisError("N8: the stored cluster table %s is de-duplicated in a way this rule cannot compare with the reference" % show(v)[:160])
    ctx.check(ok, "N8", "create_main_run_output: clusters = read_csv(cluster_file)[[mutation_id, cluster_id]].drop_duplicates()", w.where(got[0].node), why, construct=w.qualname, stmt="clusters table")
    ctx.analysed(w)


def run(ctx):
    ctx.assume("pandas DataFrame / groupby / explode / concat and networkx DiGraph behave as documented")
    ctx.assume("rustworkx dfs_search calls tree_edge before the child is discovered and finish_vertex after all descendants are finished")
    ctx.assume("the tree's index->name map and its data dictionary are kept in step (C07)")
    ctx.soft(rule_N1)
    ctx.soft(rule_N2)
    ctx.soft(rule_N3_N4)
    ctx.soft(rule_N5)
    ctx.soft(rule_N6)
    ctx.soft(rule_N7)
    ctx.soft(rule_N8)
    # the ccf / clonal_prev columns are the MAP assignment's: its traceback and output formulas (C10.X4, X5)
    from . import C10

    from ..formula import imported

    ctx._own_rules = set(ctx.rule_min)
    info = C10._Info()
    for r in (C10.rule_X1, C10.rule_X2, C10.rule_X3, C10.rule_X4, C10.rule_X5, C10.rule_X6, C10.rule_X7):
        imported(ctx, r, info)
    # the cluster table the commands read from the trace is the one the run stored, under the key and on the chain
    # they look at (same rule object as C11.A5)
    from . import C11

    imported(ctx, C11.rule_A5)
    # "the commands complete": the consensus path rebuilds a Tree from the consensus graph through the editor's
    # build-time entry points (from_dict_nx / get_tree_from_consensus_graph / clean_tree / relabel) - against the
    # reference semantics, as in C16
    from ._treespec import rule_TS

    imported(ctx, rule_TS, ["process_trace.consensus", "process_trace.process_trace"], "TS", None, 3)


# ----------------------------------------------------------------------------- self-test catalogue
_P = "phyclone/process_trace/process_trace.py"
_U = "phyclone/process_trace/utils.py"
_V = "phyclone/tree/visitors.py"
_T = "phyclone/tree/tree.py"
_N = "phyclone/tree/tree_node.py"
_LOOP = '        for node in graph.nodes():\n            node_id = node.node_id\n            nx_node = nx_graph.nodes[node_id]\n            nx_node.update(node.to_dict())\n'
_ADD = "        nx_graph.add_nodes_from(node.node_id for node in graph.nodes())\n"
_FLAT_LOOP = '        for idx in tree_labels:\n            df_records_list.append(\n                {\n                    "mutation_id": data[idx].name,\n                    "clone_id": tree_labels[idx],\n                }\n            )\n\n            clone_muts.add(data[idx].name)\n'
_OUT = "    _create_results_output_files(out_table_file, out_tree_file, table, tree)\n\n\ndef create_topology_dict_from_trace"
SELFTEST = [
    {"name": "N7-threshold-not-strict", "kind": "break", "rule": "N7", "file": "phyclone/process_trace/consensus.py", "old": "if value > threshold])", "new": "if value >= threshold])"},
    {"name": "benign-threshold-operands-swapped", "kind": "benign", "file": "phyclone/process_trace/consensus.py", "old": "return set([key for key, value in counter.items() if value > threshold])", "new": "return {key for key, value in counter.items() if threshold < value}"},
    {"name": "N3-groups-without-ccf-dropped", "kind": "break", "rule": "N3", "file": _P, "old": "            group[\"clonal_prev\"] = -1\n\n        df_list.append(group)\n", "new": "            group[\"clonal_prev\"] = -1\n            continue\n\n        df_list.append(group)\n"},
    {"name": "benign-N3-append-in-both-arms", "kind": "benign", "file": _P, "old": "            group[\"clonal_prev\"] = -1\n\n        df_list.append(group)\n", "new": "            group[\"clonal_prev\"] = -1\n            df_list.append(group)\n            continue\n\n        df_list.append(group)\n"},
    # ---- N1
    {"name": "N1-revert-F7", "kind": "break", "rule": "N1", "file": _U, "old": _ADD, "new": ""},
    {"name": "N1-nodes-added-after-lookup", "kind": "break", "rule": "N1", "file": _U, "old": _ADD + _LOOP, "new": _LOOP + _ADD},
    {"name": "N1-root-filtered-out", "kind": "break", "rule": "N1", "file": _U, "old": "node.node_id for node in graph.nodes())", "new": 'node.node_id for node in graph.nodes() if node.node_id != "root")'},
    {"name": "N1-node-objects-as-names", "kind": "break", "rule": "N1", "file": _U, "old": "add_nodes_from(node.node_id for node in graph.nodes())", "new": "add_nodes_from(node for node in graph.nodes())"},
    {"name": "N1-only-edge-sources-added", "kind": "break", "rule": "N1", "file": _U, "old": "add_nodes_from(node.node_id for node in graph.nodes())", "new": "add_nodes_from(e[0] for e in edge_list)"},
    {"name": "N1-payload-key-renamed", "kind": "break", "rule": "N1", "file": _N, "old": '"log_R": self.log_r', "new": '"log_r": self.log_r'},
    {"name": "N1-payload-of-root-for-all", "kind": "break", "rule": "N1", "file": _U, "old": "nx_node.update(node.to_dict())", "new": "nx_node.update(graph[0].to_dict())"},
    {"name": "N1-payload-only-for-inner-nodes", "kind": "break", "rule": "N1", "file": _U, "old": "            nx_node.update(node.to_dict())", "new": "            if graph.out_degree(graph.nodes().index(node)) > 0:\n                nx_node.update(node.to_dict())"},
    {"name": "benign-N1-one-statement", "kind": "benign", "file": _U, "old": "            node_id = node.node_id\n            nx_node = nx_graph.nodes[node_id]\n            nx_node.update(node.to_dict())\n", "new": "            nx_graph.nodes[node.node_id].update(node.to_dict())\n"},
    {"name": "benign-N1-list-of-ids", "kind": "benign", "file": _U, "old": _ADD, "new": "        all_ids = [n.node_id for n in graph.nodes()]\n        nx_graph.add_nodes_from(all_ids)\n"},
    {"name": "benign-N1-add-node-in-loop", "kind": "benign", "file": _U, "old": _ADD + "        for node in graph.nodes():\n", "new": "        for node in graph.nodes():\n            nx_graph.add_node(node.node_id)\n"},
    # ---- N2
    {"name": "N2-fill-in-removed", "kind": "break", "rule": "N2", "file": _P, "old": '        for x in data:\n            if x.name not in clone_muts:\n                df_records_list.append({"mutation_id": x.name, "clone_id": outlier_node_name})\n', "new": ""},
    {"name": "N2-seen-not-updated", "kind": "break", "rule": "N2", "file": _P, "old": "            clone_muts.add(data[idx].name)\n", "new": ""},
    {"name": "N2-fill-guard-inverted", "kind": "break", "rule": "N2", "file": _P, "old": "if x.name not in clone_muts:", "new": "if x.name in clone_muts:"},
    {"name": "N2-clone-is-the-index", "kind": "break", "rule": "N2", "file": _P, "old": '"clone_id": tree_labels[idx],', "new": '"clone_id": idx,'},
    {"name": "N2-seen-holds-indices", "kind": "break", "rule": "N2", "file": _P, "old": "            clone_muts.add(data[idx].name)\n", "new": "            clone_muts.add(idx)\n"},
    {"name": "N2-fill-in-named-root", "kind": "break", "rule": "N2", "file": _P, "old": 'df_records_list.append({"mutation_id": x.name, "clone_id": outlier_node_name})', "new": 'df_records_list.append({"mutation_id": x.name, "clone_id": tree.root_node_name})'},
    {"name": "N2-clustered-mask-not-inverted", "kind": "break", "rule": "N2", "file": _P, "old": 'clusters.loc[~clusters["mutation_id"].isin(clone_muts)]', "new": 'clusters.loc[clusters["mutation_id"].isin(clone_muts)]'},
    {"name": "N2-clustered-seen-not-updated", "kind": "break", "rule": "N2", "file": _P, "old": "            clone_muts.update(muts_set)\n", "new": ""},
    {"name": "N2-clustered-fill-in-named-root", "kind": "break", "rule": "N2", "file": _P, "old": 'missing_muts_df["clone_id"] = outlier_node_name', "new": 'missing_muts_df["clone_id"] = tree.root_node_name'},
    {"name": "N2-clustered-grouped-by-mutation", "kind": "break", "rule": "N2", "file": _P, "old": 'clusters.groupby("cluster_id")', "new": 'clusters.groupby("mutation_id")'},
    {"name": "N2-clustered-fill-in-not-appended", "kind": "break", "rule": "N2", "file": _P, "old": '        df_records_list.extend(missing_muts_df.to_dict("records"))\n', "new": ""},
    {"name": "N2-clustered-first-mutation-only", "kind": "break", "rule": "N2", "file": _P, "old": "for mut in muts_set\n", "new": "for mut in muts_set[:1]\n"},
    {"name": "N2-clustered-clone-of-cluster-id", "kind": "break", "rule": "N2", "file": _P, "old": "            clone_id = tree_labels[idx]\n", "new": "            clone_id = tree_labels.get(cluster_id, outlier_node_name)\n"},
    {"name": "benign-N2-records-by-comprehension", "kind": "benign", "file": _P, "old": _FLAT_LOOP, "new": '        df_records_list.extend([{"mutation_id": data[idx].name, "clone_id": tree_labels[idx]} for idx in tree_labels])\n        for idx in tree_labels:\n            clone_muts.add(data[idx].name)\n'},
    {"name": "benign-N2-hoisted-name", "kind": "benign", "file": _P, "old": _FLAT_LOOP, "new": '        for idx in tree_labels:\n            mutation = data[idx].name\n            record = {"clone_id": tree_labels[idx], "mutation_id": mutation}\n            df_records_list.append(record)\n            clone_muts.add(mutation)\n'},
    {"name": "benign-N2-clustered-loop-append", "kind": "benign", "file": _P, "old": '            curr_muts_records = [\n                {"mutation_id": mut, "clone_id": clone_id, "cluster_id": cluster_id} for mut in muts_set\n            ]\n\n            clone_muts.update(muts_set)\n\n            df_records_list.extend(curr_muts_records)\n', "new": '            for mut in muts_set:\n                df_records_list.append({"mutation_id": mut, "clone_id": clone_id, "cluster_id": cluster_id})\n            clone_muts.update(muts_set)\n'},
    # ---- N3 / N4
    {"name": "N3-explode-dropped", "kind": "break", "rule": "N3", "file": _P, "old": '    labels = labels.explode("sample_id")\n', "new": ""},
    {"name": "N3-first-sample-only", "kind": "break", "rule": "N3", "file": _P, "old": "[samples] * len(labels)", "new": "[samples[:1]] * len(labels)"},
    {"name": "N3-grouped-before-explode", "kind": "break", "rule": "N3", "file": _P, "old": '    labels = labels.explode("sample_id")\n    grouped = labels.groupby(["clone_id", "sample_id"])\n', "new": '    grouped = labels.groupby(["clone_id", "sample_id"])\n    labels = labels.explode("sample_id")\n'},
    {"name": "N4-ccf-from-prevalence", "kind": "break", "rule": "N4", "file": _P, "old": 'group["ccf"] = ccfs[clone_id][samples_idx_dict[sample_id]]', "new": 'group["ccf"] = clonal_prev_dict[clone_id][samples_idx_dict[sample_id]]'},
    {"name": "N4-positions-off-by-one", "kind": "break", "rule": "N4", "file": _P, "old": "{k: v for v, k in enumerate(samples)}", "new": "{k: v for v, k in enumerate(samples, 1)}"},
    {"name": "N4-outlier-ccf-zero", "kind": "break", "rule": "N4", "file": _P, "old": '            group["ccf"] = -1\n', "new": '            group["ccf"] = 0\n'},
    {"name": "N4-dictionaries-swapped", "kind": "break", "rule": "N4", "file": _P, "old": "    ccfs, clonal_prev_dict = get_map_node_ccfs_and_clonal_prev_dicts(tree)", "new": "    clonal_prev_dict, ccfs = get_map_node_ccfs_and_clonal_prev_dicts(tree)"},
    {"name": "N4-first-sample-for-all", "kind": "break", "rule": "N4", "file": _P, "old": 'group["clonal_prev"] = clonal_prev_dict[clone_id][samples_idx_dict[sample_id]]', "new": 'group["clonal_prev"] = clonal_prev_dict[clone_id][0]'},
    {"name": "benign-N4-negated-test", "kind": "benign", "file": _P, "old": '        if clone_id in ccfs:\n            group["ccf"] = ccfs[clone_id][samples_idx_dict[sample_id]]\n            group["clonal_prev"] = clonal_prev_dict[clone_id][samples_idx_dict[sample_id]]\n        else:\n            group["ccf"] = -1\n            group["clonal_prev"] = -1\n', "new": '        if clone_id not in ccfs:\n            group["clonal_prev"] = -1\n            group["ccf"] = -1\n        else:\n            col = samples_idx_dict[sample_id]\n            group["ccf"] = ccfs[clone_id][col]\n            group["clonal_prev"] = clonal_prev_dict[clone_id][col]\n'},
    {"name": "benign-N3-print", "kind": "benign", "file": _P, "old": '    labels = labels.explode("sample_id")\n', "new": '    labels = labels.explode("sample_id")\n    print("rows:", len(labels))\n'},
    # ---- N5
    {"name": "N5-built-at-discovery", "kind": "break", "rule": "N5", "file": _V, "old": "    def finish_vertex(self, v, t):\n        node_idx = self.node_indices_rev[v]\n\n        if node_idx in self.parents:", "new": "    def discover_vertex(self, v, t):\n        node_idx = self.node_indices_rev[v]\n\n        if node_idx in self.parents:"},
    {"name": "N5-no-terminator", "kind": "break", "rule": "N5", "file": _V, "old": 'self.final_string = curr_node_string + ";"', "new": "self.final_string = curr_node_string"},
    {"name": "N5-children-joined-by-semicolon", "kind": "break", "rule": "N5", "file": _V, "old": '",".join(curr_list)', "new": '";".join(curr_list)'},
    {"name": "N5-edge-direction-swapped", "kind": "break", "rule": "N5", "file": _V, "old": "        self.child_parent_mapping[child_idx] = parent_idx\n        self.parents.add(parent_idx)", "new": "        self.child_parent_mapping[parent_idx] = child_idx\n        self.parents.add(parent_idx)"},
    {"name": "N5-children-marked-as-parents", "kind": "break", "rule": "N5", "file": _V, "old": "        self.parents.add(parent_idx)", "new": "        self.parents.add(child_idx)"},
    {"name": "N5-inner-name-dropped", "kind": "break", "rule": "N5", "file": _V, "old": '"({child_strings}){node_idx}".format(', "new": '"({child_strings})".format('},
    {"name": "N5-appended-to-own-list", "kind": "break", "rule": "N5", "file": _V, "old": "self.dict_of_lists[parent_idx].append(curr_node_string)", "new": "self.dict_of_lists[node_idx].append(curr_node_string)"},
    {"name": "N5-children-of-the-parent", "kind": "break", "rule": "N5", "file": _V, "old": "            curr_list = self.dict_of_lists[node_idx]\n            child_strings", "new": "            curr_list = self.dict_of_lists[v]\n            child_strings"},
    {"name": "N5-search-on-rootless-copy", "kind": "break", "rule": "N5", "file": _T, "old": "        visitor = GraphToNewickVisitor(self)\n        root_idx = self._node_indices[self._ROOT_NODE_NAME]\n        rx.dfs_search(self._graph, [root_idx], visitor)", "new": "        visitor = GraphToNewickVisitor(self)\n        root_idx = self._node_indices[self._ROOT_NODE_NAME]\n        rx.dfs_search(self.graph, [root_idx], visitor)"},
    {"name": "N5-names-from-forward-map", "kind": "break", "rule": "N5", "file": _V, "old": "        self.node_indices_rev = tree._node_indices_rev\n        self.final_string = None", "new": "        self.node_indices_rev = tree._node_indices\n        self.final_string = None"},
    {"name": "N5-plain-dict-of-lists", "kind": "break", "rule": "N5", "file": _V, "old": "        self.dict_of_lists = defaultdict(list)\n        self.child_parent_mapping = dict()\n        self.parents = set()\n        self.node_indices_rev = tree._node_indices_rev\n        self.final_string", "new": "        self.dict_of_lists = dict()\n        self.child_parent_mapping = dict()\n        self.parents = set()\n        self.node_indices_rev = tree._node_indices_rev\n        self.final_string"},
    {"name": "benign-N5-f-string", "kind": "benign", "file": _V, "old": 'curr_node_string = "({child_strings}){node_idx}".format(child_strings=child_strings, node_idx=node_idx)', "new": 'curr_node_string = f"({child_strings}){node_idx}"'},
    {"name": "benign-N5-concatenation", "kind": "benign", "file": _V, "old": 'curr_node_string = "({child_strings}){node_idx}".format(child_strings=child_strings, node_idx=node_idx)', "new": 'curr_node_string = "(" + ",".join(self.dict_of_lists[node_idx]) + ")" + str(node_idx)'},
    {"name": "benign-N5-root-arm-first", "kind": "benign", "file": _V, "old": '        if node_idx != self.root_node_name:\n            parent_idx = self.child_parent_mapping[node_idx]\n            self.dict_of_lists[parent_idx].append(curr_node_string)\n        else:\n            self.final_string = curr_node_string + ";"', "new": '        if node_idx == self.root_node_name:\n            self.final_string = curr_node_string + ";"\n        else:\n            self.dict_of_lists[self.child_parent_mapping[node_idx]].append(curr_node_string)'},
    # ---- N6
    {"name": "N6-newick-from-another-entry", "kind": "break", "rule": "N6", "file": _P, "old": _OUT, "new": '    _create_results_output_files(out_table_file, out_tree_file, table, Tree.from_dict(results[0]["trace"][map_iter]["tree"]))\n\n\ndef create_topology_dict_from_trace'},
    {"name": "N6-archive-table-ignores-chain", "kind": "break", "rule": "N6", "file": _P, "old": "                table = get_clone_table(data, samples, tree, clusters=clusters)", "new": '                table = get_clone_table(data, samples, Tree.from_dict(results[0]["trace"][values["iter"]]["tree"]), clusters=clusters)'},
    {"name": "N6-output-paths-swapped", "kind": "break", "rule": "N6", "file": _P, "old": '    table.to_csv(out_table_file, index=False, sep="\\t")\n    print_string_to_file(tree.to_newick_string(), out_tree_file)', "new": '    table.to_csv(out_tree_file, index=False, sep="\\t")\n    print_string_to_file(tree.to_newick_string(), out_table_file)'},
    {"name": "N6-consensus-clusters-dropped", "kind": "break", "rule": "N6", "file": _P, "old": '    table = get_clone_table(data, results[0]["samples"], tree, clusters=clusters)\n\n    table = pd.DataFrame(table)', "new": '    table = get_clone_table(data, results[0]["samples"], tree)\n\n    table = pd.DataFrame(table)'},
    {"name": "N6-archive-table-added-twice", "kind": "break", "rule": "N6", "file": _P, "old": "archive.add(nwk_path, arcname=", "new": "archive.add(filepath, arcname="},
    {"name": "N6-consensus-table-of-pre-update-tree", "kind": "break", "rule": "N6", "file": _P, "old": '    table = get_clone_table(data, results[0]["samples"], tree, clusters=clusters)\n\n    table = pd.DataFrame(table)', "new": '    table = get_clone_table(data, results[0]["samples"], trees[0], clusters=clusters)\n\n    table = pd.DataFrame(table)'},
    {"name": "N6-archive-newick-in-shared-directory", "kind": "break", "rule": "N6", "file": _P, "old": "arcname=str(os.path.join(topology_id, nwk_filename))", "new": 'arcname=str(os.path.join("trees", nwk_filename))'},
    {"name": "benign-N6-helper-inlined", "kind": "benign", "file": _P, "old": _OUT, "new": '    table.to_csv(out_table_file, index=False, sep="\\t")\n    newick = tree.to_newick_string()\n    print_string_to_file(newick, out_tree_file)\n\n\ndef create_topology_dict_from_trace'},
    {"name": "benign-N6-renamed-local", "kind": "benign", "file": _P, "old": "                table = get_clone_table(data, samples, tree, clusters=clusters)\n                filename = filename_template.format(topology_id)\n                filepath = os.path.join(tmp_dir, filename)\n                table.to_csv(filepath, index=False, sep=\"\\t\")", "new": "                clone_table = get_clone_table(data, samples, tree, clusters=clusters)\n                filename = filename_template.format(topology_id)\n                filepath = os.path.join(tmp_dir, filename)\n                clone_table.to_csv(filepath, index=False, sep=\"\\t\")"},
]
