"""C16 — consensus tree contains exactly the clades with majority support.

Only structural premises are claimed (exactness of the clade set is behavioural): support is a
normalised share, the threshold direction and plumbing, nesting by smallest strict superset,
own-mutation subtraction, uncovered data become outliers, and node identity must be injective in the
clade (S6 — fires on the pinned tree: a genuine defect recorded in known_findings.json).
NOT decided: that the retained clades are exactly the majority ones; that find_smallest_superset
never raises; validity of the resulting tree.
"""
import ast

from ..astutil import call_name, calls, kwarg, u
from ..formula import extract, same, same_events, spec
from ..model import AnalysisError
from ..termflow import key_atom, show, vkey

SPEC_CLADE_PROB = """
def s(trees, weighted=False, log_p_list=None):
    counter = defaultdict(float)
    for i, tree in enumerate(trees):
        for clade in get_clades(tree):
            if weighted:
                counter[clade] += log_p_list[i]
            else:
                counter[clade] += 1
    if not weighted:
        for clade in counter:
            counter[clade] = counter[clade] / len(trees)
    return counter
"""

SPEC_SUPERSET = """
def s(set_of_sets, query_set):
    set_of_sets.discard(query_set)
    best_size = float("inf")
    best = None
    for cand in set_of_sets:
        if not cand.issuperset(query_set):
            continue
        n = len(cand)
        if n == best_size:
            raise Exception("Inconsistent set of clades")
        if n < best_size:
            best_size = n
            best = cand
    return best
"""

SPEC_CONSENSUS = """
def s(clades):
    result = nx.DiGraph()
    for clade in clades:
        parent = find_smallest_superset(clades.copy(), clade)
        if parent is not None:
            result.add_edge(parent, clade)
        else:
            result.add_node(clade)
    return result
"""


def rule_S1(ctx):
    prog = ctx.prog
    ctx.rule("S1", "support is a normalised share: +1 per tree containing the clade divided by the number of trees; or the exp-normalised score-weighted share over distinct topologies", 3)
    f = prog.fn("consensus.clade_probabilities")
    ex = extract(prog, f)
    sp = spec(prog, SPEC_CLADE_PROB, f)
    same_events(ctx, "S1", "clade_probabilities: accumulation and normalisation of the counter", f, ex.calls("store_sub"), sp.calls("store_sub"), "counter updates", guards=True)
    same(ctx, "S1", "clade_probabilities returns the counter", f, ex.result, sp.result, "returned counter")
    gc = prog.fn("tree.utils.get_clades")
    exg = extract(prog, gc)
    r = show(exg.result)
    ctx.check(r.startswith("frozenset("), "S1", "get_clades returns a set (a clade counts once per tree)", gc.where(), "get_clades returns %s: a clade could be counted more than once per tree" % r, construct=gc.qualname, stmt="return frozenset(result)")
    w = prog.fn("process_trace.write_consensus_results")
    noin = ["get_consensus_tree", "get_tree_from_consensus_graph", "get_clone_table", "_create_results_output_files", "create_topology_dict_from_trace"]
    ex = extract(prog, w, no_inline=noin)
    sp = spec(prog, """
def s(in_file, out_table_file, out_tree_file, consensus_threshold=0.5, weight_type="joint-likelihood"):
    with gzip.GzipFile(in_file, "rb") as fh:
        results = pickle.load(fh)
    data = results[0]["data"]
    if weight_type == "counts":
        trees = []
        for chain_results in results.values():
            trees.extend([Tree.from_dict(x["tree"]) for x in chain_results["trace"]])
        graph = get_consensus_tree(trees, data=data, threshold=consensus_threshold, weighted=False, log_p_list=[])
    else:
        topologies = create_topology_dict_from_trace(results)
        trees = [t for t, info in topologies.items()]
        scores = np.array([info["log_p_joint_max"] + np.log(info["count"]) for t, info in topologies.items()])
        shares = np.exp(scores - log_sum_exp(scores))
        graph = get_consensus_tree(trees, data=data, threshold=consensus_threshold, weighted=True, log_p_list=shares / shares.sum())
""", w, no_inline=noin)
    same_events(ctx, "S1", "write_consensus_results: trees and (normalised) weights handed to get_consensus_tree in both modes; threshold is the CLI value", w, ex.calls("get_consensus_tree"), sp.calls("get_consensus_tree"), "get_consensus_tree(...) calls", guards=True)
    ctx.analysed(f, gc, w)


def rule_S2(ctx):
    prog = ctx.prog
    ctx.rule("S2", "a clade is kept iff its support exceeds the threshold (direction; strictness is outside the quantifier), and the threshold is the command-line value", 3)
    f = prog.fn("consensus.key_above_threshold")
    ex = extract(prog, f)
    okk = False
    for op in (">", ">="):
        sp = spec(prog, "def s(counter, threshold):\n    return set([key for key, value in counter.items() if value %s threshold])\n" % op, f)
        from ..termflow import equivalent

        eq, _, _ = equivalent(ex.result, sp.result)
        okk = okk or eq
    ctx.check(okk, "S2", "key_above_threshold keeps exactly the keys whose value exceeds the threshold", f.where(), "the retained set is %s" % show(ex.result), construct=f.qualname, stmt="value > threshold")
    g = prog.fn("consensus.get_consensus_tree")
    noin = ["clade_probabilities", "key_above_threshold", "consensus", "relabel", "clean_tree"]
    ex = extract(prog, g, no_inline=noin)
    sp = spec(prog, """
def s(trees, data=None, threshold=0.5, weighted=False, log_p_list=None):
    counter = clade_probabilities(trees, weighted=weighted, log_p_list=log_p_list)
    kept = key_above_threshold(counter, threshold)
    return clean_tree(relabel(consensus(kept)), data=data)
""", g, no_inline=noin)
    same(ctx, "S2", "get_consensus_tree: support -> threshold -> nesting -> relabel -> clean, with the caller's threshold", g, ex.result, sp.result, "pipeline")
    cli = prog.module("phyclone.cli")
    cons = [n for n in cli.tree.body if isinstance(n, ast.FunctionDef) and n.name == "consensus"]
    ok = False
    if cons:
        names = []
        for d in cons[0].decorator_list:
            if isinstance(d, ast.Call) and call_name(d) == "click.option":
                names += [a.value for a in d.args if isinstance(a, ast.Constant) and isinstance(a.value, str) and a.value.startswith("--")]
        w = prog.fn("process_trace.write_consensus_results")
        from ..astutil import cli_forwards

        ok = "--consensus-threshold" in names and "consensus_threshold" in w.params and cli_forwards(cons[0], "--consensus-threshold", "write_consensus_results", w.params, "consensus_threshold")[0]
    if cons:
        okw, whyw = cli_forwards(cons[0], "--weight-type", "write_consensus_results", w.params, "weight_type")
        ctx.check(okw, "S2", "cli.consensus forwards --weight-type to write_consensus_results(weight_type=…)", "phyclone/cli.py:%d" % cons[0].lineno, "the command-line weighting does not reach write_consensus_results (%s)" % whyw, construct="phyclone.cli.consensus", stmt="--weight-type")
    ctx.check(ok, "S2", "cli.consensus forwards --consensus-threshold to write_consensus_results(consensus_threshold=…)", "phyclone/cli.py:%d" % (cons[0].lineno if cons else 0), "the command-line threshold does not reach write_consensus_results", construct="phyclone.cli.consensus", stmt="--consensus-threshold")
    ctx.analysed(f, g)


def rule_S3(ctx):
    prog = ctx.prog
    ctx.rule("S3", "nesting: the query is discarded from its own candidates, only supersets are considered, a strictly smaller one replaces; edge parent -> clade or an isolated node", 3)
    f = prog.fn("consensus.find_smallest_superset")
    ex = extract(prog, f)
    sp = spec(prog, SPEC_SUPERSET, f)
    same(ctx, "S3", "find_smallest_superset", f, ex.result, sp.result, "smallest strict superset")
    same_events(ctx, "S3", "find_smallest_superset discards the query from the candidates", f, ex.calls(".discard"), sp.calls(".discard"), "discard")
    g = prog.fn("consensus.consensus")
    ex = extract(prog, g, no_inline=["find_smallest_superset"])
    sp = spec(prog, SPEC_CONSENSUS, g, no_inline=["find_smallest_superset"])
    same(ctx, "S3", "consensus: one edge (parent clade -> clade) or one isolated node per clade, candidates are a copy of all clades", g, ex.result, sp.result, "nesting graph")
    ctx.analysed(f, g)


def rule_S4(ctx):
    prog = ctx.prog
    ctx.rule("S4", "own mutations = the clade minus the mutations of its child clades; idxs = sorted own mutations", 2)
    f = prog.fn("consensus._relabel")
    ex = extract(prog, f)
    sp = spec(prog, """
def s(node, transformed, original):
    own = set(node)
    for _, child in original.out_edges(node):
        for mutation in child:
            own.remove(mutation)
    return frozenset(own)
""", f)
    same(ctx, "S4", "_relabel: exactly the children's mutations are removed from the clade", f, ex.result, sp.result, "own mutations")
    recs = ex.calls("_relabel")
    edges = ex.calls(".add_edge")
    ok = len(recs) >= 2 and len(edges) == len(recs) and all("out_edges(P0)" in show(e.args[0]) and show(e.args[2]) == "P2" for e in recs)
    ctx.check(ok, "S4", "_relabel recurses into every child clade and links it under this node", f.where(), "children are not all relabelled / linked", construct=f.qualname, stmt="recursion over out_edges")
    # clean_tree (idxs = sorted own mutations of the relabelled nodes, names from the data) is compared with its
    # reference semantics by TS below: effects and returned graph, whatever the spelling of the loops
    ctx.analysed(f)


def rule_S5(ctx):
    prog = ctx.prog
    ctx.rule("S5", "every data point without a label becomes an outlier; parentless nodes hang off the virtual root; the tree is refreshed", 3)
    f = prog.fn("process_trace.get_tree_from_consensus_graph")
    ex = extract(prog, f, no_inline=["from_dict_nx"])
    sp = spec(prog, """
def s(data, graph):
    labels = {}
    tmp = Tree(data[0].grid_size)
    for node in graph.nodes:
        for idx in graph.nodes[node]["idxs"]:
            labels[idx] = node
    for x in data:
        if x.idx not in labels:
            labels[x.idx] = tmp.outlier_node_name
""", f, no_inline=["from_dict_nx"])
    gl = [e for e in ex.events if e.name == "store_sub"]
    sl = [e for e in sp.events if e.name == "store_sub"]
    from ..termflow import ADict as _AD

    if len(gl) != len(sl) and gl and isinstance(gl[0].args[0], _AD) and gl[0].args[0].items and gl[0].args[0].doms:
        # the mapping is built whole (a comprehension over the nodes) and only completed by stores: the obligation below
        # compares store by store and has no counterpart for entries that were never stored
        raise AnalysisError("S5 / get_tree_from_consensus_graph: the label mapping is built whole by a comprehension (%d stores against %d in the reference): cannot compare store by store" % (len(gl), len(sl)))
    same_events(ctx, "S5", "get_tree_from_consensus_graph: labels from the nodes' idxs, every uncovered data point labelled as outlier", f, gl, sl, "labels[...] stores")
    spg = spec(prog, """
def s(data, graph):
    tmp = Tree(data[0].grid_size)
    graph = graph.copy()
    for node in list(graph.nodes):
        if len(list(graph.predecessors(node))) == 0:
            graph.add_edge(tmp.root_node_name, node)
    return nx.to_dict_of_dicts(graph)
""", f, no_inline=["from_dict_nx"])
    same_events(ctx, "S5", "get_tree_from_consensus_graph: exactly the parentless nodes are attached under the virtual root", f, ex.calls("networkx.to_dict_of_dicts"), spg.calls("networkx.to_dict_of_dicts"), "graph handed to the tree builder")
    edges = ex.calls(".add_edge")
    ok = len(edges) >= 2 and all("root_node_name" in show(e.args[0]) for e in edges) and all(any("predecessors" in show(g) or "in_degree" in show(g) for g in e.guards) for e in edges)
    ctx.check(ok, "S5", "get_tree_from_consensus_graph: every parentless node is attached under the virtual root", f.where(), "parentless nodes are not (all) attached to the virtual root", construct=f.qualname, stmt="graph.add_edge(root, node)")
    rets = [n for n in ast.walk(f.node) if isinstance(n, ast.Return)]
    upd = [c for c in calls(f.node, last="update")]
    fd = calls(f.node, name="from_dict_nx")
    ok = len(fd) == 1 and len(rets) == 1 and bool(upd) and upd[-1].lineno > fd[0].lineno and upd[-1].lineno < rets[0].lineno
    nx_fn = prog.fn("process_trace.from_dict_nx")
    ok2 = any(True for c in calls(nx_fn.node, last="update"))
    ctx.check(ok or ok2, "S5", "the consensus tree is refreshed (update()) after it is assembled", f.where(), "the assembled tree is returned without update()", construct=f.qualname, stmt="tree.update()")
    ctx.analysed(f, nx_fn)


def rule_S6(ctx):
    """Nodes of a graph built by mapping another graph's nodes must be keyed injectively in the source node."""
    prog = ctx.prog
    ctx.rule("S6", "node identity of the relabelled consensus graph is injective in the clade", 1)
    f = prog.fn("consensus._relabel")
    ex = extract(prog, f)
    adds = ex.calls(".add_node")
    if len(adds) != 1:
        raise AnalysisError("S6: expected one add_node in _relabel, found %d" % len(adds))
    key = adds[0].args[0]
    txt = show(key)
    # injective forms: the clade itself, or a tuple / frozenset that contains the clade unchanged;
    # a key computed from the clade by *removing* elements is not (two clades can have the same remainder)
    from ..termflow import ATuple, Poly

    injective = False
    if isinstance(key, Poly) and key.as_atom() == ("v", "P0"):
        injective = True
    if isinstance(key, ATuple) and any(isinstance(i, Poly) and i.as_atom() == ("v", "P0") for i in key.items):
        injective = True
    lossy = "«remove(" in txt or "difference" in txt or " - " in txt
    node = adds[0].node
    ctx.check(injective and not lossy, "S6", "_relabel: the node key handed to transformed.add_node is an injective function of the clade", f.where(node),
              "nodes of the relabelled graph are keyed by the own-mutation set %s, obtained from the clade by removing its children's mutations; two clades with no own mutations (or equal remainders) collapse into one node, so majority clades are merged and the result is no longer the set of majority clades" % txt[:160],
              construct=f.qualname, stmt="node key of the relabelled graph")
    ctx.analysed(f)


def run(ctx):
    ctx.assume("networkx DiGraph.add_node / add_edge identify nodes by equality of the key")
    ctx.soft(rule_S1)
    ctx.soft(rule_S2)
    ctx.soft(rule_S3)
    ctx.soft(rule_S4)
    ctx.soft(rule_S5)
    ctx.soft(rule_S6)
    # the clade sets that are counted: tree.utils.get_clades / _clades against the reference semantics
    from ._treespec import rule_TS

    n = ctx.soft(rule_TS, owners=["tree.utils", "process_trace.consensus", "process_trace.process_trace"])
    ctx.rule_min["TS"] = 6
    # weighted support is built from the unique-topology dictionary: each topology's count and best score must be
    # what the trace says (same rule objects as C11.A2), keyed by Tree equality (C03.I1 / I2)
    from ..formula import imported
    from . import C03, C11

    ctx._own_rules = set(ctx.rule_min)
    imported(ctx, C11.rule_A2)
    imported(ctx, C03.rule_I1)
    imported(ctx, C03.rule_I2)
    # "every data point not covered by a retained clade is reported with clone id -1": the tables the command writes
    # (same rule objects as C12.N2 - N4)
    from . import C12

    imported(ctx, C12.rule_N2)
    imported(ctx, C12.rule_N3_N4)


_C = "phyclone/process_trace/consensus.py"
_P = "phyclone/process_trace/process_trace.py"
SELFTEST = [
    {"name": "benign-S1-weight-through-one-of-two-local-functions", "kind": "benign", "file": _C, "old": "    for i, tree in enumerate(trees):\n        tree_clades = get_clades(tree)\n        for clade in tree_clades:\n            if weighted:\n                clades_counter[clade] += log_p_list[i]\n\n            else:\n                clades_counter[clade] += 1\n", "new": "    if weighted:\n\n        def tree_weight(tree_idx):\n            return log_p_list[tree_idx]\n\n    else:\n\n        def tree_weight(tree_idx):\n            return 1\n\n    for i, tree in enumerate(trees):\n        for clade in get_clades(tree):\n            clades_counter[clade] += tree_weight(i)\n"},
    {"name": "S1-local-weight-functions-swapped", "kind": "break", "rule": "S1", "file": _C, "old": "    for i, tree in enumerate(trees):\n        tree_clades = get_clades(tree)\n        for clade in tree_clades:\n            if weighted:\n                clades_counter[clade] += log_p_list[i]\n\n            else:\n                clades_counter[clade] += 1\n", "new": "    if weighted:\n\n        def tree_weight(tree_idx):\n            return 1\n\n    else:\n\n        def tree_weight(tree_idx):\n            return log_p_list[tree_idx]\n\n    for i, tree in enumerate(trees):\n        for clade in get_clades(tree):\n            clades_counter[clade] += tree_weight(i)\n"},
    {"name": "benign-cli-consensus-explicit-parameters", "kind": "benign", "file": "phyclone/cli.py", "old": "def consensus(**kwargs):\n    \"\"\"Build consensus results.\"\"\"\n    write_consensus_results(**kwargs)\n", "new": "def consensus(in_file, out_table_file, out_tree_file, consensus_threshold, weight_type):\n    \"\"\"Build consensus results.\"\"\"\n    write_consensus_results(in_file, out_table_file, out_tree_file, consensus_threshold=consensus_threshold, weight_type=weight_type)\n"},
    {"name": "S2-cli-consensus-explicit-drops-weight-type", "kind": "break", "rule": "S2", "file": "phyclone/cli.py", "old": "def consensus(**kwargs):\n    \"\"\"Build consensus results.\"\"\"\n    write_consensus_results(**kwargs)\n", "new": "def consensus(in_file, out_table_file, out_tree_file, consensus_threshold, weight_type):\n    \"\"\"Build consensus results.\"\"\"\n    write_consensus_results(in_file, out_table_file, out_tree_file, consensus_threshold=consensus_threshold)\n"},
    {"name": "S2-cli-consensus-threshold-swapped-with-weight", "kind": "break", "rule": "S2", "file": "phyclone/cli.py", "old": "def consensus(**kwargs):\n    \"\"\"Build consensus results.\"\"\"\n    write_consensus_results(**kwargs)\n", "new": "def consensus(in_file, out_table_file, out_tree_file, consensus_threshold, weight_type):\n    \"\"\"Build consensus results.\"\"\"\n    write_consensus_results(in_file, out_table_file, out_tree_file, weight_type, consensus_threshold)\n"},
    {"name": "S1-no-division", "kind": "break", "rule": "S1", "file": _C, "old": "            clades_counter[clade] = clades_counter[clade] / len(trees)", "new": "            clades_counter[clade] = clades_counter[clade]"},
    {"name": "S1-divide-by-clades", "kind": "break", "rule": "S1", "file": _C, "old": "            clades_counter[clade] = clades_counter[clade] / len(trees)", "new": "            clades_counter[clade] = clades_counter[clade] / len(clades_counter)"},
    {"name": "S1-weights-of-wrong-tree", "kind": "break", "rule": "S1", "file": _C, "old": "                clades_counter[clade] += log_p_list[i]", "new": "                clades_counter[clade] += log_p_list[0]"},
    {"name": "S1-weights-not-normalised", "kind": "break", "rule": "S1", "file": _P, "old": "        probs = np.array(probs)\n        probs, _ = exp_normalize(probs)", "new": "        probs = np.exp(np.array(probs))"},
    {"name": "S1-weights-ignore-count", "kind": "break", "rule": "S1", "file": _P, "old": "            probs.append(top_info[\"log_p_joint_max\"] + np.log(top_info[\"count\"]))", "new": "            probs.append(top_info[\"log_p_joint_max\"])"},
    {"name": "S1-counts-mode-skips-first-entry", "kind": "break", "rule": "S1", "file": _P, "old": "            trees.extend([Tree.from_dict(x[\"tree\"]) for x in chain_results[\"trace\"]])", "new": "            trees.extend([Tree.from_dict(x[\"tree\"]) for x in chain_results[\"trace\"][1:]])"},
    {"name": "S2-threshold-direction", "kind": "break", "rule": "S2", "file": _C, "old": "if value > threshold])", "new": "if value < threshold])"},
    {"name": "S2-threshold-ignored", "kind": "break", "rule": "S2", "file": _C, "old": "    consensus_clades = key_above_threshold(clades_counter, threshold)", "new": "    consensus_clades = key_above_threshold(clades_counter, 0.5)"},
    {"name": "S2-threshold-not-forwarded", "kind": "break", "rule": ["S1", "S2"], "file": _P, "old": "        threshold=consensus_threshold,\n", "new": ""},
    {"name": "S3-query-not-discarded", "kind": "break", "rule": "S3", "file": _C, "old": "    set_of_sets.discard(query_set)\n", "new": ""},
    {"name": "S3-largest-superset", "kind": "break", "rule": "S3", "file": _C, "old": "        if candidate_superset_size < smallest_superset_size:", "new": "        if candidate_superset_size > smallest_superset_size or smallest_superset is None:"},
    {"name": "S3-subset-not-superset", "kind": "break", "rule": "S3", "file": _C, "old": "        if not candidate_superset.issuperset(query_set):", "new": "        if not candidate_superset.issubset(query_set):"},
    {"name": "S3-edge-reversed", "kind": "break", "rule": "S3", "file": _C, "old": "            result.add_edge(parent_clade, clade)", "new": "            result.add_edge(clade, parent_clade)"},
    {"name": "S3-orphans-dropped", "kind": "break", "rule": "S3", "file": _C, "old": "        else:\n            result.add_node(clade)\n\n    return result", "new": "    return result"},
    {"name": "S4-children-not-subtracted", "kind": "break", "rule": "S4", "file": _C, "old": "        for mutation in children:\n            result.remove(mutation)\n", "new": "        pass\n"},
    {"name": "S4-idxs-unsorted-full-clade", "kind": "break", "rule": "S4", "file": _C, "old": "        idx_map[node] = sorted(data_points)", "new": "        idx_map[node] = list(range(len(data_points)))"},
    {"name": "S5-uncovered-data-dropped", "kind": "break", "rule": "S5", "file": _P, "old": "    for x in data:\n        if x.idx not in labels:\n            labels[x.idx] = outlier_node_name\n", "new": ""},
    {"name": "S5-orphans-not-rooted", "kind": "break", "rule": "S5", "file": _P, "old": "        if len(list(graph.predecessors(node))) == 0:\n            graph.add_edge(root_node_name, node)", "new": "        if len(list(graph.predecessors(node))) == 1:\n            graph.add_edge(root_node_name, node)"},
    {"name": "benign-comprehension-threshold", "kind": "benign", "file": _C, "old": "    return set([key for key, value in counter.items() if value > threshold])", "new": "    kept = set()\n    for k, v in counter.items():\n        if threshold < v:\n            kept.add(k)\n    return kept"},
    {"name": "benign-rename-superset-locals", "kind": "benign", "file": _C, "old": "        candidate_superset_size = len(candidate_superset)\n\n        if candidate_superset_size == smallest_superset_size:\n            raise Exception(\"Inconsistent set of clades\")\n\n        if candidate_superset_size < smallest_superset_size:\n            smallest_superset_size = candidate_superset_size", "new": "        size = len(candidate_superset)\n\n        if size == smallest_superset_size:\n            raise Exception(\"Inconsistent set of clades\")\n\n        if smallest_superset_size > size:\n            smallest_superset_size = size"},
    {"name": "benign-division-as-multiply", "kind": "benign", "file": _C, "old": "            clades_counter[clade] = clades_counter[clade] / len(trees)", "new": "            clades_counter[clade] = (1 / len(trees)) * clades_counter[clade]"},
    {"name": "benign-threshold-greater-equal", "kind": "benign", "file": _C, "old": "if value > threshold])", "new": "if value >= threshold])"},
    {"name": "TS-relabel-skips-roots", "kind": "break", "rule": "TS", "file": "phyclone/process_trace/consensus.py", "old": "    for root in roots(graph):\n        _relabel(root, result, graph)\n", "new": "    for root in roots(graph)[1:]:\n        _relabel(root, result, graph)\n"},
    {"name": "TS-roots-are-non-roots", "kind": "break", "rule": "TS", "file": "phyclone/process_trace/consensus.py", "old": "if len(graph.in_edges(n)) == 0]", "new": "if len(graph.in_edges(n)) != 0]"},
    {"name": "TS-idxs-not-attached", "kind": "break", "rule": ["TS", "S4"], "file": "phyclone/process_trace/consensus.py", "old": "    nx.set_node_attributes(new_tree, name=\"idxs\", values=idx_map)\n", "new": ""},
    {"name": "TS-consensus-tree-without-edges", "kind": "break", "rule": "TS", "file": "phyclone/process_trace/process_trace.py", "old": "            new._graph.add_edge(parent_idx, child_idx, None)\n", "new": "            pass\n"},
    {"name": "TS-consensus-tree-without-data", "kind": "break", "rule": "TS", "file": "phyclone/process_trace/process_trace.py", "old": "        new._internal_add_data_point_to_node(True, data[idx], node)\n", "new": "        pass\n"},
    {"name": "S1-modes-swapped", "kind": "break", "rule": "S1", "file": "phyclone/process_trace/process_trace.py", "old": "    if weight_type == \"counts\":\n        weighted_consensus = False", "new": "    if weight_type != \"counts\":\n        weighted_consensus = False"},
    {"name": "S1-normalise-in-weighted-mode-only-flipped", "kind": "break", "rule": "S1", "file": "phyclone/process_trace/consensus.py", "old": "    if not weighted:\n        for clade in clades_counter:", "new": "    if weighted:\n        for clade in clades_counter:"},
]
