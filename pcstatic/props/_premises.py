"""Shared premises: rules that belong to one property and are necessary conditions of others.

A change that breaks several properties must be reported by the check of each of them.  The helpers below run a
sibling's rule objects inside the importing check (under the sibling's rule ids, `formula.imported`): if the
sibling's analysis cannot proceed on a tree that is the sibling check's ANALYSIS-ERROR, recorded here as a note.
"""
from ..formula import imported
from ..model import AnalysisError


def _own(ctx):
    if getattr(ctx, "_own_rules", None) is None:
        ctx._own_rules = set(ctx.rule_min)


def tree_editor(ctx, owners=("tree.Tree", "tree_node.TreeNode")):
    """Every tree query / edit does what the reference semantics says (TS)."""
    from ._treespec import rule_TS

    if "TS" in ctx.rule_min:
        return
    _own(ctx)
    imported(ctx, rule_TS, list(owners))


def density(ctx):
    """log_p / log_p_one are the specified FS-CRP joint densities, the fused form equals the separate ones (C03.T1-T3)."""
    from . import C03

    _own(ctx)
    for r in (C03.rule_T1, C03.rule_T2, C03.rule_T3):
        imported(ctx, r)


def refresh(ctx):
    """Every edit refreshes the cached likelihoods it invalidates (C06.M1 / M2)."""
    from ..effects import TreeFx
    from . import C06

    _own(ctx)
    fx = TreeFx(ctx.prog)
    imported(ctx, C06.rule_M1, fx)
    try:
        summary = C06.payload_summary(ctx)
        imported(ctx, C06.rule_M2, fx, summary)
    except AnalysisError as e:
        ctx.note("imported premise C06.M2 not analysable on this tree: %s" % str(e)[:200])


def deep_copies(ctx):
    """Copies / dictionary forms / restored trees share nothing mutable with their source (C06.M4)."""
    from ..effects import TreeFx
    from . import C06

    _own(ctx)
    imported(ctx, C06.rule_M4, TreeFx(ctx.prog))


def caches(ctx):
    """Memoised recursion results equal the unmemoised computation: keys cover the arrays with multiplicity, the
    body is order-insensitive where the key is, nothing writes through a cached value (C14.K2-K4)."""
    from . import C14

    _own(ctx)
    for r in (C14.rule_K2, C14.rule_K3, C14.rule_K4, C14.rule_K6):
        imported(ctx, r)
    # a hand-rolled memo table (module-level dict a function fills and reads back) keyed on fewer inputs than the
    # function has serves a later call the earlier result (C14.K7)
    if "K7" not in ctx.rule_min:
        imported(ctx, C14.rule_K7)
    # and a function memoised after the rules were written keys on what its body reads (an object argument is keyed by
    # its class's __eq__ / __hash__: a data point by its name, not by its grid) - C14.K1
    if "K1" not in ctx.rule_min:
        imported(ctx, C14.rule_K1)


def no_call_state(ctx):
    """Nothing survives from one call to the next through a mutable default argument or a hand-rolled memo table keyed on
    less than the function reads (C14.K7 / K8)."""
    from . import C14

    _own(ctx)
    for rid, r in (("K7", C14.rule_K7), ("K8", C14.rule_K8)):
        if rid not in ctx.rule_min:
            imported(ctx, r)


def proposal_chains(ctx):
    """Every proposal's threshold chain covers the unit interval in every state and log_p mirrors it (C08.B/S/F)."""
    from . import C08

    _own(ctx)
    for r in (C08.rule_B, C08.rule_S, C08.rule_F):
        imported(ctx, r)


def linear_use(ctx):
    """No move loses or duplicates a data point (C07.L1)."""
    from ..effects import TreeFx
    from . import C07

    _own(ctx)
    imported(ctx, C07.rule_L1, TreeFx(ctx.prog))


# ---------------------------------------------------------------------------------------------------------------
OUTLIER = ("g", "Tree.OUTLIER_NODE")


def tree_vocabulary(atom):
    """Normal form of the tree editor's synonyms (each justified by the reference semantics TS decides):
    add_data_point_to_outliers(x) is add_data_point_to_node(x, <outlier node>), remove_data_point_from_outliers(x) is
    remove_data_point_from_node(x, <outlier node>), and `.outlier_node_name` of any tree is that one reserved name."""
    from ..termflow import Poly

    if atom[0] == "attr" and atom[2] in ("outlier_node_name", "_OUTLIER_NODE_NAME"):
        return OUTLIER
    if atom[0] in ("upd", "mcall") and atom[1] in ("add_data_point_to_outliers", "remove_data_point_from_outliers") and len(atom[3]) == 1 and not atom[4]:
        name = "add_data_point_to_node" if atom[1].startswith("add") else "remove_data_point_from_node"
        return (atom[0], name, atom[2], (atom[3][0], Poly.atom(OUTLIER).key()), ())
    return None


def outliers_last(atom):
    """`t.add_data_point_to_outliers(x)` and `t.add_subtree(s, parent)` touch disjoint parts of the tree (the outlier list /
    the graph, the clones' data and the index maps — decided by the reference semantics, TS): a tree built by the one
    then the other is the tree built the other way round.  Normal form: the outlier additions come last."""
    from ..termflow import key_atom, _is_polykey, Poly

    if atom[0] != "upd" or atom[1] != "add_subtree" or not _is_polykey(atom[2]):
        return None
    inner = key_atom(atom[2])
    if inner is None or inner[0] != "upd" or inner[1] != "add_data_point_to_outliers" or not _is_polykey(inner[2]):
        return None
    moved = ("upd", "add_subtree", inner[2]) + tuple(atom[3:])
    again = outliers_last(moved)
    moved_p = again if isinstance(again, Poly) else Poly.atom(moved if again is None else again)
    return Poly.atom(("upd", "add_data_point_to_outliers", moved_p.key()) + tuple(inner[3:]))
