"""C06 — incrementally maintained likelihoods equal a from-scratch rebuild (structural premises).

Decided here:
  M1  mutate -> refresh on every abstract path of every function that performs a likelihood-affecting
      write on a tree (effect summaries closed over same-class helpers; private helpers that leave the
      refresh to their callers have the obligation lifted to *all* their call sites, program-wide);
  M2  the refresh starts low enough, derived from what the payload method itself adjusts (M3) and from
      which node's child set the structural edit changes;
  M3  TreeNode.add_data_point / add_data_point_list / remove_data_point adjust log_p by +/- the data
      point's grid and keep the membership set in step (the log_r treatment is summarised for M2);
  M4  copies are deep: nothing mutable reachable from the source is stored in the result without a
      copy of sufficient depth; Tree.copy / get_subtree replace every payload; add_subtree grafts a copy.
NOT decided: numerical equality and drift; rustworkx semantics (compose / subgraph / copy are trusted
to do what their documentation says).
"""
import ast

from ..astutil import last_name, u
from ..effects import TreeFx, walk_no_nested, is_copy_of_same_slot, plain_events, PAYLOAD_MUT, GRAPH_MUT
from ..formula import extract, spec
from ..model import AnalysisError
from ..paths import enumerate_paths
from ..termflow import ADict, Poly, equivalent, g_not, key_atom, show, show_key, vkey

TREE = "tree.tree.Tree"
NODE = "tree.tree_node.TreeNode"


# =========================================================================== M1
def rule_M1(ctx, fx):
    prog = ctx.prog
    ctx.rule("M1", "every likelihood-affecting write on a tree is followed, on every path to a normal exit, by _update_path_to_root / update / __init__ of that tree (private helpers: obligation lifted to all call sites)", 16)
    lifted = {}
    for fi in list(prog.functions.values()):
        if fi.cls is fx.payload_cls:
            continue
        fn = fx.fn(fi)
        objs = fn.lw_objects()
        if not objs:
            continue
        me = fx.self_name(fi) if fi.cls is fx.tree_cls else None
        for obj in objs:
            off = fx.offending(fi, obj)
            bad_nodes = {}
            for e, steps, cons in off:
                bad_nodes.setdefault(id(e.node), (e, cons))
            seen = set()
            for e in fn.all_events():
                if e.kind != "LW" or e.obj != obj or id(e.node) in seen:
                    continue
                seen.add(id(e.node))
                inst = "%s: %s [%s]" % (_short(fi), u(e.node)[:90], e.what)
                where = fi.where(e.node)
                if id(e.node) not in bad_nodes:
                    ctx.ok("M1", inst, where, "followed by a refresh of `%s` on every path" % obj)
                    continue
                cons = bad_nodes[id(e.node)][1]
                if me is not None and obj == me and fi.name == "__init__":
                    ctx.ok("M1", inst, where, "constructor: the object under construction is the from-scratch state")
                elif me is not None and obj == me and fi.name.startswith("_") and not fi.name.startswith("__"):
                    lifted.setdefault(fi.qualname, (fi, []))[1].append(cons)
                    ctx.ok("M1", inst, where, "private helper leaves the refresh to its callers%s: obligation lifted to every call site" % (" when " + ", ".join("%s is %s" % (k, "true" if v else "false") for k, v in cons.items()) if cons else ""))
                else:
                    ctx.fail("M1", inst, where, "after this write some path reaches a normal exit without _update_path_to_root(…), update() or __init__ on `%s`: cached log_p/log_r on the path to the root stay stale" % obj, construct=fi.qualname, stmt=u(e.node))
        ctx.analysed(fi)
    # the call sites of the lifted helpers: every one must be a call on a plain name (then it is an LW event of
    # its caller, judged above); a reference that is not a call escapes the analysis
    for q, (fi, conds) in sorted(lifted.items()):
        sites, refs = fx.call_sites(fi.name)
        for cfi, ref in refs:
            raise AnalysisError("M1: %s is referenced without being called in %s (%s); its callers cannot be enumerated" % (fi.qualname, cfi.qualname, u(ref)))
        if not sites:
            ctx.note("M1: %s leaves stale values but has no call site" % q)
        judged = []
        for cfi, c in sites:
            if not isinstance(c.func.value, ast.Name):
                raise AnalysisError("M1: call of %s on a receiver that is not a plain name in %s: %s" % (fi.name, cfi.qualname, u(c)))
            judged.append("%s%s" % (_short(cfi), "" if fx.feasible(fx.dirty(fi), c, fi) else " (constant arguments select the refreshing path)"))
        ctx.note("M1: obligation of %s lifted to: %s" % (_short(fi), "; ".join(judged)))


def _short(fi):
    q = fi.qualname
    return q[len("phyclone."):] if q.startswith("phyclone.") else q


# =========================================================================== M3
SPEC_M3 = {
    "add_data_point": ("""
        def s(self, data_point):
            self.data_points.add(data_point.idx)
            self.log_p = self.log_p + data_point.value
            self.log_r = self.log_r + data_point.value
        """, +1),
    "add_data_point_list": ("""
        def s(self, data_point_list):
            self.data_points.update({dp.idx for dp in data_point_list})
            lp = self.log_p
            lr = self.log_r
            for dp in data_point_list:
                lp = lp + dp.value
                lr = lr + dp.value
            self.log_p = lp
            self.log_r = lr
        """, +1),
    "remove_data_point": ("""
        def s(self, data_point):
            self.data_points.discard(data_point.idx)
            self.log_p = self.log_p - data_point.value
            self.log_r = self.log_r - data_point.value
        """, -1),
}
MEMBER_OPS = {".add": "+", ".update": "+", ".discard": "-", ".remove": "-", ".difference_update": "-"}


def _final_value(fi, ex, attr):
    """Value of self.<attr> when the payload method returns: an explicit store, or an in-place `+=` / `-=`
    through a local bound to `self.<attr>` (numpy arrays are updated in place through the alias)."""
    me = fi.params[0]
    selfkey = vkey(Poly.atom(("v", "P0")))
    stores = [v for (base, a), v in ex.stores(attr).items() if base == selfkey]
    aliases = []
    for n in walk_no_nested(fi.node):
        if isinstance(n, ast.Assign) and len(n.targets) == 1 and isinstance(n.targets[0], ast.Name):
            v = n.value
            if isinstance(v, ast.Attribute) and v.attr == attr and isinstance(v.value, ast.Name) and v.value.id == me:
                aliases.append(n.targets[0].id)
    for n in walk_no_nested(fi.node):
        if isinstance(n, ast.Call):
            outs = [k.value for k in n.keywords if k.arg == "out"] + (n.args[:1] if last_name(n) == "copyto" else [])
            for o in outs:
                if (isinstance(o, ast.Name) and o.id in aliases) or (isinstance(o, ast.Attribute) and o.attr == attr and isinstance(o.value, ast.Name) and o.value.id == me):
                    raise AnalysisError("M3: %s updates self.%s through %s, an in-place primitive the extractor does not model" % (fi.qualname, attr, u(n)[:60]))
    vals = list(stores)
    for name in aliases:
        aug = [n for n in walk_no_nested(fi.node) if isinstance(n, ast.AugAssign) and isinstance(n.target, ast.Name) and n.target.id == name]
        plain = [n for n in walk_no_nested(fi.node) if isinstance(n, ast.Assign) and any(isinstance(t, ast.Name) and t.id == name for t in n.targets)]
        if aug and len(plain) > 1:
            raise AnalysisError("M3: local %s of %s is both rebound and updated in place" % (name, fi.qualname))
        if aug:
            vals.append(ex.local(name))
    if len(vals) > 1:
        raise AnalysisError("M3: %s updates self.%s both by a store and through an alias" % (fi.qualname, attr))
    if not vals:
        # the array handed to a helper that updates it in place (`self._accumulate(self.log_p, xs)`): the interpreter
        # records the content written through the parameter
        want = ("attr", selfkey, attr)
        through = [e for e in ex.events if e.name == "store_content" and len(e.args) == 2 and isinstance(e.args[0], Poly) and e.args[0].as_atom() == want and not e.guards]
        if through:
            return through[-1].args[1]
    return vals[0] if vals else Poly.atom(("attr", selfkey, attr))


def payload_summary(ctx):
    """M3 obligations + the summary M2 consumes: {method: True iff log_r moves with log_p}."""
    prog = ctx.prog
    ctx.rule("M3", "payload add/remove adjust log_p by plus/minus the data point's grid and keep the membership set in step; how log_r is treated is summarised for M2", 6)
    summary = {}
    for name, (src, sign) in SPEC_M3.items():
        fi = prog.fn("TreeNode." + name)
        ex = extract(prog, fi)
        sp = spec(prog, src, fi)
        selfkey = vkey(Poly.atom(("v", "P0")))
        old_r = Poly.atom(("attr", selfkey, "log_r"))
        got_p = _final_value(fi, ex, "log_p")
        got_r = _final_value(fi, ex, "log_r")
        want_p = sp.store("log_p")
        want_r = sp.store("log_r")
        eq, how, _ = equivalent(got_p, want_p)
        ctx.check(eq, "M3", "TreeNode.%s: log_p %s= value" % (name, "+" if sign > 0 else "-"), fi.where(), "log_p after the call is %s, the property needs %s" % (show(got_p), show(want_p)), construct=fi.qualname, stmt="log_p adjustment")
        cons, _, _ = equivalent(got_r, want_r)
        untouched, _, _ = equivalent(got_r, old_r)
        summary[name] = bool(cons)
        ctx.note("M3: TreeNode.%s leaves log_r %s" % (name, "consistent with log_p (refresh may start at the parent)" if cons else ("untouched (refresh must start at the node)" if untouched else "in a state only a refresh from the node itself repairs: " + show(got_r))))
        # membership set
        def member(evs):
            out = []
            for e in evs:
                if e.name in MEMBER_OPS and e.recv is not None and show(e.recv) == "P0.data_points":
                    out.append((MEMBER_OPS[e.name], e.args))
            return out

        g, w = member(ex.events), member(sp.events)
        ok = len(g) == len(w) == 1 and g[0][0] == w[0][0] and len(g[0][1]) == 1 and equivalent(g[0][1][0], w[0][1][0])[0]
        ctx.check(ok, "M3", "TreeNode.%s: membership set updated with the same index" % name, fi.where(), "the data_points set is not updated with exactly the index/indices of the point(s) whose grid is %s" % ("added" if sign > 0 else "removed"), construct=fi.qualname, stmt="data_points membership")
        ctx.analysed(fi)
    return summary


# =========================================================================== M2
OPAQUE_NAV = {"get_parent", "_update_path_to_root", "update", "__init__", "copy"}


class _TermView:
    """Destructuring of TermFlow keys relative to one tree object S (a key)."""

    def __init__(self, S, events):
        self.S = S
        self.idx2name = {}
        for e in events:
            if e.name == "store_sub" and self.is_attr(vkey(e.args[0]), "_node_indices"):
                self.idx2name[vkey(e.args[2])] = vkey(e.args[1])

    def is_attr(self, k, name):
        a = key_atom(k)
        return a is not None and a[0] == "attr" and a[2] == name and a[1] == self.S

    def is_root(self, k):
        a = key_atom(k)
        if a is None:
            return False
        if a[0] == "attr" and a[2] == "_ROOT_NODE_NAME":
            return True
        return a[0] == "const" and a[1] in ("'root'", '"root"')

    def name_of_idx(self, k):
        a = key_atom(k)
        if a is not None and a[0] == "sub" and self.is_attr(a[1], "_node_indices"):
            return a[2]
        return self.idx2name.get(k)

    def canon(self, k):
        """(base key, number of get_parent applications) designating a node name, or None."""
        a = key_atom(k)
        if a is None:
            return (k, 0)  # a compound term (e.g. num_nodes() - 1) names a node by itself
        if a[0] == "attr" and a[2] == "node_id":
            b = key_atom(a[1])
            if b is not None and b[0] == "sub" and self.is_attr(b[1], "_graph"):
                nm = self.name_of_idx(b[2])
                return self.canon(nm) if nm is not None else None
            return None
        if a[0] == "sub" and self.is_attr(a[1], "_node_indices_rev"):
            nm = self.name_of_idx(a[2])
            return self.canon(nm) if nm is not None else None
        if a[0] == "mcall" and a[1] == "get_parent" and a[2] == self.S and len(a[3]) == 1 and not a[4]:
            c = self.canon(a[3][0])
            return None if c is None else (c[0], c[1] + 1)
        return (k, 0)  # any other term (a parameter, a loop element, a guarded alternative) names a node by itself

    def payload_node(self, recv):
        """Name key of the node whose payload `recv` (= S._graph[idx]) is."""
        a = recv.as_atom() if isinstance(recv, Poly) else None
        if a is not None and a[0] == "sub" and self.is_attr(a[1], "_graph"):
            return self.name_of_idx(a[2])
        return None

    def find_index_names(self, k):
        """Every X with S._node_indices[X] occurring anywhere inside key k."""
        out = []

        def rec(x):
            if isinstance(x, tuple):
                if len(x) == 3 and x[0] == "sub" and self.is_attr(x[1], "_node_indices"):
                    if x[2] not in out:
                        out.append(x[2])
                for y in x:
                    rec(y)

        rec(k)
        return out


def _compatible(g1, g2):
    s2 = set(g2)
    return not any(g_not(g) in s2 for g in g1)


def rule_M2(ctx, fx, summary):
    prog = ctx.prog
    ctx.rule("M2", "each path refresh starts low enough: at the node after a payload edit that leaves log_r inconsistent, at the node or its parent otherwise; at the lowest node whose child set a structural edit changed", 8)
    for name, fi in fx.tree_methods.items():
        me = fx.self_name(fi)
        if me is None or fi.name in ("__init__",):
            continue
        fn = fx.fn(fi)
        evs = fn.all_events()
        if not any(e.kind == "LW" and e.obj == me for e in evs):
            continue
        if not any(e.kind == "RF" and e.obj == me for e in evs):
            continue  # no refresh here at all: M1 (lifted helper); its writes are judged where it is inlined
        _m2_method(ctx, prog, fi, summary)
        ctx.analysed(fi)


def _m2_method(ctx, prog, fi, summary):
    ex = extract(prog, fi, opaque_self_methods=OPAQUE_NAV)
    S = vkey(Poly.atom(("v", "P0")))
    events = plain_events(ex.events)  # `self` after an opaque call made for its effect is still `self`
    tv = _TermView(S, events)
    dirty, refresh = [], []
    seen = set()
    composed = False
    for pos, e in enumerate(events):
        nm = e.name[1:] if e.name.startswith(".") else e.name
        on_graph = e.recv is not None and tv.is_attr(vkey(e.recv), "_graph")
        on_self = e.recv is not None and vkey(e.recv) == S
        sig = (e.name, vkey(e.recv) if e.recv is not None else None, tuple(vkey(a) for a in e.args), tuple(e.guards))
        D = None
        if nm in PAYLOAD_MUT and e.recv is not None:
            node = tv.payload_node(e.recv)
            if node is None:
                raise AnalysisError("M2: %s: cannot name the node whose payload is edited by %s" % (fi.qualname, show(e.recv)))
            c = tv.canon(node)
            if c is None:
                raise AnalysisError("M2: %s: unrecognised node designator %s" % (fi.qualname, show_key(node)))
            D = [(c[0], c[1] + 1)] if summary[nm] else [c]
            what = "payload %s on node %s" % (nm, show_key(node))
        elif on_graph and nm in GRAPH_MUT:
            what = "%s(%s)" % (nm, ", ".join(show(a)[:60] for a in e.args))
            if nm in ("add_edge", "remove_edge", "add_child"):
                names = [tv.name_of_idx(vkey(e.args[0]))]
            elif nm == "add_node":
                res = ("mcall", "add_node", vkey(e.recv), tuple(vkey(a) for a in e.args), ())
                names = [tv.idx2name.get(vkey(Poly.atom(res)))]
            elif nm == "compose":
                composed = True
                m = e.args[1] if len(e.args) > 1 else None
                if not isinstance(m, ADict) or m.doms:
                    raise AnalysisError("M2: %s: the node map of compose is not a literal dict" % fi.qualname)
                names = [tv.name_of_idx(vkey(kv[0])) for kv in m.items.values()]
            elif nm == "remove_node_retain_edges":
                if not composed:
                    raise AnalysisError("M2: %s: remove_node_retain_edges outside the compose idiom" % fi.qualname)
                names = []  # removes the dummy root grafted by compose: its parent is the compose key, already dirty
            elif nm in ("remove_nodes_from", "remove_node"):
                tops = tv.find_index_names(vkey(e.args[0]))
                if not tops:
                    raise AnalysisError("M2: %s: cannot name the nodes removed by %s" % (fi.qualname, what))
                names = []
                D = []
                for t in tops:
                    c = tv.canon(t)
                    if c is None:
                        raise AnalysisError("M2: %s: unrecognised node designator %s" % (fi.qualname, show_key(t)))
                    D.append((c[0], c[1] + 1))  # the parent of a removed node loses a child
            else:
                names = None  # only a full refresh covers an edit whose extent is not modelled
                D = "all"
            if D is None:
                D = []
                for n in names:
                    if n is None:
                        raise AnalysisError("M2: %s: cannot name the node whose child set changes in %s" % (fi.qualname, what))
                    c = tv.canon(n)
                    if c is None:
                        raise AnalysisError("M2: %s: unrecognised node designator %s" % (fi.qualname, show_key(n)))
                    D.append(c)
        elif e.name == "store_sub" and tv.is_attr(vkey(e.args[0]), "_graph"):
            n = tv.name_of_idx(vkey(e.args[1]))
            c = tv.canon(n) if n is not None else None
            if c is None:
                raise AnalysisError("M2: %s: cannot name the node whose payload is replaced" % fi.qualname)
            D = [c]
            what = "payload replacement at %s" % show(e.args[1])
        elif on_self and nm == "_update_path_to_root" and len(e.args) == 1:
            c = tv.canon(vkey(e.args[0]))
            refresh.append((pos, e, ("path", c, show(e.args[0]))))
            continue
        elif on_self and nm in ("update", "__init__"):
            refresh.append((pos, e, ("full", None, nm + "()")))
            continue
        if D is None or sig in seen:
            continue
        seen.add(sig)
        dirty.append((pos, e, D, what))
    if not dirty:
        raise AnalysisError("M2: %s writes likelihood-affecting state but no such event was extracted" % fi.qualname)
    if not refresh:
        raise AnalysisError("M2: %s refreshes the tree but no refresh event on `self` was extracted" % fi.qualname)

    def covers(r, d):
        kind, c, _ = r
        if kind == "full":
            return True
        if d == "all":
            return False
        if tv.is_root(d[0]) and d[1] == 0:
            return True
        if c is None:
            return None
        if c[0] == d[0]:
            return d[1] >= c[1]
        if tv.is_root(c[0]):
            return False
        return None

    for pos, e, D, what in dirty:
        inst = "%s: %s" % (_short(fi), what)
        where = fi.where(e.node)
        cands = [(p, r, info) for p, r, info in refresh if p > pos and _compatible(e.guards, r.guards)]
        if not cands:
            ctx.ok("M2", inst, where, "no path refresh follows on these paths (M1 decides whether one must)")
            continue
        ds = D if D != "all" else ["all"]
        verdict, unknown, culprit = True, False, None
        for d in ds:
            stat = [(r, info, covers(info, d)) for p, r, info in cands]
            for r, info, st in stat:
                allowed = set(r.guards) | set(e.guards)
                if any(st2 is True and set(r2.guards) <= allowed for r2, info2, st2 in stat):
                    continue
                if any(st2 is None and set(r2.guards) <= allowed for r2, info2, st2 in stat):
                    unknown = True
                verdict = False
                culprit = (info, d)
        if verdict:
            ctx.ok("M2", inst, where, "refresh starts at %s" % ", ".join(sorted({info[2] for p, r, info in cands})))
        elif unknown:
            raise AnalysisError("M2: %s: cannot relate the refresh start %s to the edited node %s" % (fi.qualname, culprit[0][2], _show_d(culprit[1])))
        else:
            ctx.fail("M2", inst, where, "the refresh starts at %s, which does not recompute %s: its cached log_r (and everything above that depends on it) keeps the value from before the edit" % (culprit[0][2], _show_d(culprit[1])), construct=fi.qualname, stmt="refresh start after " + what.split("(")[0].split(" on ")[0])


def _show_d(d):
    if d == "all":
        return "every node"
    s = show_key(d[0])
    for _ in range(d[1]):
        s = "parent(%s)" % s
    return s


# =========================================================================== M4
INF = 99
# mutable nesting depth of every slot (0 = immutable value); a slot missing here is an analysis error
DEPTH = {
    "Tree": {"grid_size": 0, "_log_prior": 0, "_last_node_added_to": 0, "_data": 2, "_node_indices": 1, "_node_indices_rev": 1, "_graph": 2},
    "TreeNode": {"log_p": 1, "log_r": 1, "node_id": 0, "data_points": 1},
}
FRESH_CTORS = {"defaultdict", "dict", "list", "set", "PyDiGraph", "TreeNode", "Tree", "__new__", "full", "zeros", "empty", "ones"}
SHALLOW_COPY_FUNCS = {"list", "dict", "set", "sorted", "frozenset", "tuple", "array", "asarray_copy", "deque"}
SCALAR_FUNCS = {"str", "int", "float", "len", "bool", "log", "hash", "range"}
FRESH_RESULT_METHODS = {"edge_list", "node_indices", "num_nodes", "items", "keys", "values", "weighted_edge_list"}


class _Alias:
    """Shallowest object shared with the source: (source label, level, required-depth table key)."""

    def __init__(self, fi, self_name, sources, depth):
        self.fi = fi
        self.self_name = self_name
        self.sources = sources  # parameter names whose content is foreign state
        self.depth = depth
        self.defs = {}
        self.loopvars = {}  # name -> (domain expr, 'elem' | 'items-key' | 'items-value' | 'keys')
        for n in walk_no_nested(fi.node):
            if isinstance(n, ast.Assign):
                for t in n.targets:
                    if isinstance(t, ast.Name):
                        self.defs.setdefault(t.id, []).append(n.value)
            elif isinstance(n, ast.For):
                it, mode = n.iter, "elem"
                if isinstance(it, ast.Call) and isinstance(it.func, ast.Attribute) and it.func.attr in ("items", "values", "keys") and not it.args:
                    it, mode = it.func.value, it.func.attr
                tg = n.target
                if mode == "items" and isinstance(tg, ast.Tuple) and len(tg.elts) == 2:
                    for t, md in zip(tg.elts, ("key", "elem")):
                        for x in ast.walk(t):
                            if isinstance(x, ast.Name):
                                self.loopvars[x.id] = (it, md)
                else:
                    for x in ast.walk(tg):
                        if isinstance(x, ast.Name):
                            self.loopvars[x.id] = (it, "key" if mode == "keys" else "elem")

    def shared(self, e, env=None, stack=()):
        """None (nothing mutable shared) or (label, level, attr-or-None)."""
        env = env or {}
        if isinstance(e, ast.Constant):
            return None
        if isinstance(e, (ast.BinOp, ast.UnaryOp, ast.Compare, ast.BoolOp, ast.JoinedStr)):
            return None
        if isinstance(e, ast.Name):
            if e.id in env:
                return env[e.id]
            if e.id == self.self_name:
                return ("self", 0, None)
            if e.id in self.sources:
                return (e.id, 0, None)
            if e.id in self.loopvars and e.id not in self.defs and e.id not in stack:
                dom, md = self.loopvars[e.id]
                if md == "key":
                    return None  # dictionary keys / indices are immutable
                b = self.shared(dom, env, stack + (e.id,))
                return None if b is None else (b[0], b[1] + 1, b[2])
            if e.id in self.defs and e.id not in stack:
                worst = None
                for v in self.defs[e.id]:
                    s = self.shared(v, env, stack + (e.id,))
                    if s is not None and (worst is None or s[1] < worst[1]):
                        worst = s
                return worst
            if e.id in ("cls",):
                return None
            raise AnalysisError("M4: %s: cannot trace local %s" % (self.fi.qualname, e.id))
        if isinstance(e, ast.Attribute):
            if isinstance(e.value, ast.Name) and e.value.id == self.self_name:
                return ("self." + e.attr, 0, e.attr)
            if isinstance(e.value, ast.Name) and e.value.id in ("cls",):
                return None
            raise AnalysisError("M4: %s: unrecognised source expression %s" % (self.fi.qualname, u(e)))
        if isinstance(e, ast.Subscript):
            if isinstance(e.slice, ast.Slice):
                b = self.shared(e.value, env, stack)
                return None if b is None else (b[0], b[1] + 1, b[2])
            b = self.shared(e.value, env, stack)
            if b is None:
                return None
            if b[2] is None and b[1] == 0:
                # an entry of a foreign dict (tree_dict["node_data"]): a source of its own, depth decided by the target
                k = u(e.slice)
                return ("%s[%s]" % (b[0], k), 0, None)
            return (b[0], b[1] + 1, b[2])
        if isinstance(e, (ast.Tuple, ast.List, ast.Set)):
            worst = None
            for x in e.elts:
                s = self.shared(x, env, stack)
                if s is not None and (worst is None or s[1] < worst[1]):
                    worst = s
            return worst
        if isinstance(e, ast.IfExp):
            cands = [self.shared(e.body, env, stack), self.shared(e.orelse, env, stack)]
            cands = [c for c in cands if c is not None]
            return min(cands, key=lambda c: c[1]) if cands else None
        if isinstance(e, (ast.DictComp, ast.ListComp, ast.SetComp, ast.GeneratorExp)):
            env2 = dict(env)
            for g in e.generators:
                it = g.iter
                dom = it
                mode = "elem"
                if isinstance(it, ast.Call) and isinstance(it.func, ast.Attribute) and it.func.attr in ("items", "values", "keys") and not it.args:
                    dom, mode = it.func.value, it.func.attr
                b = self.shared(dom, env2, stack)
                elem = None if b is None else (b[0], b[1] + 1, b[2])
                tg = g.target
                if mode == "items" and isinstance(tg, ast.Tuple) and len(tg.elts) == 2:
                    for t, val in zip(tg.elts, (None, elem)):
                        for nme in ast.walk(t):
                            if isinstance(nme, ast.Name):
                                env2[nme.id] = val
                else:
                    for nme in ast.walk(tg):
                        if isinstance(nme, ast.Name):
                            env2[nme.id] = None if mode == "keys" else elem
            val = e.value if isinstance(e, ast.DictComp) else e.elt
            return self.shared(val, env2, stack)
        if isinstance(e, ast.Dict):
            worst = None
            for x in e.values:
                s = self.shared(x, env, stack)
                if s is not None and (worst is None or s[1] < worst[1]):
                    worst = s
            return worst
        if isinstance(e, ast.Call):
            ln = last_name(e)
            f = e.func
            if isinstance(f, ast.Attribute) and ln in ("copy", "__copy__", "subgraph") and (ln == "subgraph" or not e.args):
                b = self.shared(f.value, env, stack)
                return None if b is None else (b[0], b[1] + 1, b[2])
            if ln in SHALLOW_COPY_FUNCS and len(e.args) >= 1 and isinstance(f, (ast.Name, ast.Attribute)):
                b = self.shared(e.args[0], env, stack)
                return None if b is None else (b[0], b[1] + 1, b[2])
            if isinstance(f, ast.Attribute) and ln == "get" and 1 <= len(e.args) <= 2 and not e.keywords:
                # d.get(k[, default]) shares what d[k] shares, or what the default does
                cands = [self.shared(ast.Subscript(value=f.value, slice=e.args[0], ctx=ast.Load()), env, stack)]
                if len(e.args) == 2:
                    cands.append(self.shared(e.args[1], env, stack))
                cands = [c for c in cands if c is not None]
                return min(cands, key=lambda c: c[1]) if cands else None
            if ln in SCALAR_FUNCS or ln in FRESH_CTORS:
                return None
            if isinstance(f, ast.Attribute) and ln in FRESH_RESULT_METHODS:
                return None
            # a one-expression helper newer than the rules (`self._copy_node_data(self._data)`): what it returns, with
            # its parameters standing for the arguments
            prog = getattr(self, "prog", None)
            h = None
            if prog is not None and not e.keywords and not any(isinstance(a, ast.Starred) for a in e.args):
                if isinstance(f, ast.Attribute) and isinstance(f.value, ast.Name) and f.value.id in (self.self_name, "cls", "self") and self.fi.cls is not None:
                    h = prog.method(self.fi.cls, f.attr)
                elif isinstance(f, ast.Name):
                    h = prog.resolve_function(f.id, self.fi.module)
            if h is not None and prog.is_new_function(h) and len(stack) < 6:
                body = [st for st in h.node.body if not (isinstance(st, ast.Expr) and isinstance(st.value, ast.Constant))]
                params = [a.arg for a in h.node.args.posonlyargs + h.node.args.args]
                if h.cls is not None and "staticmethod" not in h.decorators:
                    params = params[1:]
                if len(body) == 1 and isinstance(body[0], ast.Return) and body[0].value is not None and len(params) == len(e.args):
                    env2 = dict(env or {})
                    for p_, a_ in zip(params, e.args):
                        env2[p_] = self.shared(a_, env, stack)
                    return self.shared(body[0].value, env2, stack + ("<" + h.name + ">",))
            raise AnalysisError("M4: %s: unrecognised source expression %s" % (self.fi.qualname, u(e)))
        raise AnalysisError("M4: %s: unrecognised source expression %s" % (self.fi.qualname, u(e)))

    def need(self, s, target_attr):
        need = 0
        if s[2] is not None:
            if s[2] not in self.depth:
                raise AnalysisError("M4: slot %s has no declared mutability depth" % s[2])
            need = self.depth[s[2]]
        if target_attr is not None:
            if target_attr not in self.depth:
                raise AnalysisError("M4: slot %s has no declared mutability depth" % target_attr)
            need = max(need, self.depth[target_attr]) if s[2] is None else need
        return need


def _result_names(fi, self_name):
    """Locals that hold the object under construction (bound by cls.__new__(cls) or a class call)."""
    out = []
    for n in walk_no_nested(fi.node):
        if isinstance(n, ast.Assign) and len(n.targets) == 1 and isinstance(n.targets[0], ast.Name) and isinstance(n.value, ast.Call):
            ln = last_name(n.value)
            if ln == "__new__" or (ln and ln[:1].isupper() and ln not in ("PyDiGraph",)):
                if n.targets[0].id != self_name and n.targets[0].id not in out:
                    out.append(n.targets[0].id)
    return out


def _payload_loop(fi, R, fn):
    """The For loop that replaces every payload of R's graph by its own copy: iter `<G>.node_indices()`, a direct
    child `G[i] = G[i].copy()` with i the loop target, nothing that can skip it before."""
    for n in walk_no_nested(fi.node):
        if not isinstance(n, ast.For) or not isinstance(n.target, ast.Name):
            continue
        it = n.iter
        if not (isinstance(it, ast.Call) and isinstance(it.func, ast.Attribute) and it.func.attr == "node_indices" and not it.args):
            continue
        if fn.graph_owner(it.func.value) != R:
            continue
        for st in n.body:
            if isinstance(st, ast.Assign) and len(st.targets) == 1 and is_copy_of_same_slot(st.targets[0], st.value):
                t = st.targets[0]
                if fn.graph_owner(t.value) == R and u(t.slice) == n.target.id:
                    return n
            if any(isinstance(x, (ast.Break, ast.Continue, ast.Return, ast.If)) for x in ast.walk(st)):
                break
    return None


def _payload_copy_site(fx, fi, R, fn):
    """The loop itself, or a call `R.helper()` of a Tree method whose body is such a loop over its own graph."""
    loop = _payload_loop(fi, R, fn)
    if loop is not None:
        return loop.iter
    for n in walk_no_nested(fi.node):
        if isinstance(n, ast.Call) and isinstance(n.func, ast.Attribute) and isinstance(n.func.value, ast.Name) and n.func.value.id == R and n.func.attr in fx.tree_methods:
            h = fx.tree_methods[n.func.attr]
            me = fx.self_name(h)
            if me is None:
                continue
            hl = _payload_loop(h, me, fx.fn(h))
            if hl is not None and all(any(s.kind == "iter" and s.node is hl.iter for s in steps) for steps, oc in enumerate_paths(h.node.body) if oc in ("fall", "return")):
                return n
            if hl is None and _replaces_every_payload(fx.prog, h):
                return n
    return None


def _replaces_every_payload(prog, h):
    """Decided on the helper's effects rather than its shape (a comprehension that collects the copies and a second
    loop that stores them, say): for every pseudo-element i of `self._graph.node_indices()` an unconditional store
    `self._graph[i] = self._graph[i].copy()`, and no other store into the graph."""
    from .. import termflow as tf

    try:
        ex = extract(prog, h, copy_is_identity=False)
    except AnalysisError:
        return False
    graph = tf.Poly.atom(("attr", tf.Poly.atom(("v", "P0")).key(), "_graph")).key()
    hits = set()
    for e in ex.events:
        if e.name != "store_sub" or len(e.args) != 3 or vkey(e.args[0]) != graph:
            continue
        idx, val = e.args[1], e.args[2]
        ia = idx.as_atom() if isinstance(idx, tf.Poly) else None
        va = val.as_atom() if isinstance(val, tf.Poly) else None
        if ia is None or ia[0] != "elem" or getattr(e, "full_guards", e.guards):
            return False
        dom = key_atom(ia[1])
        if dom is None or dom[0] != "mcall" or dom[1] != "node_indices" or dom[2] != graph:
            return False
        want = tf.Poly.atom(("sub", graph, idx.key())).key()
        if va is None or va[0] != "mcall" or va[1] not in ("copy", "__copy__") or va[2] != want:
            return False
        hits.add(ia[2])
    return len(hits) == tf.K_ELEMS


def rule_M4(ctx, fx):
    prog = ctx.prog
    ctx.rule("M4", "copies are deep: nothing mutable reachable from the source is stored in the result without a copy of sufficient depth; every payload is replaced by its own copy; add_subtree grafts a copy of the incoming subtree", 22)
    sites = [("TreeNode.__copy__", "TreeNode"), ("Tree.copy", "Tree"), ("Tree.get_subtree", "Tree"), ("Tree.to_dict", "Tree"), ("Tree.from_dict", "Tree")]
    for qn, cname in sites:
        fi = prog.fn(qn)
        depth = DEPTH[cname]
        ci = fi.cls
        for sl in ci.slots or []:
            if sl not in depth:
                raise AnalysisError("M4: slot %s of %s has no declared mutability depth" % (sl, ci.name))
        me = fx.self_name(fi)
        sources = [p for p in fi.params if p not in (me, "cls")]
        al = _Alias(fi, me, sources, depth)
        al.prog = prog
        fn = fx.fn(fi)
        results = _result_names(fi, me)
        n_inst = 0

        def judge(label, node, expr, target_attr, inserted=False, stmt=None):
            s = al.shared(expr)
            inst = "%s: %s" % (_short(fi), label)
            if s is None:
                ctx.ok("M4", inst, fi.where(node), "fresh value")
                return
            lvl = max(s[1], 1) if inserted else s[1]
            need = al.need(s, target_attr)
            if (s[2] == "_graph" or target_attr == "_graph") and lvl == 1 and need == 2:
                return "payloads"
            ctx.check(lvl >= need, "M4", inst, fi.where(node), "%s shares the level-%d object of %s with the source (mutable down to level %d): an edit of one tree shows through in the other" % (u(expr)[:80], lvl, s[0], need), construct=fi.qualname, stmt=stmt or label, detail="shares level %d of %s, mutable depth %d" % (lvl, s[0], need))

        sharing_stmts = []
        for n in walk_no_nested(fi.node):
            if isinstance(n, ast.Assign) and len(n.targets) == 1:
                t = n.targets[0]
                if isinstance(t, ast.Attribute) and isinstance(t.value, ast.Name) and t.value.id in results:
                    n_inst += 1
                    if judge("%s.%s = …" % (t.value.id, t.attr), n, n.value, t.attr, stmt="result." + t.attr) == "payloads":
                        sharing_stmts.append((t.value.id, n))
                elif isinstance(t, ast.Subscript) and isinstance(t.value, ast.Attribute) and isinstance(t.value.value, ast.Name) and t.value.value.id in results:
                    a = t.value.attr
                    if a == "_graph":
                        continue  # payload replacement: judged by the payload loop below
                    n_inst += 1
                    s = al.shared(n.value)
                    inst = "%s: %s.%s[…] = …" % (_short(fi), t.value.value.id, a)
                    if s is None:
                        ctx.ok("M4", inst, fi.where(n), "fresh value")
                    else:
                        if s[2] is None:
                            # `result.slot[k] = <value from a foreign mapping>`: the entry-wise spelling of
                            # result.slot.update({k: <value> ...}) - same obligation, same depth table
                            judge("%s.%s[…] = …" % (t.value.value.id, a), n, n.value, a, inserted=True, stmt="result.%s.update" % a)
                            continue
                        need = al.need(s, None)
                        ctx.check(s[1] >= need, "M4", inst, fi.where(n), "%s shares the level-%d object of %s with the source (mutable down to level %d)" % (u(n.value)[:80], s[1], s[0], need), construct=fi.qualname, stmt="result.%s[…]" % a)
            elif isinstance(n, ast.Call) and isinstance(n.func, ast.Attribute):
                f = n.func
                if f.attr == "update" and len(n.args) == 1 and isinstance(f.value, ast.Attribute) and isinstance(f.value.value, ast.Name) and f.value.value.id in results:
                    n_inst += 1
                    judge("%s.%s.update(…)" % (f.value.value.id, f.value.attr), n, n.args[0], f.value.attr, inserted=True, stmt="result.%s.update" % f.value.attr)
                elif f.attr in ("compose", "add_nodes_from", "add_node") and fn.graph_owner(f.value) in results and n.args:
                    s = al.shared(n.args[0])
                    if s is not None:
                        if s[2] != "_graph" or s[1] != 1:
                            raise AnalysisError("M4: %s: unrecognised graph source in %s" % (fi.qualname, u(n)))
                        sharing_stmts.append((fn.graph_owner(f.value), n))
            elif isinstance(n, ast.Return) and n.value is not None:
                v = n.value
                if isinstance(v, ast.Name) and v.id not in results and v.id in al.defs and len(al.defs[v.id]) == 1 and isinstance(al.defs[v.id][0], ast.Dict):
                    v = al.defs[v.id][0]
                if isinstance(v, ast.Dict):
                    for k, val in zip(v.keys, v.values):
                        n_inst += 1
                        judge("result[%s]" % (u(k) if k is not None else "**"), val, val, None, stmt="result[%s]" % (u(k) if k is not None else "**"))
        # payloads shared through graph.copy() / subgraph / compose must all be replaced by their own copies
        for R, st in sharing_stmts:
            n_inst += 1
            inst = "%s: every payload of %s._graph replaced by its copy after %s" % (_short(fi), R, u(st)[:60])
            site = _payload_copy_site(fx, fi, R, fn)
            ok = site is not None
            why = "the graph of the result shares its TreeNode payloads with the source and no loop over %s._graph.node_indices() replaces each by its own .copy(): log_p / log_r arrays are then shared between the two trees" % R
            if ok:
                # the loop must lie on every path from the sharing statement to a normal exit
                hit = False
                for steps, oc in enumerate_paths(fi.node.body):
                    if oc not in ("fall", "return"):
                        continue
                    idx = [i for i, s in enumerate(steps) if s.kind != "with" and any(x is st for x in walk_no_nested(s.node))]
                    if not idx:
                        continue
                    hit = True
                    if not any((s.node is site) if s.kind == "iter" else (s.kind != "with" and any(x is site for x in walk_no_nested(s.node))) for s in steps[idx[0] + 1:]):
                        ok = False
                        why = "some path from the statement that shares the payloads to a normal exit does not pass the payload-copy loop"
                if not hit:
                    raise AnalysisError("M4: %s: the payload-sharing statement lies on no path" % fi.qualname)
            ctx.check(ok, "M4", inst, fi.where(st), why, construct=fi.qualname, stmt="payload copy loop")
        if n_inst == 0:
            raise AnalysisError("M4: nothing to judge in %s (unrecognised shape)" % fi.qualname)
        ctx.analysed(fi)
    # add_subtree grafts a copy of the incoming subtree (it is grafted repeatedly by its callers)
    fi = prog.fn("Tree.add_subtree")
    ex = extract(prog, fi, opaque_self_methods=OPAQUE_NAV, copy_is_identity=False)
    sub = ("v", "P1")

    def bare(k, inside_copy=False):
        """Does the incoming subtree occur in key k other than as the receiver of .copy()?"""
        if isinstance(k, tuple):
            if len(k) >= 3 and k[0] == "mcall" and k[1] in ("copy", "__copy__") and key_atom(k[2]) == sub:
                return any(bare(x) for x in k[3:])
            if k == sub:
                return True
            return any(bare(x) for x in k)
        return False

    events = plain_events(ex.events)
    comp = [e for e in events if e.name == ".compose"]
    if not comp:
        raise AnalysisError("M4: Tree.add_subtree no longer composes the incoming graph")
    bad = [e for e in events if e.name not in (".copy", ".__copy__") and (any(bare(vkey(a)) for a in e.args) or (e.recv is not None and bare(vkey(e.recv))))]
    ctx.check(not bad, "M4", "tree.tree.Tree.add_subtree: the incoming subtree is copied before it is composed into the tree", fi.where(bad[0].node) if bad else fi.where(), "the caller's subtree object itself (not a copy) reaches %s: its payloads and data lists become shared with this tree, and the callers graft the same subtree repeatedly" % (bad[0].name if bad else ""), construct=fi.qualname, stmt="subtree copied before compose")
    ctx.analysed(fi)


def run(ctx):
    ctx.assume("rustworkx: PyDiGraph.copy() and subgraph() share node payloads; compose(other, node_map) adds other's nodes and one edge per map entry; remove_node_retain_edges reconnects predecessors to successors")
    ctx.assume("numpy `+=` / `-=` on an array bound to a local updates the array in place")
    ctx.assume("a node's log_r is a function of its own log_p and its children's log_r only (TreeNode.update_node_from_child_r_vals; C02)")
    fx = TreeFx(ctx.prog)
    ctx.soft(rule_M1, fx)
    summary = payload_summary(ctx)
    ctx.soft(rule_M2, fx, summary)
    ctx.soft(rule_M4, fx)
    # relabelling is one of the edits of the statement: a clone's data list must stay with the node whose
    # cached vectors were accumulated from it (same rule object as C07.V2)
    from . import C07

    from ..formula import imported
    from ._treespec import rule_TS

    ctx.soft(rule_TS, owners=["tree.Tree", "tree_node.TreeNode", "visitors.PostOrderNodeUpdater", "visitors.PreOrderNodeRelabeller"])
    ctx._own_rules = set(ctx.rule_min)
    imported(ctx, C07.rule_V2)
    # "both joint log-densities equal those of a freshly built tree": evaluating a density hands out the live root
    # vector; a density (or a helper it calls) that writes into it leaves a stale value no edit refreshes (C03.I3)
    from . import C03

    imported(ctx, C03.rule_I3)
    imported(ctx, C07.rule_Q1)  # a caller that is handed the tree's own lists edits the tree behind the refresh discipline's back
    # the incrementally maintained vectors come out of the memoised recursion: a cache that returns another
    # child multiset's result, or whose value was written through, differs from a from-scratch rebuild
    from . import _premises

    _premises.caches(ctx)


# Self-test catalogue: one textual edit each, applied to a scratch copy (see selftest.py).
_T = "phyclone/tree/tree.py"
_N = "phyclone/tree/tree_node.py"
_PT = "phyclone/process_trace/process_trace.py"
SELFTEST = [
    # ---- M1: mutate -> refresh
    {"name": "M1-remove_subtree-no-refresh", "kind": "break", "rule": "M1", "file": _T, "old": "            self._graph.remove_nodes_from(indices_to_remove)\n            self._update_path_to_root(parent_node.node_id)\n", "new": "            self._graph.remove_nodes_from(indices_to_remove)\n"},
    {"name": "M1-from_dict_nx-no-update", "kind": "break", "rule": "M1", "file": _PT, "old": "        new._internal_add_data_point_to_node(True, data[idx], node)\n\n    new.update()\n", "new": "        new._internal_add_data_point_to_node(True, data[idx], node)\n"},
    {"name": "M1-public-add-passes-build_add", "kind": "break", "rule": "M1", "file": _T, "old": "self._internal_add_data_point_to_node(False, data_point, node)", "new": "self._internal_add_data_point_to_node(True, data_point, node)"},
    {"name": "M1-guard-direction", "kind": "break", "rule": "M1", "file": _T, "old": "            if not build_add:\n", "new": "            if build_add:\n"},
    {"name": "M1-refresh-before-children-moved", "kind": "break", "rule": "M1", "edits": [
        {"file": _T, "old": "        self._graph.add_edge(root_idx, node_idx, None)\n\n        for child in children:", "new": "        self._graph.add_edge(root_idx, node_idx, None)\n\n        self._update_path_to_root(node)\n\n        for child in children:"},
        {"file": _T, "old": "        self._last_node_added_to = node\n\n        self._update_path_to_root(node)\n\n        return node", "new": "        self._last_node_added_to = node\n\n        return node"}]},
    {"name": "M1-get_subtree-no-update", "kind": "break", "rule": "M1", "file": _T, "old": "            new._add_node_to_indices(node, node_idx)\n\n        new.update()\n", "new": "            new._add_node_to_indices(node, node_idx)\n"},
    {"name": "M1-single_node_tree-no-update", "kind": "break", "rule": "M1", "file": _T, "old": "        _ = tree._add_list_of_data_points_to_node(data, node)\n\n        tree.update()\n", "new": "        _ = tree._add_list_of_data_points_to_node(data, node)\n"},
    {"name": "M1-early-return-skips-refresh", "kind": "break", "rule": "M1", "file": _T, "old": "            self._graph[node_idx].remove_data_point(data_point)\n\n            self._update_path_to_root(node)", "new": "            self._graph[node_idx].remove_data_point(data_point)\n\n            if len(self._data[node]) == 0:\n                return\n            self._update_path_to_root(node)"},
    # ---- M2: refresh starts low enough
    {"name": "M2-remove-refreshes-from-parent", "kind": "break", "rule": "M2", "file": _T, "old": "            self._graph[node_idx].remove_data_point(data_point)\n\n            self._update_path_to_root(node)", "new": "            self._graph[node_idx].remove_data_point(data_point)\n\n            self._update_path_to_root(self.get_parent(node))"},
    {"name": "M2-create_root-refreshes-root-only", "kind": "break", "rule": "M2", "file": _T, "old": "        self._update_path_to_root(node)\n\n        return node", "new": "        self._update_path_to_root(self._ROOT_NODE_NAME)\n\n        return node"},
    {"name": "M2-add_subtree-refreshes-root-only", "kind": "break", "rule": "M2", "file": _T, "old": "        self._last_node_added_to = subtree._last_node_added_to\n\n        self._update_path_to_root(parent_node.node_id)", "new": "        self._last_node_added_to = subtree._last_node_added_to\n\n        self._update_path_to_root(self._ROOT_NODE_NAME)"},
    {"name": "M2-remove_subtree-refreshes-grandparent", "kind": "break", "rule": "M2", "file": _T, "old": "            parent_idx = self._node_indices[parent]\n            parent_node = self._graph[parent_idx]\n\n            sub_root_idx", "new": "            parent_idx = self._node_indices[self.get_parent(parent)]\n            parent_node = self._graph[parent_idx]\n\n            sub_root_idx"},
    {"name": "M3-add-log_r-wrong-sign", "kind": "break", "rule": "M2", "file": _N, "old": "        self.log_p += data_point.value\n        self.log_r += data_point.value", "new": "        self.log_p += data_point.value\n        self.log_r -= data_point.value"},
    # not breaking: every caller of add_data_point_list refreshes from the node itself or fully (M2 derives this)
    {"name": "benign-add-list-forgets-log_r", "kind": "benign", "file": _N, "old": "            log_p += data_point.value\n            log_r += data_point.value", "new": "            log_p += data_point.value"},
    # ---- M3: payload arithmetic
    {"name": "M3-remove-adds", "kind": "break", "rule": "M3", "file": _N, "old": "        self.log_p -= data_point.value", "new": "        self.log_p += data_point.value"},
    {"name": "M3-remove-keeps-membership", "kind": "break", "rule": "M3", "file": _N, "old": "        self.data_points.discard(dp_idx)", "new": "        self.data_points.add(dp_idx)"},
    {"name": "M3-add-list-rebinds-instead-of-in-place", "kind": "break", "rule": "M3", "file": _N, "old": "            log_p += data_point.value\n            log_r += data_point.value", "new": "            log_p = log_p + data_point.value\n            log_r += data_point.value"},
    # ---- M4: deep copies
    {"name": "M4-copy-payload-not-copied", "kind": "break", "rule": "M4", "file": _T, "old": "            new._graph[node_idx] = new._graph[node_idx].copy()\n\n        return new", "new": "            new._graph[node_idx] = new._graph[node_idx]\n\n        return new"},
    {"name": "M4-copy-loop-skips-first-payload", "kind": "break", "rule": "M4", "file": _T, "old": "        for node_idx in new._graph.node_indices():\n            new._graph[node_idx] = new._graph[node_idx].copy()\n\n        return new", "new": "        for node_idx in new._graph.node_indices()[1:]:\n            new._graph[node_idx] = new._graph[node_idx].copy()\n\n        return new"},
    {"name": "M4-add_subtree-no-copy", "kind": "break", "rule": "M4", "file": _T, "old": "        subtree = subtree.copy()\n\n        # Connect subtree", "new": "        # Connect subtree"},
    {"name": "M4-to_dict-shares-data-lists", "kind": "break", "rule": "M4", "file": _T, "old": "            \"node_data\": {k: v.copy() for k, v in self._data.items()},", "new": "            \"node_data\": {k: v for k, v in self._data.items()},"},
    {"name": "M4-node-copy-shares-log_r", "kind": "break", "rule": "M4", "file": _N, "old": "        new.log_r = self.log_r.copy()", "new": "        new.log_r = self.log_r"},
    {"name": "M4-get_subtree-shares-data-list", "kind": "break", "rule": "M4", "file": _T, "old": "            new._data[node] = list(self._data[node])", "new": "            new._data[node] = self._data[node]"},
    {"name": "M4-from_dict-entrywise-no-copy", "kind": "break", "rule": "M4", "file": _T, "old": "        new._data.update({k: v.copy() for k, v in tree_dict[\"node_data\"].items()})\n", "new": "        for k, v in tree_dict[\"node_data\"].items():\n            new._data[k] = v\n"},
    {"name": "benign-from_dict-entrywise-copy", "kind": "benign", "file": _T, "old": "        new._data.update({k: v.copy() for k, v in tree_dict[\"node_data\"].items()})\n", "new": "        for k, v in tree_dict[\"node_data\"].items():\n            new._data[k] = v.copy()\n"},
    {"name": "TS-from_dict-data-only-with-edges", "kind": "break", "rule": "TS", "file": _T, "old": "        new._data.update({k: v.copy() for k, v in tree_dict[\"node_data\"].items()})\n\n        _ = new_graph.add_node(TreeNode(grid_size, log_prior, cls._ROOT_NODE_NAME))\n\n        if len(tree_dict[\"graph\"]) > 0:\n", "new": "\n        _ = new_graph.add_node(TreeNode(grid_size, log_prior, cls._ROOT_NODE_NAME))\n\n        if len(tree_dict[\"graph\"]) > 0:\n            new._data.update({k: v.copy() for k, v in tree_dict[\"node_data\"].items()})\n"},
    {"name": "M4-from_dict-map-not-copied", "kind": "break", "rule": "M4", "file": _T, "old": "        new._node_indices = tree_dict[\"node_idx\"].copy()", "new": "        new._node_indices = tree_dict[\"node_idx\"]"},
    {"name": "M4-copy-shares-data-lists", "kind": "break", "rule": "M4", "file": _T, "old": "        new._data.update({k: v.copy() for k, v in self._data.items()})", "new": "        new._data.update(self._data)"},
    # ---- benign
    {"name": "benign-full-update-instead-of-path", "kind": "benign", "file": _T, "old": "            self._graph[node_idx].remove_data_point(data_point)\n\n            self._update_path_to_root(node)", "new": "            self._graph[node_idx].remove_data_point(data_point)\n\n            self.update()"},
    {"name": "benign-rename-node_idx", "kind": "benign", "file": _T, "old": "            node_idx = self._node_indices[node]\n            self._graph[node_idx].remove_data_point(data_point)", "new": "            ix = self._node_indices[node]\n            self._graph[ix].remove_data_point(data_point)"},
    {"name": "benign-refresh-helper-extracted", "kind": "benign", "edits": [
        {"file": _T, "old": "            self._graph[node_idx].remove_data_point(data_point)\n\n            self._update_path_to_root(node)", "new": "            self._graph[node_idx].remove_data_point(data_point)\n\n            self._refresh_from(node)"},
        {"file": _T, "old": "    def remove_data_point_from_outliers(self, data_point):", "new": "    def _refresh_from(self, start):\n        self._update_path_to_root(start)\n\n    def remove_data_point_from_outliers(self, data_point):"}]},
    {"name": "benign-add-refreshes-from-node", "kind": "benign", "file": _T, "old": "                self._update_path_to_root(self.get_parent(node))", "new": "                self._update_path_to_root(node)"},
    {"name": "benign-add_subtree-refresh-by-parent-name", "kind": "benign", "file": _T, "old": "        self._last_node_added_to = subtree._last_node_added_to\n\n        self._update_path_to_root(parent_node.node_id)", "new": "        self._last_node_added_to = subtree._last_node_added_to\n\n        self._update_path_to_root(parent)"},
    {"name": "benign-payload-add-as-plain-assignment", "kind": "benign", "file": _N, "old": "        self.log_p += data_point.value\n        self.log_r += data_point.value", "new": "        v = data_point.value\n        self.log_r = v + self.log_r\n        self.log_p = self.log_p + v"},
    {"name": "benign-copy-map-with-dict()", "kind": "benign", "file": _T, "old": "        new._node_indices = self._node_indices.copy()\n\n        new._node_indices_rev", "new": "        new._node_indices = dict(self._node_indices)\n\n        new._node_indices_rev"},
    {"name": "benign-payload-copy-loop-extracted", "kind": "benign", "edits": [
        {"file": _T, "old": "        for node_idx in new._graph.node_indices():\n            new._graph[node_idx] = new._graph[node_idx].copy()\n\n        return new", "new": "        new._own_payloads()\n\n        return new"},
        {"file": _T, "old": "    def get_children(self, node):", "new": "    def _own_payloads(self):\n        g = self._graph\n        for i in g.node_indices():\n            g[i] = g[i].copy()\n\n    def get_children(self, node):"}]},
    {"name": "benign-print-and-split", "kind": "benign", "file": _T, "old": "        self._graph.add_edge(root_idx, node_idx, None)\n\n        for child in children:", "new": "        print(\"new root\", node)\n        g = self._graph\n        g.add_edge(root_idx, node_idx, None)\n\n        for child in children:"},
    {"name": "benign-remove-also-adjusts-log_r-and-refreshes-from-parent", "kind": "benign", "edits": [
        {"file": _N, "old": "        self.log_p -= data_point.value", "new": "        self.log_p -= data_point.value\n        self.log_r -= data_point.value"},
        {"file": _T, "old": "            self._graph[node_idx].remove_data_point(data_point)\n\n            self._update_path_to_root(node)", "new": "            self._graph[node_idx].remove_data_point(data_point)\n\n            self._update_path_to_root(self.get_parent(node))"}]},
]
