"""C19 — a run on valid input completes and records only finite, complete trees.

Totality is not statically decidable.  Claimed: four crash classes that are visible in the shape of
the code and that the boundary combinations of the statement hit — draws from possibly-empty
populations (dominating guard), CLI ranges against the partial operations that consume them (and that
every option reaches a parameter of run.run), sibling call sites of the resampling step agreeing on
their guard together with the index bound of the retained path, and every exit returning the trace.
NOT decided: absence of every other exception; finiteness of log_p_one.
"""
import ast

from ..astutil import call_name, calls, kwarg, parents, u
from ..model import AnalysisError
from ..paths import dominating_tests, enumerate_paths, guards_of

# populations that are empty for some tree a run can reach (all data points outliers, a single clone, …)
EMPTYABLE = ("nodes", "roots", "outliers", "tree_roots", "tree_nodes")


def _reachable(prog, roots):
    """Functions reachable from `roots` by name-based call resolution (over-approximate)."""
    byname = {}
    for f in prog.functions.values():
        byname.setdefault(f.name, []).append(f)
    seen, todo = set(), list(roots)
    while todo:
        f = todo.pop()
        if f.qualname in seen:
            continue
        seen.add(f.qualname)
        for c in calls(f.node):
            nm = call_name(c).split(".")[-1]
            for g in byname.get(nm, []):
                todo.append(g)
            ci = [k for k in prog.classes.values() if k.name == nm]
            for k in ci:
                for m in prog.mro(k):
                    for meth in ("__init__",):
                        if meth in m.methods:
                            todo.append(m.methods[meth])
        # property reads
        for n in ast.walk(f.node):
            if isinstance(n, ast.Attribute):
                for k in prog.classes.values():
                    if n.attr in k.properties:
                        for fi in k.properties[n.attr].values():
                            todo.append(fi)
    return seen


def _population_expr(fi, expr):
    """Text of the expression a drawn-from name denotes: follows single local definitions; a list filled
    by appends inside a filtering loop is reported as 'filtered:<source>'."""
    if isinstance(expr, ast.Call) and call_name(expr) in ("list", "sorted", "tuple") and expr.args:
        return _population_expr(fi, expr.args[0])
    if isinstance(expr, ast.Name):
        defs = [s for s in ast.walk(fi.node) if isinstance(s, ast.Assign) and any(isinstance(t, ast.Name) and t.id == expr.id for t in s.targets)]
        appends = [c for c in calls(fi.node, last="append") if u(c.func.value) == expr.id]
        if len(defs) == 1 and isinstance(defs[0].value, ast.List) and not defs[0].value.elts and appends:
            pm = parents(fi.node)
            guarded = any(guards_of(a, pm) for a in appends)
            return "filtered" if guarded else "appended"
        if len(defs) == 1:
            return _population_expr(fi, defs[0].value)
        if expr.id in fi.params:
            return "param:" + expr.id
        return "?" + expr.id
    return u(expr)


def _nonempty_guard(fi, target, name_text):
    """Is `target` dominated by a test that excludes emptiness of the population?"""
    tests = dominating_tests(fi.node.body, target)
    for t, taken in tests:
        t = t.replace(" ", "")
        n = name_text.replace(" ", "")
        if t in ("len(%s)==0" % n, "not%s" % n, "len(%s)<1" % n, "len(%s)<=0" % n) and taken is False:
            return True
        if t in ("len(%s)>0" % n, "len(%s)!=0" % n, "len(%s)>=1" % n, n) and taken is True:
            return True
    return False


def rule_T1(ctx):
    prog = ctx.prog
    ctx.rule("T1", "every draw from a population that some reachable tree makes empty (all points outliers, a single clone, no top-level clone) is dominated by a non-emptiness test or is non-empty for a checked reason", 3)
    reach = _reachable(prog, [prog.fn("run.run_phyclone_chain")])
    sites = []
    for q in sorted(reach):
        fi = prog.functions[q]
        if fi.module.name.endswith("cluster_outlier_probabilities") or ".process_trace" in fi.module.name or fi.module.name.endswith(".cli"):
            continue
        for c in calls(fi.node, last="choice"):
            if len(c.args) == 1 and not c.keywords:
                sites.append((fi, c, c.args[0], "choice"))
    if len(sites) < 3:
        raise AnalysisError("T1: only %d single-argument choice() draws found in code reachable from run_phyclone_chain" % len(sites))
    for fi, c, pop, kind in sites:
        desc = _population_expr(fi, pop)
        name = u(pop.args[0]) if isinstance(pop, ast.Call) and pop.args else u(pop)
        label = "%s: rng.choice(%s) [%s]" % (fi.qualname.split("phyclone.")[-1], u(pop), desc)
        stmt = "rng.choice(%s)" % u(pop)
        emptyable = desc in ("filtered",) or any(desc.endswith("." + e) or desc.endswith("." + e + ")") for e in EMPTYABLE)
        if not emptyable:
            ctx.ok("T1", label, fi.where(c), "population is not one of the emptyable tree queries")
            continue
        if _nonempty_guard(fi, c, name):
            ctx.ok("T1", label, fi.where(c), "dominated by a non-emptiness test of %s" % name)
            continue
        # checked reasons: the helper is only reached when the population is known non-empty
        reason = _caller_excludes_empty(prog, fi, desc)
        ctx.check(reason is not None, "T1", label, fi.where(c),
                  "%s is drawn from without a dominating non-emptiness test, and it is empty for a tree a run can reach (e.g. every data point in the outlier set): numpy raises 'a cannot be empty'" % u(pop),
                  construct=fi.qualname, stmt=stmt, detail=reason or "")
        ctx.analysed(fi)


def _caller_excludes_empty(prog, fi, desc):
    """Named, checked exemptions: the function is private and every call site is dominated by a test that
    implies the population is non-empty."""
    def related(f):
        if fi.cls is None or f.cls is None:
            return fi.cls is None and f.cls is None and f.module is fi.module or (fi.cls is None) != (f.cls is None)
        return fi.cls in prog.mro(f.cls) or f.cls in prog.mro(fi.cls)

    callers = [(f, c) for f in prog.functions.values() if f is not fi and related(f) for c in calls(f.node, last=fi.name)]
    if not callers:
        # never called by name, but handed around as a value (a dispatch table of bound methods): who calls it, and
        # under which test, cannot be read off the call sites
        refs = [f for f in prog.functions.values() if f is not fi and related(f) for n in ast.walk(f.node)
                if isinstance(n, ast.Attribute) and n.attr == fi.name and isinstance(n.ctx, ast.Load)]
        if refs:
            raise AnalysisError("T1: %s is reached through a reference held in %s, not through a call: the tests that dominate its execution cannot be decided" % (fi.qualname, refs[0].qualname))
        return None
    reasons = []
    for f, c in callers:
        tests = dominating_tests(f.node.body, c)
        texts = {(t.replace(" ", ""), taken) for t, taken in tests}
        # a conjunction that holds makes each conjunct hold; a local boolean bound once stands for its definition;
        # `len(x) > 0`, `len(x) != 0`, `len(x) >= 1` and `x` itself (truthiness) say "not len(x) == 0"
        named = {}
        for n in ast.walk(f.node):
            if isinstance(n, ast.Assign) and len(n.targets) == 1 and isinstance(n.targets[0], ast.Name):
                named.setdefault(n.targets[0].id, []).append(n.value)

        def spell(e, taken, out, depth=0):
            if depth > 4:
                return
            if isinstance(e, ast.BoolOp) and isinstance(e.op, ast.And) and taken is True:
                for v in e.values:
                    spell(v, True, out, depth + 1)
                return
            if isinstance(e, ast.BoolOp) and isinstance(e.op, ast.Or) and taken is False:
                for v in e.values:
                    spell(v, False, out, depth + 1)
                return
            if isinstance(e, ast.UnaryOp) and isinstance(e.op, ast.Not):
                spell(e.operand, (not taken) if taken in (True, False) else taken, out, depth + 1)
                return
            if isinstance(e, ast.Name) and len(named.get(e.id, [])) == 1:
                spell(named[e.id][0], taken, out, depth + 1)
                return
            if isinstance(e, ast.Compare) and len(e.ops) == 1 and isinstance(e.left, ast.Call) and call_name(e.left) == "len" and isinstance(e.comparators[0], ast.Constant):
                op, cst = type(e.ops[0]).__name__, e.comparators[0].value
                if (op, cst) in (("Gt", 0), ("NotEq", 0), ("GtE", 1)):
                    out.add((u(e.left).replace(" ", "") + "==0", (not taken) if taken in (True, False) else taken))
                    return
                if (op, cst) in (("Lt", 1), ("LtE", 0)):
                    out.add((u(e.left).replace(" ", "") + "==0", taken))
                    return
            if isinstance(e, (ast.Attribute, ast.Name)) and taken in (True, False):
                # truthiness of a sequence: `x` holds iff `len(x) == 0` does not
                out.add(("len(" + u(e).replace(" ", "") + ")==0", not taken))
            out.add((u(e).replace(" ", ""), taken))

        more = set()
        for t, taken in tests:
            try:
                spell(ast.parse(t, mode="eval").body, taken, more)
            except SyntaxError:
                pass
        texts |= more
        ok = None
        for t, taken in texts:
            # a tree with more than one clone keeps at least one node in the pruned copy it draws from
            if t.endswith("get_number_of_nodes()<=1") and taken is False and desc.endswith(".nodes"):
                ok = "caller %s returns early unless the tree has more than one clone" % f.name
            # "no clone" excluded: clones exist, hence top-level clones exist
            if t in ("len(self.parent_tree.nodes)==0", "len(self.parent_particle.tree_roots)==0", "self._empty_tree()") and taken is False and (desc.endswith("tree_roots") or desc.endswith(".roots")):
                ok = "caller %s takes this arm only when the parent has clones" % f.name
        if ok is None:
            return None
        reasons.append(ok)
    return "; ".join(sorted(set(reasons)))


def _cli_options(prog):
    """option parameter name -> dict(type=text, min=…, max=…, kind=…) for the `run` command."""
    cli = prog.module("phyclone.cli")
    run = None
    for n in cli.tree.body:
        if isinstance(n, ast.FunctionDef) and n.name == "run":
            run = n
    if run is None:
        raise AnalysisError("cli.run not found")
    opts = {}
    for d in run.decorator_list:
        if not (isinstance(d, ast.Call) and call_name(d) == "click.option"):
            continue
        names = [a.value for a in d.args if isinstance(a, ast.Constant) and isinstance(a.value, str)]
        long = [n for n in names if n.startswith("--")]
        if not long:
            continue
        pname = long[0].split("/")[0][2:].replace("-", "_")
        t = kwarg(d, "type")
        info = {"type": u(t) if t is not None else ("flag" if "/" in long[0] else "str"), "min": None, "max": None, "node": d, "decl": long[0]}
        if isinstance(t, ast.Call) and call_name(t) in ("click.IntRange", "click.FloatRange"):
            vals = [a for a in t.args]
            lo = vals[0] if vals else kwarg(t, "min")
            hi = vals[1] if len(vals) > 1 else kwarg(t, "max")
            for key, v in (("min", lo), ("max", hi)):
                if v is not None:
                    try:
                        info[key] = ast.literal_eval(v)
                    except ValueError:
                        info[key] = None
        opts[pname] = info
    return run, opts


def rule_T2(ctx):
    prog = ctx.prog
    ctx.rule("T2", "CLI ranges exclude the failure values of the partial operations that consume the option; every option is a parameter of run.run", 8)
    run_cmd, opts = _cli_options(prog)
    runfn = prog.fn("run.run")
    params = set(runfn.params)
    # forwarding: the command passes **kwargs; a name mismatch is a TypeError on every invocation
    fwd = [c for c in calls(run_cmd) if any(k.arg is None for k in c.keywords)]
    ok = len(fwd) == 1 and call_name(fwd[0]) in ("run_prog", "run")
    why_f = "options are not forwarded as keywords"
    if not ok and run_cmd.args.kwarg is None:
        # explicit parameters: each option's variable must be named at its parameter of run.run
        from ..astutil import cli_forwards

        target = [c for c in calls(run_cmd) if call_name(c) in ("run_prog", "run")]
        if len(target) == 1:
            lost = []
            for pname, info in sorted(opts.items()):
                okp, whyp = cli_forwards(run_cmd, info["decl"].split("/")[0], call_name(target[0]), runfn.params, pname)
                if not okp:
                    lost.append("%s (%s)" % (info["decl"], whyp))
            ok = not lost
            why_f = "option(s) not handed to run.run: %s" % "; ".join(lost)
    ctx.check(ok, "T2", "cli.run forwards its options to run.run (as **kwargs or one by one)", "phyclone/cli.py:%d" % run_cmd.lineno, why_f, construct="phyclone.cli.run", stmt="run_prog(**kwargs)")
    missing = sorted(set(opts) - params)
    ctx.check(not missing, "T2", "every CLI option name is a parameter of run.run (%d options)" % len(opts), runfn.where(), "option(s) %s are not parameters of run.run: TypeError on every invocation" % missing, construct="phyclone.cli.run", stmt="option names")
    required = {"in_file", "out_file"}
    nodef = sorted(p for p in required if p in params and p not in opts)
    ctx.check(not nodef, "T2", "run.run's required parameters are CLI options", runfn.where(), "run.run requires %s but the CLI does not supply them" % nodef, construct="phyclone.cli.run", stmt="required options")
    # consumers (found in the code, not assumed): divisor / count / probability
    main = prog.fn("run._run_main_sampler")
    consumers = []
    for n in ast.walk(main.node):
        if isinstance(n, ast.BinOp) and isinstance(n.op, ast.Mod) and isinstance(n.right, ast.Name):
            consumers.append((n.right.id, "divisor", n, main))
        # a slice step (islice(it, start, stop, step) / seq[::step]) has the same domain as a thinning divisor: an integer >= 1
        if isinstance(n, ast.Call) and call_name(n).split(".")[-1] == "islice" and len(n.args) == 4 and isinstance(n.args[3], ast.Name):
            consumers.append((n.args[3].id, "divisor", n, main))
        if isinstance(n, ast.Slice) and isinstance(n.step, ast.Name):
            consumers.append((n.step.id, "divisor", n, main))
    # thin must be an integer >= 1 (0 divides by zero, a negative or float value records wrong iterations)
    table = [
        ("thin", "divisor `i % thin`", lambda o: o["type"].startswith("click.IntRange") and o["min"] is not None and o["min"] >= 1),
        ("num_particles", "count: log(N), multinomial(N - 1, …), range(N - 1)", lambda o: o["type"].startswith("click.IntRange") and o["min"] is not None and o["min"] >= 1),
        ("burnin", "loop bound range(burnin)", lambda o: o["type"].startswith("click.IntRange") and o["min"] is not None and o["min"] >= 0),
        ("num_iters", "loop bound range(num_iters)", lambda o: o["type"].startswith("click.IntRange") and o["min"] is not None and o["min"] >= 0),
        ("num_chains", "pool size / spawn count", lambda o: o["type"].startswith("click.IntRange") and o["min"] is not None and o["min"] >= 1),
        ("resample_threshold", "probability-like threshold on the relative ESS", lambda o: o["type"].startswith("click.FloatRange") and o["min"] is not None and o["min"] >= 0 and o["max"] is not None and o["max"] <= 1),
        ("subtree_update_prob", "probability compared with rng.random()", lambda o: o["type"].startswith("click.FloatRange") and o["min"] is not None and o["min"] >= 0 and o["max"] is not None and o["max"] <= 1),
        ("outlier_prob", "probability fed to log / log1p(-p)", lambda o: o["type"].startswith("click.FloatRange") and o["min"] is not None and o["min"] >= 0 and o["max"] is not None and o["max"] <= 1),
        ("grid_size", "number of CCF grid points (log(grid), grid - 1 as a divisor)", lambda o: o["type"].startswith("click.IntRange") and o["min"] is not None and o["min"] >= 2),
    ]
    thin_used = any(nm == "thin" for nm, _, _, _ in consumers)
    if not thin_used:
        raise AnalysisError("T2: the thinning divisor `i % thin` was not found in _run_main_sampler")
    for name, what, good in table:
        o = opts.get(name)
        if o is None:
            ctx.fail("T2", "--%s (%s)" % (name.replace("_", "-"), what), "phyclone/cli.py:%d" % run_cmd.lineno, "option not declared", construct="phyclone.cli.run", stmt="--" + name)
            continue
        ctx.check(good(o), "T2", "%s: %s" % (o["decl"], what), "phyclone/cli.py:%d" % o["node"].lineno,
                  "declared as type=%s (min=%s, max=%s): the command line accepts a value for which the consumer (%s) fails or is undefined" % (o["type"], o["min"], o["max"], what), construct="phyclone.cli.run", stmt=o["decl"])
    po = opts.get("print_freq")
    if po is not None and not po["type"].startswith("click.IntRange"):
        ctx.note("observation (outside the statement's option list): --print-freq is type=%s with no range and is used as a divisor `i %% print_freq`" % po["type"])
    # the option value reaches its consumer unchanged: run.run -> run_phyclone_chain -> _run_main_sampler
    chain = prog.fn("run.run_phyclone_chain")
    for name in ("thin", "num_particles", "resample_threshold", "subtree_update_prob", "burnin", "num_iters"):
        reb = [n for f in (runfn, chain) for n in ast.walk(f.node) if isinstance(n, ast.Name) and n.id == name and isinstance(n.ctx, ast.Store)]
        ctx.check(not reb, "T2", "%s reaches the chain unchanged" % name, runfn.where(), "%s is rebound between the command line and its consumer" % name, construct=runfn.qualname, stmt="plumbing " + name)


def rule_T4(ctx):
    prog = ctx.prog
    ctx.rule("T4", "every call of the resampling step is dominated by a test that a further data point exists (sibling call sites agree); subscripts of the retained path stay inside it", 4)
    f = prog.fn("AbstractSMCSampler.sample")
    cs = calls(f.node, name="self._resample_swarm")
    if not cs:
        # no resampling at all (plain sequential importance sampling) cannot index past the path
        ctx.ok("T4", "AbstractSMCSampler.sample: no call of _resample_swarm()", f.where(), "nothing to guard")
    for c in cs:
        tests = dominating_tests(f.node.body, c)
        ok = False
        for t, taken in tests:
            tt = t.replace(" ", "")
            if taken is True and (tt == "self.iteration<self.num_iterations" or tt.startswith("self.iteration<self.num_iterations-") or tt.startswith("self.iteration+1<self.num_iterations") or tt.startswith("self.iteration+1<=self.num_iterations")):
                ok = True
        ctx.check(ok, "T4", "AbstractSMCSampler.sample: _resample_swarm() at line-independent site #%d is guarded by 'a further data point exists'" % (cs.index(c) + 1), f.where(c),
                  "this call is not dominated by a test of self.iteration against self.num_iterations although the sibling call is: ConditionalSMCSampler._resample_swarm reads constrained_path[iteration + 1], which does not exist after the last data point (IndexError with one data point whenever resampling triggers)", construct=f.qualname, stmt="unguarded _resample_swarm()" if cs.index(c) == 0 else "_resample_swarm() in loop")
    # the retained path has one entry per data point plus the leading None
    g = prog.fn("ConditionalSMCSampler._get_constrained_path")
    # decided on the value the function returns (however the pass is written: in place, through a helper or a generator):
    # a list whose first element is None, followed by one element per element of self.data_points, none of them conditional
    from .. import termflow as _tf
    from ..formula import extract

    res = extract(prog, g, opaque_self_methods={"_get_log_w", "_propose_particle"}, copy_is_identity=False).result
    ok = isinstance(res, _tf.AList) and len(res.items) == 1 + _tf.K_ELEMS
    if ok:
        first = res.items[0]
        ok = first is None or (isinstance(first, _tf.Poly) and first.as_atom() == ("const", "None"))
        doms = [d for d in res.doms]
        ok = ok and len(doms) == 1 and _tf.show_key(doms[0]).endswith(".data_points") and not any(_tf._maybe_absent(x) for x in res.items[1:])
        ok = ok and not any(isinstance(x, _tf.Poly) and x.as_atom() is not None and x.as_atom()[0] == "star" for x in res.items)
    ctx.check(ok, "T4", "_get_constrained_path: path = [None] + one particle per data point (len = num_iterations + 1)", g.where(), "the retained path does not have exactly one entry per data point after the leading placeholder", construct=g.qualname, stmt="constrained_path construction")
    subs = []
    for m in ("_init_swarm", "_resample_swarm", "_update_swarm"):
        fi = prog.fn("ConditionalSMCSampler." + m)
        for n in ast.walk(fi.node):
            if isinstance(n, ast.Subscript) and u(n.value) == "self.constrained_path":
                subs.append((fi, n))
    good = {"1", "self.iteration + 1", "-1"}
    for fi, n in subs:
        idx = u(n.slice)
        ctx.check(idx in good, "T4", "%s: constrained_path[%s] is within [0, num_iterations]" % (fi.name, idx), fi.where(n), "index %s is not one of the bounded forms (1; iteration + 1 under iteration < num_iterations)" % idx, construct=fi.qualname, stmt="constrained_path[%s]" % idx)
    # the loop condition bounds iteration + 1 in _update_swarm
    wl = [n for n in ast.walk(f.node) if isinstance(n, ast.While)]
    ok = len(wl) == 1 and u(wl[0].test) == "self.iteration < self.num_iterations" and any(call_name(c) == "self._update_swarm" for c in calls(wl[0]))
    ctx.check(ok, "T4", "AbstractSMCSampler.sample: _update_swarm() only while iteration < num_iterations", f.where(), "the update step can run past the last data point", construct=f.qualname, stmt="while iteration < num_iterations")
    ctx.analysed(f, g)


def rule_T3(ctx):
    prog = ctx.prog
    ctx.rule("T3", "every exit returns / writes the trace; the only early exit of the sweep loop is the timer test; a worker exception is re-raised", 5)
    m = prog.fn("run._run_main_sampler")
    outs = enumerate_paths(m.node.body)
    bad = [oc for steps, oc in outs if oc != "return"]
    rets = [n for n in ast.walk(m.node) if isinstance(n, ast.Return)]

    def _resolved(fn, e):
        """The expression a returned name stands for (its single assignment in the function), else the expression."""
        if isinstance(e, ast.Name):
            defs = [a.value for a in ast.walk(fn.node) if isinstance(a, ast.Assign) and len(a.targets) == 1 and isinstance(a.targets[0], ast.Name) and a.targets[0].id == e.id]
            if len(defs) == 1:
                return defs[0]
        return e

    def _is_results(e):
        e = _resolved(m, e)
        return isinstance(e, ast.Dict) and any(isinstance(k, ast.Constant) and k.value == "trace" for k in e.keys)

    ok = not bad and rets and all(r.value is not None and _is_results(r.value) for r in rets)
    ctx.check(ok, "T3", "_run_main_sampler returns the results mapping on every path", m.where(), "some path leaves _run_main_sampler without returning the results mapping (the one that holds the trace)", construct=m.qualname, stmt="return results")
    # the sweep loop may have moved into a helper newer than the rules
    from ..astutil import new_helper_scope

    scope_m = new_helper_scope(prog, m)
    brk = [n for g_ in scope_m for n in ast.walk(g_.node) if isinstance(n, ast.Break)]
    pm = {}
    for g_ in scope_m:
        pm.update(parents(g_.node))
    ok = len(brk) == 1 and any("max_time" in u(t) and "elapsed" in u(t) for t, pol in guards_of(brk[0], pm))
    ctx.check(ok, "T3", "_run_main_sampler: the only break is the timer test", m.where(brk[0]) if brk else m.where(), "the sweep loop has %d break statement(s) not all tied to the max_time test" % len(brk), construct=m.qualname, stmt="break")
    for n in [x for g_ in scope_m for x in ast.walk(g_.node)]:
        # (try ... finally without an `except` clause handles nothing: the exception goes on after the clean-up - unless
        # the finally block itself leaves with return / break / continue, which discards it)
        if isinstance(n, (ast.Try,)) and (n.handlers or any(isinstance(x, (ast.Return, ast.Break, ast.Continue)) for st_ in n.finalbody for x in ast.walk(st_))):
            ctx.fail("T3", "_run_main_sampler has no exception handler", m.where(n), "an exception handler inside the sweep loop can swallow a sampler failure", construct=m.qualname, stmt="try")
    c = prog.fn("run.run_phyclone_chain")
    rets = [n for n in ast.walk(c.node) if isinstance(n, ast.Return)]
    def _resolved_c(e):
        if isinstance(e, ast.Name):
            defs = [a.value for a in ast.walk(c.node) if isinstance(a, ast.Assign) and len(a.targets) == 1 and isinstance(a.targets[0], ast.Name) and a.targets[0].id == e.id]
            if len(defs) == 1:
                return defs[0]
        return e

    ok = len(rets) >= 1 and all(r.value is not None and isinstance(_resolved_c(r.value), ast.Call) and call_name(_resolved_c(r.value)).split(".")[-1] == "_run_main_sampler" for r in rets)
    ctx.check(ok, "T3", "run_phyclone_chain returns what _run_main_sampler returned", c.where(), "the chain's result is not the main sampler's result", construct=c.qualname, stmt="return results")
    r = prog.fn("run.run")
    # run.run and the helpers of its module it calls (the collection loop may live in one)
    scope, todo = [], [r]
    while todo:
        g = todo.pop()
        if any(g is x for x in scope):
            continue
        scope.append(g)
        for cc in calls(g.node):
            if isinstance(cc.func, ast.Name):
                h = prog.resolve_function(cc.func.id, g.module)
                if h is not None and h.module is r.module and h.name != "run_phyclone_chain":
                    todo.append(h)
    found = None
    for g in scope:
        pmg = parents(g.node)
        binds = [(n.targets[0].id, None) for n in ast.walk(g.node) if isinstance(n, ast.Assign) and len(n.targets) == 1 and isinstance(n.targets[0], ast.Name) and isinstance(n.value, ast.Call) and isinstance(n.value.func, ast.Attribute) and n.value.func.attr == "exception"]
        # (`if (exc := future.exception()) is not None: raise exc`: the binding inside the test)
        binds += [(n.target.id, u(n).replace(" ", "")) for n in ast.walk(g.node) if isinstance(n, ast.NamedExpr) and isinstance(n.value, ast.Call) and isinstance(n.value.func, ast.Attribute) and n.value.func.attr == "exception"]
        for var, walrus in binds:
            for ra in [n for n in ast.walk(g.node) if isinstance(n, ast.Raise) and n.exc is not None and u(n.exc) == var]:
                gs = [(u(t).replace(" ", ""), pol) for t, pol in guards_of(ra, pmg)]
                if walrus is not None:
                    w_ = walrus if walrus.startswith("(") else "(" + walrus + ")"
                    gs = [(t.replace(w_, var), pol) for t, pol in gs]
                if any((t == var + "isnotNone" and pol) or (t == var + "isNone" and not pol) or (t == var and pol) for t, pol in gs):
                    found = (g, ra)
    ok = found is not None
    ctx.check(ok, "T3", "run.run re-raises a worker's exception", found[0].where(found[1]) if found else r.where(), "a worker exception is not re-raised (a failed chain would silently be missing from the trace)", construct=r.qualname, stmt="raise exception")
    pm = parents(r.node)
    def _guards_repo_work(g, t):
        """Does the body of try block `t` run repository code or collect a worker's result (what a handler could
        swallow)?  A handler around a pure standard-library probe (`os.sched_getaffinity`, an import) cannot."""
        for c in [x for st_ in t.body for x in ast.walk(st_)]:
            if isinstance(c, ast.Call):
                if isinstance(c.func, ast.Name) and prog.resolve_function(c.func.id, g.module) is not None:
                    return True
                if isinstance(c.func, ast.Attribute) and c.func.attr in ("result", "exception", "submit", "map", "shutdown"):
                    return True
                if isinstance(c.func, ast.Attribute) and any(f_.name == c.func.attr for f_ in prog.functions.values()):
                    return True
            if isinstance(c, (ast.With, ast.For, ast.While)):
                return True
        return False

    hs = [n for g in scope for n in ast.walk(g.node) if isinstance(n, ast.Try) and _guards_repo_work(g, n) and (n.handlers or any(isinstance(x, (ast.Return, ast.Break, ast.Continue)) for st_ in n.finalbody for x in ast.walk(st_)))]
    ctx.check(not hs, "T3", "run.run has no handler that could swallow a failure", r.where(hs[0]) if hs else r.where(), "run.run contains a try block", construct=r.qualname, stmt="try")
    w = calls(r.node, name="create_main_run_output")
    ok = len(w) == 1 and not guards_of(w[0], pm) and not any(isinstance(a, (ast.For, ast.While)) for a in _ancestors(w[0], pm))
    ctx.check(ok, "T3", "run.run writes the results once, unconditionally, after all chains", r.where(w[0]) if w else r.where(), "create_main_run_output is conditional, repeated or missing", construct=r.qualname, stmt="create_main_run_output(...)")
    ctx.analysed(m, c, r)


def rule_T6(ctx):
    """The run's timer raises on start() while running and on stop() while stopped.  `with timer:` pairs them on every
    exit; explicit start() / stop() calls must do the same: on no path through a loop body (or a function) may the timer
    be left running at a `break`, `continue`, `return` or at the end of the pass, or be started twice."""
    prog = ctx.prog
    ctx.rule("T6", "the timer is started and stopped in pairs on every path (with-block, or start()/stop() with no exit in between): a timer left running makes the next start() raise", 2)
    timers = [ci for ci in prog.classes.values() if "start" in ci.methods and "stop" in ci.methods and "__enter__" in ci.methods]
    if not timers:
        raise AnalysisError("T6: no start/stop/__enter__ timer class found")
    n_with = 0
    for fi in prog.functions.values():
        if fi.cls is not None and fi.cls in timers:
            continue
        explicit = [c for c in ast.walk(fi.node) if isinstance(c, ast.Call) and isinstance(c.func, ast.Attribute) and c.func.attr in ("start", "stop") and not c.args and not c.keywords and isinstance(c.func.value, ast.Name) and "timer" in c.func.value.id.lower()]
        withs = [w for w in ast.walk(fi.node) if isinstance(w, ast.With) and any(isinstance(it.context_expr, ast.Name) and "timer" in it.context_expr.id.lower() for it in w.items)]
        n_with += len(withs)
        for w in withs:
            ctx.ok("T6", "%s: `with %s:` pairs start and stop on every exit" % (fi.qualname.split("phyclone.")[-1], u(w.items[0].context_expr)), fi.where(w))
        if not explicit:
            continue
        names = sorted({c.func.value.id for c in explicit})
        bad = []

        def walk(body, what):
            from ..paths import _block as _paths_of_block

            for steps, oc in _paths_of_block(body, 20000):  # (break / continue are outcomes of a loop body)
                state = {n_: False for n_ in names}  # not running on entry
                for st in steps:
                    node = st.node
                    if not isinstance(node, ast.AST):
                        continue
                    if st.kind == "with" and isinstance(node, ast.With):
                        for it in node.items:
                            if isinstance(it.context_expr, ast.Name) and it.context_expr.id in state and state[it.context_expr.id]:
                                bad.append((node, "`with %s:` is entered while it is already running" % it.context_expr.id))
                        continue
                    scan = [node] if st.kind in ("stmt", "test", "iter") else []
                    for root in scan:
                        for c in sorted([x for x in ast.walk(root) if isinstance(x, ast.Call) and x in explicit], key=lambda x: (x.lineno, x.col_offset)):
                            nm = c.func.value.id
                            if c.func.attr == "start":
                                if state[nm]:
                                    bad.append((c, "%s.start() while it is already running" % nm))
                                state[nm] = True
                            else:
                                if not state[nm]:
                                    bad.append((c, "%s.stop() while it is not running" % nm))
                                state[nm] = False
                for nm, running in state.items():
                    if running:
                        last = steps[-1].node if steps and isinstance(steps[-1].node, ast.AST) else fi.node
                        bad.append((last, "%s is left running when %s ends with `%s`: the next start() (or `with %s:`) raises RuntimeError('Already started')" % (nm, what, oc, nm)))

        loops_ = [l for l in ast.walk(fi.node) if isinstance(l, (ast.For, ast.While)) and any(c in explicit for c in ast.walk(l))]
        outer = [l for l in loops_ if not any(o is not l and any(x is l for x in ast.walk(o)) for o in loops_)]
        for l in outer:
            walk(l.body, "a pass of the loop at line %d" % l.lineno)
        if not outer:
            walk(fi.node.body, fi.name)
        seen = set()
        bad = [(n, w) for n, w in bad if not ((getattr(n, "lineno", 0), w) in seen or seen.add((getattr(n, "lineno", 0), w)))]
        ctx.check(not bad, "T6", "%s: explicit start()/stop() of %s are paired on every path" % (fi.qualname.split("phyclone.")[-1], ", ".join(names)), fi.where(bad[0][0]) if bad else fi.where(), "; ".join(w for _, w in bad[:3]), construct=fi.qualname, stmt="timer pairing")
        ctx.analysed(fi)
    if n_with == 0 and not any(True for fi in prog.functions.values() for c in ast.walk(fi.node) if isinstance(c, ast.Call) and isinstance(c.func, ast.Attribute) and c.func.attr == "start" and isinstance(c.func.value, ast.Name) and "timer" in c.func.value.id.lower()):
        raise AnalysisError("T6: the run no longer times its sweeps with a timer the rule can see")


def rule_T5(ctx):
    """Finite log_p_one needs a strictly positive concentration: log(alpha) enters the prior multiplied by the
    number of clones (0 * -inf = nan on a tree without clones, -inf otherwise).  A Gamma draw with shape < 1
    (run.py uses 0.01) underflows to exactly 0.0 with non-negligible probability, so every value the
    concentration sampler returns must be floored by a positive constant; the run loop stores that value."""
    from fractions import Fraction

    from ..formula import extract
    from ..termflow import Poly, key_atom, poly_from_key, show, _is_polykey

    prog = ctx.prog
    ctx.rule("T5", "the concentration stays strictly positive: every value GammaPriorConcentrationSampler.sample returns is floored by a positive constant (or is the old value / a positive constant); update_concentration_value stores what the sampler returns", 3)
    f = prog.fn("concentration.GammaPriorConcentrationSampler.sample")
    ex = extract(prog, f)
    if ex.result is None:
        raise AnalysisError("GammaPriorConcentrationSampler.sample returns nothing")
    a = ex.result.as_atom() if isinstance(ex.result, Poly) else None
    alts = list(a[1]) if a is not None and a[0] == "cond" else [(None, ex.result.key() if isinstance(ex.result, Poly) else None)]

    def positive_const(k):
        if _is_polykey(k):
            p = poly_from_key(k)
            return p.is_const() and p.const_value() > 0
        return False

    def floored(k):
        at = key_atom(k) if k is not None else None
        if positive_const(k):
            return True, "a positive constant"
        if at is not None and at[0] == "v" and at[1] == "P1":
            return True, "the old value"
        if at is not None and at[0] == "call" and at[1] in ("max", "np.maximum", "numpy.maximum", "np.fmax") and len(at[2]) == 2:
            if any(positive_const(x) for x in at[2]):
                return True, "max(., positive constant)"
            return False, "max() of two values neither of which is a positive constant"
        if at is not None and at[0] == "call" and at[1] in ("np.clip", "numpy.clip") and len(at[2]) >= 2 and positive_const(at[2][1]):
            return True, "clip(., positive constant, .)"
        if at is not None and at[0] in ("call", "mcall") and (at[1].endswith(".rvs") or at[1] in ("gamma", "standard_gamma", "exponential", "beta")):
            return False, "a raw draw (%s) that can underflow to 0.0" % at[1]
        return None, "unrecognised"

    for g, vk in alts:
        ok, how = floored(vk)
        label = "sample(): value returned when %s" % (show(Poly.atom(g))[:80] if g is not None and g != True and not isinstance(g, bool) else "no earlier alternative applies")  # noqa: E712
        if ok is None:
            raise AnalysisError("T5: GammaPriorConcentrationSampler.sample returns %s, which is neither a floored draw nor a recognised positive value" % show(poly_from_key(vk) if _is_polykey(vk) else Poly.atom(vk))[:200])
        ctx.check(ok, "T5", label, f.where(), "the concentration sampler returns %s: alpha = 0 gives log(alpha) = -inf, and log_p_one of a tree without clones becomes nan (0 * -inf), of any other tree -inf" % how, construct=f.qualname, stmt="unfloored draw returned")
    # the run loop stores the sampler's value (no arithmetic that could cancel the floor)
    upd = prog.fn("run.update_concentration_value")
    exu = extract(prog, upd, no_inline=["sample"])
    stores = [e for e in exu.calls("store_attr") if e.kwargs.get("attr") == "alpha"]
    if len(stores) != 1:
        raise AnalysisError("T5: update_concentration_value: expected one store to .alpha, found %d" % len(stores))
    val = stores[0].args[-1] if stores[0].args else None
    at = val.as_atom() if isinstance(val, Poly) else None
    ok = at is not None and at[0] == "mcall" and at[1] == "sample"
    ctx.check(ok, "T5", "update_concentration_value stores the sampler's value unchanged", upd.where(stores[0].node), "the value stored in prior.alpha is %s, not the sampler's (floored) return value" % (show(val)[:160] if val is not None else "?"), construct=upd.qualname, stmt="prior.alpha = ...")
    ctx.analysed(f, upd)


def _ancestors(n, pm):
    cur = pm.get(id(n))
    while cur is not None:
        yield cur
        cur = pm.get(id(cur))


def run(ctx):
    ctx.assume("numpy Generator.choice raises on an empty population; Python's % raises on a zero divisor")
    ctx.soft(rule_T1)
    ctx.soft(rule_T2)
    ctx.soft(rule_T4)
    ctx.soft(rule_T3)
    ctx.soft(rule_T5)
    ctx.soft(rule_T6)
    # "complete trees": no move loses a data point (C07.L1); "finite log_p_one": non-positive convolution
    # entries are floored before the logarithm on both back ends (C02.N4)
    from . import C02, C07
    from ..effects import TreeFx

    from ..formula import imported

    from . import _premises

    ctx._own_rules = set(ctx.rule_min)
    imported(ctx, C07.rule_L1, TreeFx(ctx.prog))
    imported(ctx, C02.rule_N4)
    # "finite log_p_one": the density's guards keep log(0) terms out (C03.T1-T3); "well-formed recorded trees": the
    # recorded dictionary form shares nothing with the live tree that later moves edit (C06.M4), and the editor
    # keeps its maps consistent (TS)
    _premises.density(ctx)
    _premises.deep_copies(ctx)
    _premises.tree_editor(ctx)
    # "finishes without an exception": a threshold chain that does not cover the unit interval leaves the proposed
    # tree unbound; a proposal density that degenerates gives nan weights (same rule objects as C08.B / S / F)
    _premises.proposal_chains(ctx)
    # "every recorded entry is a tree over all data points" of *this* run: no trace, candidate list or table carried over
    # from an earlier call through a default argument or a module-level memo
    _premises.no_call_state(ctx)
    # the subtree move draws its block through a non-outlier data point and hands back the re-assembled whole tree
    # (same rule object as C04.P1 / P2): an outlier drawn there has no parent to look up
    from . import C04

    imported(ctx, C04.rule_P1)
    # every SMC pass runs over the order drawn from the tree: it must hold every data point (an order that is too short
    # ends in an index error or a tree without the missing points) — same rule object as C09.P1-P4
    from . import C09

    imported(ctx, C09.rule_P)
    # the resampling step of both SMC samplers adds particles of the current swarm only (the burn-in sampler's first
    # swarm holds placeholders): same rule object as C01.K3 / R1
    from . import C01

    imported(ctx, C01.rule_K3_R1)


_PG = "phyclone/mcmc/particle_gibbs.py"
_CLI = "phyclone/cli.py"
_R = "phyclone/run.py"
_SB = "phyclone/smc/samplers/base.py"
_CONC = "phyclone/mcmc/concentration.py"
SELFTEST = [
    {"name": "benign-T3-worker-exception-bound-by-walrus", "kind": "benign", "file": "phyclone/run.py", "old": "                exception = future.exception()\n                if exception is not None:\n                    raise exception\n", "new": "                if (exception := future.exception()) is not None:\n                    raise exception\n"},
    {"name": "T3-walrus-exception-raised-when-absent", "kind": "break", "rule": "T3", "file": "phyclone/run.py", "old": "                exception = future.exception()\n                if exception is not None:\n                    raise exception\n", "new": "                if (exception := future.exception()) is None:\n                    raise RuntimeError(exception)\n"},
    {"name": "T6-timer-started-before-the-timed-loop", "kind": "break", "rule": "T6", "file": "phyclone/run.py", "old": "    trace = setup_trace(timer, tree, tree_dist)\n", "new": "    trace = setup_trace(timer, tree, tree_dist)\n    timer.start()\n"},
    {"name": "benign-timer-started-and-stopped-before-the-loop", "kind": "benign", "file": "phyclone/run.py", "old": "    trace = setup_trace(timer, tree, tree_dist)\n", "new": "    trace = setup_trace(timer, tree, tree_dist)\n    timer.start()\n    timer.stop()\n"},
    {"name": "T2-outlier-prior-guard-on-the-other-term", "kind": "break", "rule": ["T2", "T3"], "file": "phyclone/tree/distributions.py", "old": "                if data_point.outlier_prob != 0:\n                    if node == outlier_node_name:", "new": "                if data_point.outlier_prob_not != 0:\n                    if node == outlier_node_name:"},
    {"name": "M4-to_dict-shares-index-map", "kind": "break", "rule": "M4", "file": "phyclone/tree/tree.py", "old": "\"node_idx\": self._node_indices.copy(),", "new": "\"node_idx\": self._node_indices,"},
    {"name": "T5-revert-F12", "kind": "break", "rule": "T5", "file": _CONC, "old": "        new_value = max(new_value, 1e-10)  # Catch numerical error\n", "new": "            new_value = max(new_value, 1e-10)  # Catch numerical error\n"},
    {"name": "T5-floor-is-zero", "kind": "break", "rule": "T5", "file": _CONC, "old": "new_value = max(new_value, 1e-10)", "new": "new_value = max(new_value, 0.0)"},
    {"name": "T5-floor-dropped", "kind": "break", "rule": "T5", "file": _CONC, "old": "        new_value = max(new_value, 1e-10)  # Catch numerical error\n", "new": ""},
    {"name": "T5-early-return-of-prior-draw", "kind": "break", "rule": "T5", "file": _CONC, "old": "            new_value = gamma.rvs(self.a, scale=(1 / self.b), random_state=self._rng)\n", "new": "            return gamma.rvs(self.a, scale=(1 / self.b), random_state=self._rng)\n"},
    {"name": "T5-stored-value-shifted", "kind": "break", "rule": "T5", "file": _R, "old": "tree_dist.prior.alpha = conc_sampler.sample(tree_dist.prior.alpha, len(node_sizes), sum(node_sizes))", "new": "tree_dist.prior.alpha = conc_sampler.sample(tree_dist.prior.alpha, len(node_sizes), sum(node_sizes)) - 1e-10"},
    {"name": "benign-T5-np-maximum", "kind": "benign", "file": _CONC, "old": "new_value = max(new_value, 1e-10)", "new": "new_value = np.maximum(new_value, 1e-10)"},
    {"name": "benign-T5-floor-on-each-arm", "kind": "benign", "file": _CONC, "old": "            new_value = gamma.rvs(self.a, scale=(1 / self.b), random_state=self._rng)\n", "new": "            new_value = max(1e-12, gamma.rvs(self.a, scale=(1 / self.b), random_state=self._rng))\n"},
    {"name": "T1-revert-F8", "kind": "break", "rule": "T1", "file": _PG, "old": "        if len(nodes) == 0:\n            return super().sample_tree(tree)\n\n", "new": ""},
    {"name": "T1-guard-after-draw", "kind": "break", "rule": "T1", "file": _PG, "old": "        if len(nodes) == 0:\n            return super().sample_tree(tree)\n\n        subtree_root_child = self._rng.choice(nodes)\n", "new": "        subtree_root_child = self._rng.choice(nodes)\n\n        if len(nodes) == 0:\n            return super().sample_tree(tree)\n"},
    {"name": "T1-prg-early-return-removed", "kind": "break", "rule": "T1", "file": "phyclone/mcmc/gibbs_mh.py", "old": "        if tree.get_number_of_nodes() <= 1:\n            return tree\n\n        remaining_nodes", "new": "        remaining_nodes"},
    {"name": "T1-bootstrap-existing-arm-when-no-clone", "kind": "break", "rule": "T1", "file": "phyclone/smc/kernels/bootstrap.py", "old": "        elif len(self.parent_tree.nodes) == 0:\n            if u < (1 - self.outlier_proposal_prob):\n                tree = self._propose_new_node()", "new": "        elif len(self.parent_tree.nodes) == 0:\n            if u < (1 - self.outlier_proposal_prob) / 2:\n                tree = self._propose_existing_node()\n            elif u < (1 - self.outlier_proposal_prob):\n                tree = self._propose_new_node()"},
    {"name": "T2-thin-plain-int", "kind": "break", "rule": "T2", "file": _CLI, "old": "    \"--thin\",\n    default=1,\n    type=click.IntRange(1, clamp=True),", "new": "    \"--thin\",\n    default=1,\n    type=int,"},
    {"name": "T2-num-particles-from-zero", "kind": "break", "rule": "T2", "file": _CLI, "old": "    \"--num-particles\",\n    default=100,\n    type=click.IntRange(1, clamp=True),", "new": "    \"--num-particles\",\n    default=100,\n    type=click.IntRange(0, clamp=True),"},
    {"name": "T2-option-renamed-in-cli-only", "kind": "break", "rule": "T2", "file": _CLI, "old": "    \"--subtree-update-prob\",", "new": "    \"--subtree-prob\","},
    {"name": "T2-threshold-unbounded", "kind": "break", "rule": "T2", "file": _CLI, "old": "    \"--resample-threshold\",\n    default=0.5,\n    type=click.FloatRange(0.0, 1.0, clamp=True),", "new": "    \"--resample-threshold\",\n    default=0.5,\n    type=float,"},
    {"name": "T2-thin-rebound", "kind": "break", "rule": "T2", "file": _R, "old": "    tree_dist = TreeJointDistribution(FSCRPDistribution(concentration_value))\n", "new": "    tree_dist = TreeJointDistribution(FSCRPDistribution(concentration_value))\n    thin = thin - 1\n"},
    {"name": "T4-revert-F10", "kind": "break", "rule": "T4", "file": _SB, "old": "        if self.iteration < self.num_iterations:\n            self._resample_swarm()\n\n        while", "new": "        self._resample_swarm()\n\n        while"},
    {"name": "T4-loop-guard-dropped", "kind": "break", "rule": "T4", "file": _SB, "old": "            if self.iteration < self.num_iterations - 1:\n                self._resample_swarm()", "new": "            self._resample_swarm()"},
    {"name": "T4-path-index-plus-two", "kind": "break", "rule": "T4", "file": "phyclone/smc/samplers/conditional.py", "old": "            new_swarm.add_particle(log_uniform_weight, self.constrained_path[self.iteration + 1])", "new": "            new_swarm.add_particle(log_uniform_weight, self.constrained_path[self.iteration + 2])"},
    {"name": "T3-worker-exception-swallowed", "kind": "break", "rule": "T3", "file": _R, "old": "                if exception is not None:\n                    raise exception\n                else:", "new": "                if exception is not None:\n                    print(\"chain failed\", exception)\n                else:"},
    {"name": "T3-extra-break", "kind": "break", "rule": "T3", "file": _R, "old": "            if i % thin == 0:\n                append_to_trace(i, timer, trace, tree, tree_dist)\n\n            if timer.elapsed >= max_time:", "new": "            if i % thin == 0:\n                append_to_trace(i, timer, trace, tree, tree_dist)\n\n            if tree.get_number_of_nodes() == 0:\n                break\n\n            if timer.elapsed >= max_time:"},
    {"name": "T3-write-only-if-complete", "kind": "break", "rule": "T3", "file": _R, "old": "    create_main_run_output(cluster_file, out_file, results)", "new": "    if len(results) == num_chains:\n        create_main_run_output(cluster_file, out_file, results)"},
    {"name": "benign-guard-as-positive-branch", "kind": "benign", "file": _PG, "old": "        if len(nodes) == 0:\n            return super().sample_tree(tree)\n\n        subtree_root_child = self._rng.choice(nodes)\n", "new": "        if len(nodes) > 0:\n            subtree_root_child = self._rng.choice(nodes)\n        else:\n            return super().sample_tree(tree)\n"},
    {"name": "benign-tighter-particle-range", "kind": "benign", "file": _CLI, "old": "    \"--num-particles\",\n    default=100,\n    type=click.IntRange(1, clamp=True),", "new": "    \"--num-particles\",\n    default=100,\n    type=click.IntRange(2, clamp=True),"},
    {"name": "benign-resample-guard-equivalent", "kind": "benign", "file": _SB, "old": "        if self.iteration < self.num_iterations:\n            self._resample_swarm()\n\n        while", "new": "        if self.iteration < self.num_iterations - 0:\n            self._resample_swarm()\n\n        while"},
    {"name": "benign-print-in-run", "kind": "benign", "file": _R, "old": "    create_main_run_output(cluster_file, out_file, results)", "new": "    print(\"writing\", out_file)\n    create_main_run_output(cluster_file, out_file, results)"},
]
