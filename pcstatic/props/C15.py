"""C15 — trees survive serialisation; trace entries are self-consistent.

Decided here (structural necessary conditions, DESIGN §4 "C15"):
  D1  writer/reader key agreement of Tree.to_dict / Tree.from_dict, and every key is restored into the
      slot it was taken from.
  D2  slot exhaustiveness: every name in __slots__ of Tree, TreeNode, TreeHolder, Particle is assigned on
      every path of every alternative constructor (property setters and same-class helpers followed).
  D3  rebuild: one payload per clone (prior of the entry, filled with the clone's data, stored at the
      clone's graph index), index holes removed, maps and per-clone lists copied on both sides, the
      recursion refreshed last.
  R1  entry self-consistency: alpha, log_p_one and the stored tree of one entry come from the same
      tree_dist / tree in one expression.
  R2  what is recorded and when: one initial entry from the post-burn-in tree; inside the loop the append
      is guarded by `i % thin == 0` (thin plumbed from the CLI value), records the loop counter, follows
      every state change of the iteration, is reached before any early exit; the trace is only appended to.
  R3  keys written by the run ⊇ keys read by the summary commands (entry level and chain level); writer
      and readers use the same stream codec.

NOT decided: float equality after restore, rustworkx index reuse, pickle/gzip behaviour.
"""
import ast

from ..astutil import call_name, calls, dotted, kwarg, last_name, parents, u
from ..formula import extract, same, same_events, spec
from ..model import AnalysisError
from ..paths import enumerate_paths, guards_of
from ..termflow import ADict, AList, Poly, TRUE, as_term, show, show_key, vkey
from . import C20 as _io

SLOT_CLASSES = ("tree.tree.Tree", "tree.tree_node.TreeNode", "tree_holder.TreeHolder", "particle.Particle")


# --------------------------------------------------------------------------- small AST helpers
def _const_str(e):
    return e.value if isinstance(e, ast.Constant) and isinstance(e.value, str) else None


def _stores(node, name):
    return [n for n in ast.walk(node) if isinstance(n, ast.Name) and n.id == name and isinstance(n.ctx, (ast.Store, ast.Del))]


def _single_def(fnode, name):
    """The value of the only plain assignment to local `name`, else None."""
    vals = [s.value for s in ast.walk(fnode) if isinstance(s, ast.Assign) and len(s.targets) == 1 and isinstance(s.targets[0], ast.Name) and s.targets[0].id == name]
    return vals[0] if len(vals) == 1 and len(_stores(fnode, name)) == 1 else None


def _copied(e):
    """X if `e` is a shallow or deep copy of X (X.copy(), dict(X), list(X), X[:], copy.copy/deepcopy(X)), else None."""
    if isinstance(e, ast.Call):
        if isinstance(e.func, ast.Attribute) and e.func.attr == "copy" and not e.args and not e.keywords:
            return e.func.value
        nm = dotted(e.func) or ""
        if nm in ("dict", "list", "copy.copy", "copy.deepcopy", "deepcopy", "OrderedDict") and len(e.args) == 1 and not e.keywords:
            return e.args[0]
    if isinstance(e, ast.Subscript) and isinstance(e.slice, ast.Slice) and e.slice.lower is None and e.slice.upper is None and e.slice.step is None:
        return e.value
    return None


def _per_value_copy(e):
    """X if `e` rebuilds mapping X with every value copied ({k: v.copy() for k, v in X.items()} or deepcopy), else None."""
    if isinstance(e, ast.DictComp) and len(e.generators) == 1 and not e.generators[0].ifs:
        g = e.generators[0]
        it = g.iter
        if isinstance(it, ast.Call) and isinstance(it.func, ast.Attribute) and it.func.attr == "items" and isinstance(g.target, ast.Tuple) and len(g.target.elts) == 2:
            kv, vv = g.target.elts
            inner = _copied(e.value)
            if isinstance(kv, ast.Name) and isinstance(vv, ast.Name) and isinstance(e.key, ast.Name) and e.key.id == kv.id and isinstance(inner, ast.Name) and inner.id == vv.id:
                return it.func.value
    if isinstance(e, ast.Call) and (dotted(e.func) or "") in ("copy.deepcopy", "deepcopy") and len(e.args) == 1:
        return e.args[0]
    return None


def _written_dict(fi):
    """{key: value expression} of the dictionary a function returns (literal, dict(...), or built by
    subscript stores on one local)."""
    rets = [r for r in ast.walk(fi.node) if isinstance(r, ast.Return) and r.value is not None]
    if len(rets) != 1:
        raise AnalysisError("%s: expected exactly one return of the dictionary form" % fi.qualname)
    v = rets[0].value
    extra = {}
    if isinstance(v, ast.Name):
        name = v.id
        for s in ast.walk(fi.node):
            if isinstance(s, ast.Assign) and len(s.targets) == 1 and isinstance(s.targets[0], ast.Subscript) and isinstance(s.targets[0].value, ast.Name) and s.targets[0].value.id == name:
                k = _const_str(s.targets[0].slice)
                if k is None:
                    raise AnalysisError("%s: non-literal key stored into the dictionary form" % fi.qualname)
                extra[k] = s.value
        defs = [s.value for s in ast.walk(fi.node) if isinstance(s, ast.Assign) and any(isinstance(t, ast.Name) and t.id == name for t in s.targets)]
        if len(defs) != 1:
            raise AnalysisError("%s: the returned dictionary %s is bound %d times" % (fi.qualname, name, len(defs)))
        v = defs[0]
    out = {}
    if isinstance(v, ast.Dict):
        for k, x in zip(v.keys, v.values):
            ks = _const_str(k) if k is not None else None
            if ks is None:
                raise AnalysisError("%s: non-literal key in the dictionary form" % fi.qualname)
            out[ks] = x
    elif isinstance(v, ast.Call) and (dotted(v.func) or "") == "dict" and not v.args:
        for k in v.keywords:
            if k.arg is None:
                raise AnalysisError("%s: **-expansion in the dictionary form" % fi.qualname)
            out[k.arg] = k.value
    else:
        raise AnalysisError("%s: the dictionary form is built by %s, a shape this check does not model" % (fi.qualname, u(v)[:60]))
    out.update(extra)
    return out


def _new_var(fi):
    """Name bound by `<cls>.__new__(<cls>)` in an alternative constructor (None if there is none)."""
    names = []
    for s in ast.walk(fi.node):
        if isinstance(s, ast.Assign) and isinstance(s.value, ast.Call) and isinstance(s.value.func, ast.Attribute) and s.value.func.attr == "__new__":
            if len(s.targets) == 1 and isinstance(s.targets[0], ast.Name):
                names.append(s.targets[0].id)
    if len(names) > 1:
        raise AnalysisError("%s allocates more than one object with __new__" % fi.qualname)
    return names[0] if names else None


# --------------------------------------------------------------------------- D1
def rule_D1(ctx):
    prog = ctx.prog
    ctx.rule("D1", "Tree.to_dict and Tree.from_dict agree key by key, and each key is restored into the slot it was taken from", 14)
    import copy as _copy

    from ..astutil import inline_new_helpers

    w = prog.fn("Tree.to_dict")
    r = _copy.copy(prog.fn("Tree.from_dict"))
    r.node = inline_new_helpers(prog, r)  # a restore split over private helpers newer than the rules is read as one body
    tree_cls = prog.cls("tree.tree.Tree")
    slots = set(tree_cls.slots or ())
    if not slots:
        raise AnalysisError("Tree has no __slots__")
    written = _written_dict(w)
    selfname = w.params[0]
    if len(r.params) < 2:
        raise AnalysisError("Tree.from_dict has no dictionary parameter")
    P = r.params[1]
    if _stores(r.node, P):
        raise AnalysisError("Tree.from_dict rebinds its dictionary parameter")
    for c in calls(r.node):
        handed = [a for a in list(c.args) + [k.value for k in c.keywords] if isinstance(a, ast.Name) and a.id == P]
        if handed and not (isinstance(c.func, ast.Name) and c.func.id in ("dict", "len", "print", "sorted", "list")):
            callee = prog.resolve_function(c.func.id, r.module) if isinstance(c.func, ast.Name) else (prog.method(r.cls, c.func.attr) if isinstance(c.func, ast.Attribute) and r.cls is not None else None)
            if callee is not None:
                raise AnalysisError("Tree.from_dict hands its dictionary to %s: which keys are read there, and where they go, is not followed" % callee.qualname)
    pmap = parents(r.node)
    reads = {}  # key -> [(node, guarded)]
    probes = set()
    for n in ast.walk(r.node):
        if isinstance(n, ast.Compare) and len(n.ops) == 1 and isinstance(n.ops[0], (ast.In, ast.NotIn)) and isinstance(n.comparators[0], ast.Name) and n.comparators[0].id == P and _const_str(n.left):
            probes.add(_const_str(n.left))
    for n in ast.walk(r.node):
        k = None
        tolerant = False
        if isinstance(n, ast.Subscript) and isinstance(n.value, ast.Name) and n.value.id == P:
            k = _const_str(n.slice)
            if k is None:
                raise AnalysisError("Tree.from_dict reads its dictionary with a non-literal key: %s" % u(n))
            for test, pol in guards_of(n, pmap):
                if isinstance(test, ast.Compare) and len(test.ops) == 1 and isinstance(test.comparators[0], ast.Name) and test.comparators[0].id == P and _const_str(test.left) == k:
                    if (isinstance(test.ops[0], ast.In) and pol) or (isinstance(test.ops[0], ast.NotIn) and not pol):
                        tolerant = True
        elif isinstance(n, ast.Call) and isinstance(n.func, ast.Attribute) and n.func.attr == "get" and isinstance(n.func.value, ast.Name) and n.func.value.id == P and n.args:
            k = _const_str(n.args[0])
            tolerant = True
        if k is not None:
            reads.setdefault(k, []).append((n, tolerant))
    for k in sorted(set(written) | set(reads)):
        if k in written and k in reads:
            ctx.ok("D1", "key %r is written by to_dict and read by from_dict" % k, r.where(reads[k][0][0]))
        elif k in written:
            ctx.fail("D1", "key %r is written by to_dict and read by from_dict" % k, w.where(written[k]),
                     "to_dict stores %r but from_dict never reads it: that part of the tree is not restored" % k, construct=w.qualname, stmt="key %s" % k)
        else:
            strict = [n for n, tol in reads[k] if not tol]
            ctx.check(not strict, "D1", "key %r is read by from_dict only under an `in` guard (to_dict does not write it)" % k, r.where((strict or [reads[k][0][0]])[0]),
                      "from_dict reads %r unconditionally but to_dict does not write it (KeyError on every restore, or a silently different tree through a default)" % k,
                      construct=r.qualname, stmt="key %s" % k)
    # every key goes back into the slot it came from
    new = _new_var(r)
    if new is None:
        raise AnalysisError("Tree.from_dict no longer allocates with __new__ (shape not modelled)")

    def mentions_key(e, k, derived):
        for x in ast.walk(e):
            if isinstance(x, ast.Subscript) and isinstance(x.value, ast.Name) and x.value.id == P and _const_str(x.slice) == k:
                return True
            if isinstance(x, ast.Call) and isinstance(x.func, ast.Attribute) and x.func.attr == "get" and isinstance(x.func.value, ast.Name) and x.func.value.id == P and x.args and _const_str(x.args[0]) == k:
                return True
            if isinstance(x, ast.Name) and x.id in derived:
                return True
        return False

    for k in sorted(set(reads) - set(written)):
        ctx.check(all(tol for n, tol in reads[k]), "D1", "key %r (not written) feeds a slot only as a guarded option" % k, r.where(reads[k][0][0]),
                  "from_dict fills a slot from %r, which to_dict never writes" % k, construct=r.qualname, stmt="restore from unwritten key %s" % k)
    for k, vexpr in sorted(written.items()):
        src = sorted({a.attr for a in ast.walk(vexpr) if isinstance(a, ast.Attribute) and isinstance(a.value, ast.Name) and a.value.id == selfname and a.attr in slots})
        if len(src) != 1:
            raise AnalysisError("to_dict value for key %r reads %d slots (%s); expected one" % (k, len(src), src))
        slot = src[0]
        if k not in reads:
            ctx.fail("D1", "key %r (taken from self.%s) is restored into new.%s" % (k, slot, slot), r.where(),
                     "to_dict fills %r from self.%s, but from_dict never reads that key: new.%s is not restored from the stored form" % (k, slot, slot),
                     construct=r.qualname, stmt="restore %s" % slot)
            continue
        derived = set()
        for s in ast.walk(r.node):
            if isinstance(s, ast.Assign) and len(s.targets) == 1 and isinstance(s.targets[0], ast.Name) and mentions_key(s.value, k, ()):
                derived.add(s.targets[0].id)
            # `for key, lst in tree_dict[k].items():` - the loop variables carry the stored entry
            if isinstance(s, (ast.For, ast.comprehension)) and mentions_key(s.iter, k, ()):
                derived.update(x.id for x in ast.walk(s.target) if isinstance(x, ast.Name))
        feeds = []  # expressions that flow into new.<slot>
        aliases = set()
        for s in ast.walk(r.node):
            if isinstance(s, ast.Assign):
                for t in s.targets:
                    if isinstance(t, ast.Attribute) and t.attr == slot and isinstance(t.value, ast.Name) and t.value.id == new:
                        feeds.append(s.value)
                        if isinstance(s.value, ast.Name):
                            aliases.add(s.value.id)
                    # element store `new.<slot>[key] = value` (or through a local naming the slot's object)
                    if isinstance(t, ast.Subscript):
                        b = t.value
                        if (isinstance(b, ast.Attribute) and b.attr == slot and isinstance(b.value, ast.Name) and b.value.id == new) or (isinstance(b, ast.Name) and b.id in aliases):
                            feeds.append(s.value)
                # a local bound *from* the slot (`graph = new._graph`) names the same object
                if len(s.targets) == 1 and isinstance(s.targets[0], ast.Name) and isinstance(s.value, ast.Attribute) and s.value.attr == slot and isinstance(s.value.value, ast.Name) and s.value.value.id == new:
                    aliases.add(s.targets[0].id)
        for s in ast.walk(r.node):
            if isinstance(s, ast.Call) and isinstance(s.func, ast.Attribute):
                recv = s.func.value
                on_slot = isinstance(recv, ast.Attribute) and recv.attr == slot and isinstance(recv.value, ast.Name) and recv.value.id == new
                on_alias = isinstance(recv, ast.Name) and recv.id in aliases
                if on_slot or on_alias:
                    feeds.extend(s.args)
                    feeds.extend(kw.value for kw in s.keywords)
        if not feeds:
            raise AnalysisError("Tree.from_dict never assigns slot %s" % slot)
        ok = any(mentions_key(f, k, derived) for f in feeds)
        ctx.check(ok, "D1", "key %r (taken from self.%s) is restored into new.%s" % (k, slot, slot), r.where(feeds[0]),
                  "to_dict fills %r from self.%s, but nothing that from_dict puts into new.%s comes from tree_dict[%r]: the slot is restored from another key" % (k, slot, slot, k),
                  construct=r.qualname, stmt="restore %s" % slot)
    ctx.note("to_dict keys: %s" % sorted(written))
    ctx.analysed(w, r)


# --------------------------------------------------------------------------- D2
def _must_assign(prog, ci, fi, recv, depth=0, stack=()):
    """Attribute names assigned on `recv` on *every* normally-ending abstract path of `fi`."""
    if depth > 4 or fi.qualname in stack:
        return set()
    common = None
    for steps, oc in enumerate_paths(fi.node.body):
        if oc == "raise":
            continue
        got = set()
        for st in steps:
            if st.kind != "stmt":
                continue
            n = st.node
            targets = []
            if isinstance(n, ast.Assign):
                targets = list(n.targets)
            elif isinstance(n, (ast.AnnAssign,)) and n.value is not None:
                targets = [n.target]
            for t in targets:
                for x in ast.walk(t):
                    if isinstance(x, ast.Attribute) and isinstance(x.ctx, ast.Store) and isinstance(x.value, ast.Name) and x.value.id == recv:
                        got.add(x.attr)
                        setter = prog.prop(ci, x.attr, "setter")
                        if setter is not None:
                            got.discard(x.attr)
                            got |= _must_assign(prog, ci, setter, setter.params[0], depth + 1, stack + (fi.qualname,))
            if isinstance(n, ast.Expr) and isinstance(n.value, ast.Call):
                c = n.value
                if isinstance(c.func, ast.Attribute) and isinstance(c.func.value, ast.Name) and c.func.value.id == recv:
                    m = prog.method(ci, c.func.attr)
                    if m is not None and m.params:
                        got |= _must_assign(prog, ci, m, m.params[0], depth + 1, stack + (fi.qualname,))
                elif (dotted(c.func) or "") == "setattr" and len(c.args) == 3 and isinstance(c.args[0], ast.Name) and c.args[0].id == recv and _const_str(c.args[1]):
                    got.add(_const_str(c.args[1]))
        common = got if common is None else (common & got)
    # `for name in ("a", "b"): setattr(recv, name, ...)` as a top-level statement (the tuple a literal or a module-level
    # constant): a loop over a non-empty constant runs for each of its names on every path
    always = set()
    for n in fi.node.body:
        if isinstance(n, ast.For) and isinstance(n.target, ast.Name) and not n.orelse:
            names = _const_strs(fi.module, n.iter)
            if not names:
                continue
            for st in n.body:
                if isinstance(st, ast.Expr) and isinstance(st.value, ast.Call) and (dotted(st.value.func) or "") == "setattr" and len(st.value.args) == 3:
                    a0, a1 = st.value.args[0], st.value.args[1]
                    if isinstance(a0, ast.Name) and a0.id == recv and isinstance(a1, ast.Name) and a1.id == n.target.id:
                        always |= set(names)
                if any(isinstance(x, (ast.Break, ast.Continue, ast.Return, ast.Raise)) for x in ast.walk(st)):
                    break
    return (common if common is not None else set()) | always


def _const_strs(module, e):
    """The strings of a literal tuple / list, or of a module-level constant bound once to one; else None."""
    if isinstance(e, ast.Name):
        vals = [st.value for st in module.tree.body if isinstance(st, ast.Assign) and len(st.targets) == 1 and isinstance(st.targets[0], ast.Name) and st.targets[0].id == e.id]
        if len(vals) != 1:
            return None
        e = vals[0]
    if isinstance(e, (ast.Tuple, ast.List)) and e.elts and all(isinstance(x, ast.Constant) and isinstance(x.value, str) for x in e.elts):
        return [x.value for x in e.elts]
    return None


def rule_D2(ctx):
    prog = ctx.prog
    ctx.rule("D2", "every name in __slots__ is assigned on every path of every alternative constructor (__init__, __new__-based copy / from_dict; property setters followed)", 54)
    for suffix in SLOT_CLASSES:
        ci = prog.cls(suffix)
        if not ci.slots:
            raise AnalysisError("%s has no literal __slots__" % ci.name)
        ctors = []
        init = ci.methods.get("__init__")
        if init is None:
            raise AnalysisError("%s has no __init__" % ci.name)
        ctors.append((init, init.params[0]))
        for m in ci.methods.values():
            if m is init:
                continue
            nv = _new_var(m)
            if nv is not None:
                rets = [x for x in ast.walk(m.node) if isinstance(x, ast.Return)]
                if not rets or not all(isinstance(x.value, ast.Name) and x.value.id == nv for x in rets):
                    raise AnalysisError("%s allocates with __new__ but does not return that object on every exit" % m.qualname)
                ctors.append((m, nv))
        for m, recv in ctors:
            have = _must_assign(prog, ci, m, recv)
            for s in ci.slots:
                ctx.check(s in have, "D2", "%s.%s assigns slot %s on every path" % (ci.name, m.name, s), m.where(),
                          "slot %r of %s is not assigned on every path of %s: the object it returns raises AttributeError (or, after pickling, loses the field) as soon as the slot is read" % (s, ci.name, m.qualname),
                          construct=m.qualname, stmt="slot %s" % s)
            ctx.analysed(m)
        ctx.note("%s: %d slots, constructors %s" % (ci.name, len(ci.slots), [m.name for m, _ in ctors]))


# --------------------------------------------------------------------------- D3
def names_in_expr(e):
    return {n.id for n in ast.walk(e) if isinstance(n, ast.Name)}


def rule_D3(ctx):
    prog = ctx.prog
    ctx.rule("D3", "from_dict rebuilds one payload per clone from the entry's prior and data at the clone's graph index, removes index holes, copies maps and per-clone lists (as to_dict does), and refreshes the recursion last", 12)
    r = prog.fn("Tree.from_dict")
    w = prog.fn("Tree.to_dict")
    P = r.params[1]
    new = _new_var(r)
    if new is None:
        raise AnalysisError("Tree.from_dict no longer allocates with __new__")
    fn = r.node

    def key_of(e):
        """Dictionary key an expression denotes: tree_dict['k'] or a local bound once to it."""
        if isinstance(e, ast.Subscript) and isinstance(e.value, ast.Name) and e.value.id == P:
            return _const_str(e.slice)
        if isinstance(e, ast.Call) and isinstance(e.func, ast.Attribute) and e.func.attr == "get" and isinstance(e.func.value, ast.Name) and e.func.value.id == P and e.args:
            return _const_str(e.args[0])
        if isinstance(e, ast.Name):
            d = _single_def(fn, e.id)
            if d is not None and d is not e:
                return key_of(d)
        return None

    def slot_value(slot):
        vals = [s.value for s in ast.walk(fn) if isinstance(s, ast.Assign) for t in s.targets if isinstance(t, ast.Attribute) and t.attr == slot and isinstance(t.value, ast.Name) and t.value.id == new]
        if len(vals) != 1:
            raise AnalysisError("Tree.from_dict assigns new.%s %d times" % (slot, len(vals)))
        return vals[0]

    def same_value(a, b):
        if isinstance(a, ast.Name) and isinstance(b, ast.Name) and a.id == b.id:
            return True
        ka, kb = key_of(a), key_of(b)
        return ka is not None and ka == kb

    gval = slot_value("_graph")
    if not isinstance(gval, ast.Name):
        raise AnalysisError("Tree.from_dict: new._graph is not bound from a local graph object")
    G = gval.id

    # ---- the payload loop
    loops = [l for l in ast.walk(fn) if isinstance(l, ast.For) and isinstance(l.iter, ast.Call) and isinstance(l.iter.func, ast.Attribute) and l.iter.func.attr == "items" and key_of(l.iter.func.value) == "node_data"]
    loops = [l for l in loops if any(last_name(c) == "TreeNode" for c in calls(l))]
    if len(loops) != 1 or not (isinstance(loops[0].target, ast.Tuple) and len(loops[0].target.elts) == 2 and all(isinstance(e, ast.Name) for e in loops[0].target.elts)):
        raise AnalysisError("Tree.from_dict: expected one `for node, data in tree_dict['node_data'].items()` loop that builds TreeNode payloads, found %d" % len(loops))
    loop = loops[0]
    kvar, vvar = (e.id for e in loop.target.elts)
    mk = [c for c in calls(loop) if last_name(c) == "TreeNode"]
    if len(mk) != 1:
        raise AnalysisError("Tree.from_dict: %d TreeNode constructions in the payload loop" % len(mk))
    mk = mk[0]
    lp = parents(loop)
    st = lp.get(id(mk))
    if not (isinstance(st, ast.Assign) and len(st.targets) == 1 and isinstance(st.targets[0], ast.Name)):
        raise AnalysisError("Tree.from_dict: the TreeNode payload is not bound to a local")
    pay = st.targets[0].id
    tn_init = prog.fn("TreeNode.__init__")
    names = tn_init.params[1:]

    def tn_arg(i):
        return mk.args[i] if i < len(mk.args) else kwarg(mk, names[i])

    a_grid, a_prior, a_id = tn_arg(0), tn_arg(1), tn_arg(2)
    ok = a_grid is not None and a_prior is not None and same_value(a_grid, slot_value("grid_size")) and same_value(a_prior, slot_value("_log_prior"))
    ctx.check(ok, "D3", "payload is TreeNode(<restored grid_size>, <restored log_prior>, …)", r.where(mk),
              "the per-clone payload is built as %s, not from the grid size and prior that from_dict restores into the tree: per-node likelihoods differ from the original's" % u(mk),
              construct=r.qualname, stmt="TreeNode payload prior")
    ctx.check(isinstance(a_id, ast.Name) and a_id.id == kvar, "D3", "payload carries the clone's own label", r.where(mk),
              "the payload's node_id is %s, not the key of the node_data entry being restored" % u(a_id), construct=r.qualname, stmt="TreeNode payload label")
    fills = [c for c in calls(loop) if isinstance(c.func, ast.Attribute) and c.func.attr in ("add_data_point_list", "add_data_point") and isinstance(c.func.value, ast.Name) and c.func.value.id == pay]
    ok = len(fills) == 1 and fills[0].func.attr == "add_data_point_list" and len(fills[0].args) == 1 and isinstance(fills[0].args[0], ast.Name) and fills[0].args[0].id == vvar and not _io.loop_ancestor(fills[0], loop, lp)
    ctx.check(ok, "D3", "payload is filled once with the clone's whole data list", r.where(fills[0]) if fills else r.where(mk),
              "the payload is filled by %s; it must receive exactly the data list stored under that clone (add_data_point_list(<list of this clone>))" % ("; ".join(u(c) for c in fills) or "nothing"),
              construct=r.qualname, stmt="payload fill")
    puts = [s for s in ast.walk(loop) if isinstance(s, ast.Assign) and len(s.targets) == 1 and isinstance(s.targets[0], ast.Subscript) and isinstance(s.targets[0].value, ast.Name) and s.targets[0].value.id == G]
    ok = False
    if len(puts) == 1 and isinstance(puts[0].value, ast.Name) and puts[0].value.id == pay:
        idx = puts[0].targets[0].slice
        if isinstance(idx, ast.Name):
            d = [s.value for s in ast.walk(loop) if isinstance(s, ast.Assign) and len(s.targets) == 1 and isinstance(s.targets[0], ast.Name) and s.targets[0].id == idx.id]
            idx = d[0] if len(d) == 1 else idx
        ok = isinstance(idx, ast.Subscript) and key_of(idx.value) == "node_idx" and isinstance(idx.slice, ast.Name) and idx.slice.id == kvar
    ctx.check(ok, "D3", "payload is stored at graph index node_idx[<clone>]", r.where(puts[0]) if puts else r.where(loop),
              "the payload is stored by `%s`; it must go to graph[tree_dict['node_idx'][<this clone>]], the index the edge list refers to" % ("; ".join(u(s) for s in puts) or "nothing"),
              construct=r.qualname, stmt="payload index")

    # ---- the reserved entries (outlier set, virtual root) own no payload: the loop skips them before it indexes node_idx
    skip_ok = False
    first = loop.body[0] if loop.body else None
    # statements ahead of the skip that touch neither the graph, the index map nor a payload do not matter here
    for cand in loop.body:
        touches = any((isinstance(x, ast.Name) and x.id in (G, pay)) or (isinstance(x, ast.Call) and last_name(x) == "TreeNode") or (isinstance(x, ast.Subscript) and key_of(x.value) == "node_idx") for x in ast.walk(cand))
        if isinstance(cand, ast.If) or touches:
            first = cand
            break
    if isinstance(first, ast.If) and len(first.body) == 1 and isinstance(first.body[0], ast.Continue) and not first.orelse:
        t = u(first.test)
        names_ok = ("outlier" in t.lower()) and ("root" in t.lower()) and (" or " in t) and ("!=" not in t) and (kvar in names_in_expr(first.test))
        skip_ok = names_ok
    else:
        # equivalent: the whole body guarded by `if node != outlier and node != root:` / `not in (outlier, root)`
        if len(loop.body) == 1 and isinstance(loop.body[0], ast.If) and not loop.body[0].orelse:
            t = u(loop.body[0].test)
            skip_ok = ("outlier" in t.lower()) and ("root" in t.lower()) and (kvar in names_in_expr(loop.body[0].test)) and (("!=" in t and " and " in t) or "not in" in t)
    ctx.check(skip_ok, "D3", "the payload loop skips the outlier and root entries", r.where(first) if first is not None else r.where(loop),
              "the loop over node_data does not skip exactly the outlier set and the virtual root: restoring any tree that holds an outlier then looks up node_idx[<outlier name>] (KeyError), or a clone is skipped",
              construct=r.qualname, stmt="skip reserved entries")

    # ---- index holes
    rm = [c for c in calls(fn) if isinstance(c.func, ast.Attribute) and c.func.attr in ("remove_nodes_from", "remove_node") and isinstance(c.func.value, ast.Name) and c.func.value.id == G]
    ok, why = False, "from_dict never removes the graph indices that extend_from_edge_list created but no clone owns"
    if len(rm) == 1 and rm[0].args:
        h = rm[0].args[0]
        if isinstance(h, ast.Name):
            h = _single_def(fn, h.id) or h
        if isinstance(h, ast.Call) and (dotted(h.func) or "") in ("list", "tuple", "set") and len(h.args) == 1:
            h = h.args[0]
        if isinstance(h, (ast.ListComp, ast.GeneratorExp, ast.SetComp)) and len(h.generators) == 1:
            g = h.generators[0]
            it_ok = isinstance(g.iter, ast.Call) and isinstance(g.iter.func, ast.Attribute) and g.iter.func.attr == "node_indices" and isinstance(g.iter.func.value, ast.Name) and g.iter.func.value.id == G
            c_ok = False
            if len(g.ifs) == 1 and isinstance(g.ifs[0], ast.Compare) and len(g.ifs[0].ops) == 1 and isinstance(g.target, ast.Name):
                t = g.ifs[0]
                against = t.comparators[0]
                is_rev = key_of(against) == "node_idx_rev" or (isinstance(against, ast.Attribute) and against.attr == "_node_indices_rev" and isinstance(against.value, ast.Name) and against.value.id == new)
                c_ok = isinstance(t.ops[0], ast.NotIn) and isinstance(t.left, ast.Name) and t.left.id == g.target.id and is_rev and isinstance(h.elt, ast.Name) and h.elt.id == g.target.id
            ok = it_ok and c_ok
            why = "the indices removed are `%s`; they must be exactly the graph indices absent from node_idx_rev" % u(h)[:110]
        else:
            raise AnalysisError("Tree.from_dict: the removed index set is built by %s, a shape this check does not model" % u(h)[:60])
    ctx.check(ok, "D3", "graph indices absent from node_idx_rev are removed", r.where(rm[0]) if rm else r.where(), why, construct=r.qualname, stmt="index holes")

    # ---- copies (reader and writer side)
    for slot, key in (("_node_indices", "node_idx"), ("_node_indices_rev", "node_idx_rev")):
        v = slot_value(slot)
        inner = _copied(v)
        ctx.check(inner is not None and key_of(inner) is not None, "D3", "from_dict copies the %s map" % key, r.where(v),
                  "new.%s = %s aliases the stored dictionary: editing the restored tree rewrites the stored form (every later restore of the same particle sees the edit)" % (slot, u(v)),
                  construct=r.qualname, stmt="copy %s" % slot)
    data_feeds = [a for c in calls(fn) if isinstance(c.func, ast.Attribute) and c.func.attr == "update" and isinstance(c.func.value, ast.Attribute) and c.func.value.attr == "_data" and isinstance(c.func.value.value, ast.Name) and c.func.value.value.id == new for a in c.args]
    dv = slot_value("_data")
    # element stores `new._data[k] = <copy of v>` in a loop over the stored node_data entries
    for l in ast.walk(fn):
        if isinstance(l, ast.For) and isinstance(l.iter, ast.Call) and isinstance(l.iter.func, ast.Attribute) and l.iter.func.attr == "items" and key_of(l.iter.func.value) == "node_data" and isinstance(l.target, ast.Tuple) and len(l.target.elts) == 2 and all(isinstance(e, ast.Name) for e in l.target.elts):
            kv, vv = (e.id for e in l.target.elts)
            for a in ast.walk(l):
                if isinstance(a, ast.Assign) and len(a.targets) == 1 and isinstance(a.targets[0], ast.Subscript):
                    b = a.targets[0].value
                    if isinstance(b, ast.Attribute) and b.attr == "_data" and isinstance(b.value, ast.Name) and b.value.id == new:
                        inner = _copied(a.value)
                        if not (isinstance(a.targets[0].slice, ast.Name) and a.targets[0].slice.id == kv):
                            raise AnalysisError("Tree.from_dict: new._data is filled under a key other than the stored entry's (%s)" % u(a))
                        # the same obligation, spelled per entry: {k: copy(v) for k, v in tree_dict['node_data'].items()}
                        data_feeds.append(ast.DictComp(key=ast.Name(id=kv, ctx=ast.Load()), value=a.value, generators=[ast.comprehension(target=l.target, iter=l.iter, ifs=[], is_async=0)]))
    if not data_feeds:
        data_feeds = [dv]
    ok = any(_per_value_copy(f) is not None and key_of(_per_value_copy(f)) == "node_data" for f in data_feeds)
    if not ok:  # defaultdict(list, {k: v.copy() ...})
        ok = any(isinstance(f, ast.Call) and any(_per_value_copy(a) is not None and key_of(_per_value_copy(a)) == "node_data" for a in f.args) for f in data_feeds)
    ctx.check(ok, "D3", "from_dict copies every per-clone data list", r.where(data_feeds[0]),
              "new._data is filled from %s without copying each list: adding a data point to the restored tree appends to the stored form's list" % u(data_feeds[0])[:90],
              construct=r.qualname, stmt="copy _data")
    written = _written_dict(w)
    selfname = w.params[0]
    def written_from(slot):
        return [(k, v) for k, v in sorted(written.items()) if any(isinstance(a, ast.Attribute) and a.attr == slot and isinstance(a.value, ast.Name) and a.value.id == selfname for a in ast.walk(v))]

    for slot in ("_node_indices", "_node_indices_rev"):
        ents = written_from(slot)
        if len(ents) != 1:
            raise AnalysisError("to_dict stores self.%s under %d keys" % (slot, len(ents)))
        key, v = ents[0]
        inner = _copied(v)
        ctx.check(isinstance(inner, ast.Attribute) and inner.attr == slot, "D3", "to_dict copies the %s map" % slot, w.where(v),
                  "to_dict stores %s itself under %r: the dictionary form (kept by every particle) changes whenever the live tree is edited or relabelled" % (u(v), key),
                  construct=w.qualname, stmt="copy %s" % slot)
    ents = written_from("_data")
    if len(ents) != 1:
        raise AnalysisError("to_dict stores self._data under %d keys" % len(ents))
    inner = _per_value_copy(ents[0][1])
    ctx.check(isinstance(inner, ast.Attribute) and inner.attr == "_data", "D3", "to_dict copies every per-clone data list", w.where(ents[0][1]),
              "to_dict stores %s: the per-clone lists are shared with the live tree, so a later move changes the stored form" % u(ents[0][1])[:90],
              construct=w.qualname, stmt="copy node_data")

    # ---- refresh last
    def is_update(st):
        n = st.node
        return st.kind == "stmt" and isinstance(n, ast.Expr) and isinstance(n.value, ast.Call) and isinstance(n.value.func, ast.Attribute) and n.value.func.attr == "update" and isinstance(n.value.func.value, ast.Name) and n.value.func.value.id == new

    def touches_graph(st):
        if st.kind != "stmt":
            return False
        n = st.node
        for x in ast.walk(n):
            if isinstance(x, ast.Call) and isinstance(x.func, ast.Attribute) and isinstance(x.func.value, ast.Name) and x.func.value.id == G and x.func.attr in ("add_node", "add_edge", "extend_from_edge_list", "remove_nodes_from", "remove_node", "add_nodes_from", "add_edges_from"):
                return True
            if isinstance(x, ast.Subscript) and isinstance(x.ctx, ast.Store) and isinstance(x.value, ast.Name) and x.value.id == G:
                return True
        return False

    bad = None
    n_ret = 0
    for steps, oc in enumerate_paths(fn.body):
        if oc != "return":
            if oc == "fall":
                bad = bad or (steps[-1] if steps else None, "a path leaves from_dict without returning the tree")
            continue
        n_ret += 1
        ups = [i for i, s in enumerate(steps) if is_update(s)]
        gs = [i for i, s in enumerate(steps) if touches_graph(s)]
        if not ups:
            bad = bad or (steps[-1], "a path returns the restored tree without calling update(): log_r of inner nodes is still zero, so likelihoods and log densities differ from the original's")
        elif gs and max(gs) > max(ups):
            bad = bad or (steps[max(gs)], "`%s` changes the graph after the last update(): the recursion values returned are stale" % u(steps[max(gs)].node)[:60])
    if n_ret == 0:
        raise AnalysisError("Tree.from_dict has no returning path")
    ctx.check(bad is None, "D3", "every returning path ends with update() after the last change to the graph", r.where(bad[0].node) if bad and bad[0] is not None else r.where(),
              bad[1] if bad else "", construct=r.qualname, stmt="update() last")
    ctx.analysed(r, w)


# --------------------------------------------------------------------------- R1
ENTRY_SPEC = """
def s(i, timer, trace, tree, tree_dist):
    trace.append({"iter": i, "time": timer.elapsed, "alpha": tree_dist.prior.alpha,
                  "log_p_one": tree_dist.log_p_one(tree), "tree": tree.to_dict()})
"""
CHECKED_ENTRY_KEYS = ("iter", "alpha", "log_p_one", "tree")  # "time" is wall-clock, outside the property


def _entry_of(ex, fi):
    evs = ex.calls(".append")
    if len(evs) > 1 and all(len(e.args) == 1 and isinstance(e.args[0], ADict) for e in evs) and len({id(e.node) for e in evs}) == 1 and len({vkey(e.recv) for e in evs}) == 1:
        # one append statement reached in several guard scenarios: the entry is the conditional of the scenarios' entries
        from ..termflow import g_and, g_covers, make_cond

        keysets = {tuple(sorted(repr(kv) for kv, _ in e.args[0].items.values())) for e in evs}
        if len(keysets) != 1:
            raise AnalysisError("%s: the entry's keys depend on the path taken" % fi.qualname)
        items = {}
        for kk, (kv, _v) in evs[0].args[0].items.items():
            if not isinstance(kv, str):
                raise AnalysisError("%s: non-literal key in the trace entry" % fi.qualname)
            alts = [(g_and(list(getattr(e, "full_guards", None) or e.guards)), as_term(e.args[0].items[kk][1])) for e in evs]
            if not g_covers([g for g, _ in alts]):
                raise AnalysisError("%s: the append is reached in %d guard scenarios that do not visibly cover every path" % (fi.qualname, len(alts)))
            alts[-1] = (TRUE, alts[-1][1])
            items[kv] = make_cond(alts)
        return evs[0], items
    if len(evs) != 1 or len(evs[0].args) != 1 or not isinstance(evs[0].args[0], ADict):
        raise AnalysisError("%s: expected exactly one <trace>.append(<entry dictionary>), found %d" % (fi.qualname, len(evs)))
    d = evs[0].args[0]
    items = {}
    for kk, (kv, val) in d.items.items():
        if not isinstance(kv, str):
            raise AnalysisError("%s: non-literal key in the trace entry" % fi.qualname)
        items[kv] = val
    for e in ex.events:  # entry["k"] = v on the dictionary before it is appended
        if e.name == "store_sub" and len(e.args) == 3 and (e.args[0] is d or (isinstance(e.args[0], ADict) and vkey(e.args[0]) == vkey(d))):
            if e.node is not None and evs[0].node is not None and getattr(e.node, "lineno", 0) > getattr(evs[0].node, "lineno", 0):
                raise AnalysisError("%s: the entry is modified after it was appended (shape not modelled)" % fi.qualname)
            if not isinstance(e.args[1], str):
                raise AnalysisError("%s: non-literal key stored into the trace entry" % fi.qualname)
            items[e.args[1]] = e.args[2]
    return evs[0], items


def rule_R1(ctx):
    prog = ctx.prog
    ctx.rule("R1", "one trace entry: iter is the counter handed in; alpha is read from, and log_p_one computed with, the same tree_dist on the same tree whose to_dict() is stored", 6)
    f = prog.fn("run.append_to_trace")
    if len(f.params) != 5:
        ctx.note("append_to_trace now takes %d parameters (%s); the specification binds the first five positionally" % (len(f.params), f.params))
    ex = extract(prog, f)
    spec_src = ENTRY_SPEC
    want_names = ["i", "timer", "trace", "tree", "tree_dist"]
    if f.params[:5] != want_names and set(want_names) <= set(f.params):
        # the same parameters in another order (or with further ones): the specification binds them by name
        spec_src = ENTRY_SPEC.replace("def s(i, timer, trace, tree, tree_dist):", "def s(%s):" % ", ".join(p_ if p_ in want_names else p_ + "=None" for p_ in f.params))
    sp = spec(prog, spec_src, f)
    ev, got = _entry_of(ex, f)
    sev, want = _entry_of(sp, f)
    same(ctx, "R1", "append_to_trace appends to the trace it is handed", f, ev.recv, sev.recv, "receiver of append")
    # every call records: an append that sits under a test (`if this iteration is not there yet`, `if the tree changed`)
    # drops entries the thinning rule says are due
    conds = [g for g in (getattr(ev, "full_guards", None) or ev.guards)] if len(ex.calls(".append")) == 1 else []
    ctx.check(not conds, "R1", "append_to_trace records an entry on every call", f.where(ev.node), "the entry is appended only when %s: a due entry can be skipped (the post-burn-in entry and iteration 0 both carry iter = 0, equal trees recur)" % "; ".join(show_key(g)[:120] for g in conds[:2]), construct=f.qualname, stmt="unconditional append")
    missing = [k for k in want if k not in got]
    ctx.check(not missing, "R1", "entry has the keys iter, time, alpha, log_p_one, tree", f.where(ev.node),
              "the entry lacks %s" % missing, construct=f.qualname, stmt="entry keys")
    for k in CHECKED_ENTRY_KEYS:
        if k in got:
            same(ctx, "R1", "entry[%r]" % k, f, got[k], want[k], "entry[%r]" % k, node=ev.node)
        else:
            ctx.fail("R1", "entry[%r]" % k, f.where(ev.node), "the entry has no %r" % k, construct=f.qualname, stmt="entry[%r]" % k)
    ctx.analysed(f)
    return ex, got


# --------------------------------------------------------------------------- R2
def _arg_at(call, callee, pname, shift=0):
    ps = callee.params
    if pname not in ps:
        raise AnalysisError("%s has no parameter %s" % (callee.qualname, pname))
    i = ps.index(pname) + shift
    if any(isinstance(a, ast.Starred) for a in call.args):
        raise AnalysisError("star-arguments in %s" % u(call)[:60])
    if i < len(call.args):
        return call.args[i]
    return kwarg(call, pname)


def _thin_test(test, pol, ivar, thin):
    """Does (test, polarity) say `ivar % thin == 0`?"""
    def is_mod(e):
        return isinstance(e, ast.BinOp) and isinstance(e.op, ast.Mod) and isinstance(e.left, ast.Name) and e.left.id == ivar and isinstance(e.right, ast.Name) and e.right.id == thin

    def is_zero(e):
        return isinstance(e, ast.Constant) and e.value == 0 and not isinstance(e.value, bool)

    if isinstance(test, ast.Compare) and len(test.ops) == 1:
        a, b = test.left, test.comparators[0]
        if (is_mod(a) and is_zero(b)) or (is_mod(b) and is_zero(a)):
            if isinstance(test.ops[0], ast.Eq):
                return pol
            if isinstance(test.ops[0], ast.NotEq):
                return not pol
        return False
    if isinstance(test, ast.UnaryOp) and isinstance(test.op, ast.Not) and is_mod(test.operand):
        return pol
    if is_mod(test):
        return not pol
    return False


def _mutates_param(prog, callee, pname):
    """Does `callee` store into an attribute chain rooted at its parameter `pname`?"""
    for n in ast.walk(callee.node):
        if isinstance(n, (ast.Assign, ast.AugAssign, ast.AnnAssign)):
            tg = n.targets if isinstance(n, ast.Assign) else [n.target]
            for t in tg:
                for x in ast.walk(t):
                    if isinstance(x, (ast.Attribute, ast.Subscript)) and isinstance(x.ctx, ast.Store):
                        root = x
                        while isinstance(root, (ast.Attribute, ast.Subscript)):
                            root = root.value
                        if isinstance(root, ast.Name) and root.id == pname:
                            return True
    return False


def rule_R2(ctx, entry_terms):
    prog = ctx.prog
    ctx.rule("R2", "setup_trace records one entry from the post-burn-in tree before the loop; in the loop the append is guarded by i % thin == 0 (thin = the CLI value), records the loop counter, follows every state change of its iteration, is reached before any early exit; the trace is only appended to", 15)
    f = prog.fn("run._run_main_sampler")
    st_fi = prog.fn("run.setup_trace")
    app = prog.fn("run.append_to_trace")
    chain = prog.fn("run.run_phyclone_chain")
    runf = prog.fn("phyclone.run.run")
    burn = prog.fn("run._run_burnin")

    # ---- (0) no way out of the main sampler without the post-burn-in entry: every returning path first passes through
    # the call that starts the trace (must-pass-through; helpers newer than the rules followed by name)
    from ..paths import enumerate_paths as _paths

    starters = {st_fi.name, app.name}
    for h_ in prog.functions.values():
        if prog.is_new_function(h_) and any(isinstance(c_, ast.Call) and call_name(c_).split(".")[-1] in (st_fi.name, app.name) for c_ in ast.walk(h_.node)):
            starters.add(h_.name)
    try:
        ps_ = _paths(f.node.body)
    except AnalysisError:
        ps_ = []
    for steps_, oc_ in ps_:
        if oc_ != "return":
            continue
        seen_ = any(isinstance(c_, ast.Call) and call_name(c_).split(".")[-1] in starters for s_ in steps_ if isinstance(s_.node, ast.AST) for c_ in ast.walk(s_.node))
        if not seen_:
            last_ = steps_[-1].node if steps_ else f.node
            ctx.fail("R2", "_run_main_sampler: every returning path has recorded the post-burn-in state", f.where(last_), "a path returns the chain's results without ever calling %s: the state the burn-in left (and everything after it) is missing from the trace on that path" % st_fi.name, construct=f.qualname, stmt="return before setup_trace")
            break
    else:
        ctx.ok("R2", "_run_main_sampler: every returning path has recorded the post-burn-in state", f.where())
    # ---- (1) setup_trace: exactly one entry, taken from the tree / tree_dist it is handed
    # (append_to_trace is kept opaque here; what one call appends is rule R1)
    ex = extract(prog, st_fi, no_inline=[app.name])
    sp = spec(prog, """
        def s(timer, tree, tree_dist):
            trace = []
            append_to_trace(0, timer, trace, tree, tree_dist)
            return trace
        """, st_fi, no_inline=[app.name])
    if ex.calls(app.name):
        same_events(ctx, "R2", "setup_trace makes exactly one append_to_trace(…, <new list>, tree, tree_dist) call", st_fi, ex.calls(app.name), sp.calls(app.name),
                    "append_to_trace calls of setup_trace", skip_args=(0, 1), guards=True)
        same(ctx, "R2", "setup_trace returns that list, which starts empty", st_fi, ex.result, sp.result, "returned trace")
        others = [e for e in ex.events if e.name in (".append", ".extend", ".insert")]
        if others:
            raise AnalysisError("setup_trace grows the trace by %s besides append_to_trace (shape not modelled)" % others[0].name)
    else:
        # the first entry is built without going through append_to_trace (a shared record builder, say): decided on
        # the list that is returned — what `trace = []; append_to_trace(0, timer, trace, tree, tree_dist)` leaves in it
        ex2 = extract(prog, st_fi, inline=[app.name])
        sp2 = spec(prog, """
            def s(timer, tree, tree_dist):
                trace = []
                append_to_trace(0, timer, trace, tree, tree_dist)
                return trace
            """, st_fi, inline=[app.name])
        same(ctx, "R2", "setup_trace makes exactly one append_to_trace(…, <new list>, tree, tree_dist) call", st_fi, ex2.result, sp2.result, "returned trace (one entry: iteration 0, the tree and tree_dist handed in)")
        ctx.ok("R2", "setup_trace returns that list, which starts empty", st_fi.where(), "decided by the comparison of the returned list")

    # ---- (2) the call in _run_main_sampler: before the loop, on the tree parameter as received
    body = f.node.body
    pm = parents(f.node)
    scalls = [c for c in calls(f.node) if last_name(c) == st_fi.name]
    if len(scalls) != 1:
        raise AnalysisError("_run_main_sampler calls setup_trace %d times" % len(scalls))
    sc = scalls[0]
    sstmt = pm.get(id(sc))
    if not (isinstance(sstmt, ast.Assign) and len(sstmt.targets) == 1 and isinstance(sstmt.targets[0], ast.Name) and any(sstmt is s for s in body)):
        raise AnalysisError("_run_main_sampler: `trace = setup_trace(...)` is not a top-level assignment")
    T = sstmt.targets[0].id
    t_arg = _arg_at(sc, st_fi, "tree")
    d_arg = _arg_at(sc, st_fi, "tree_dist")
    if "tree_dist" not in f.params:
        raise AnalysisError("_run_main_sampler has no tree_dist parameter")
    loops = [s for s in body if isinstance(s, (ast.For, ast.While))]
    early = [s for s in body[: body.index(sstmt)] if isinstance(s, (ast.For, ast.While)) or (isinstance(t_arg, ast.Name) and _stores(s, t_arg.id))]
    ok = isinstance(t_arg, ast.Name) and t_arg.id in f.params and not early and isinstance(d_arg, ast.Name) and d_arg.id == "tree_dist" and not _stores(f.node, "tree_dist")
    ctx.check(ok, "R2", "setup_trace(…, tree, tree_dist) runs before the loop on the tree as received", f.where(sc),
              "the initial entry is taken by `%s` %s: it must record the tree parameter before any sampler touches it" % (u(sstmt)[:70], "after `%s`" % u(early[0]).split("\n")[0][:50] if early else ""),
              construct=f.qualname, stmt="setup_trace call")
    TREE = t_arg.id if isinstance(t_arg, ast.Name) else "tree"
    # the tree handed in is the burn-in result
    mcalls = [c for c in calls(chain.node) if last_name(c) == f.name]
    if len(mcalls) != 1:
        raise AnalysisError("run_phyclone_chain calls _run_main_sampler %d times" % len(mcalls))
    a = _arg_at(mcalls[0], f, TREE)
    ok = False
    if isinstance(a, ast.Name):
        ok = True
        hit = 0
        for steps, oc in enumerate_paths(chain.node.body):
            idx = [i for i, s in enumerate(steps) if s.kind == "stmt" and any(x is mcalls[0] for x in ast.walk(s.node))]
            if not idx:
                continue
            hit += 1
            last = [s.node for s in steps[: idx[0]] if s.kind == "stmt" and _stores(s.node, a.id)]
            if not last or not (isinstance(last[-1], ast.Assign) and isinstance(last[-1].value, ast.Call) and last_name(last[-1].value) == burn.name):
                ok = False
        ok = ok and hit > 0
    ctx.check(ok, "R2", "run_phyclone_chain hands _run_main_sampler the tree returned by _run_burnin", chain.where(mcalls[0]),
              "the tree argument %s of _run_main_sampler is not the value last bound by `… = _run_burnin(…)`: the first entry would not be the state after burn-in" % (u(a) if a is not None else "?"),
              construct=chain.qualname, stmt="burn-in result to main sampler")

    # ---- (3) the loop and the append site
    def is_append(c):
        if last_name(c) == app.name and isinstance(c.func, ast.Name):
            return True
        return isinstance(c.func, ast.Attribute) and c.func.attr in ("append", "extend", "insert") and isinstance(c.func.value, ast.Name) and c.func.value.id == T

    sites = [c for c in calls(f.node) if is_append(c)]
    in_loop = [(c, _io.loop_ancestor(c, f.node, pm)) for c in sites]
    ctx.check(len(sites) == 1 and in_loop[0][1] is not None, "R2", "_run_main_sampler has one append site, inside the sampling loop", f.where(sites[0]) if sites else f.where(),
              "%d statements add to the trace in _run_main_sampler (%s); exactly one, inside the loop, is expected besides setup_trace" % (len(sites), "; ".join(u(c)[:40] for c in sites)),
              construct=f.qualname, stmt="append sites")
    if not sites:
        raise AnalysisError("_run_main_sampler never appends to the trace")
    ac = [c for c, l in in_loop if l is not None]
    if not ac:
        raise AnalysisError("_run_main_sampler appends to the trace only outside the loop")
    ac = ac[0]
    if not (last_name(ac) == app.name):
        raise AnalysisError("_run_main_sampler adds to the trace with %s instead of append_to_trace (shape not modelled)" % u(ac.func))
    # outermost loop containing the append
    loop = None
    cur = ac
    while cur is not None and cur is not f.node:
        if isinstance(cur, (ast.For, ast.While)):
            loop = cur
        cur = pm.get(id(cur))
    if not isinstance(loop, ast.For) or not isinstance(loop.target, ast.Name):
        raise AnalysisError("_run_main_sampler: the sampling loop is not `for <i> in …`")
    I = loop.target.id
    it = loop.iter
    ok = isinstance(it, ast.Call) and (dotted(it.func) or "") == "range" and not it.keywords
    if ok:
        ra = it.args
        zero = lambda e: isinstance(e, ast.Constant) and e.value == 0
        one = lambda e: isinstance(e, ast.Constant) and e.value == 1
        if len(ra) == 1:
            n = ra[0]
        elif len(ra) == 2 and zero(ra[0]):
            n = ra[1]
        elif len(ra) == 3 and zero(ra[0]) and one(ra[2]):
            n = ra[1]
        else:
            n = None
        ok = isinstance(n, ast.Name) and n.id in f.params and not _stores(f.node, n.id) and not _stores(loop, I)[1:]
        if ok:
            # … and that parameter is run.run's num_iters
            ok = _plumbed(prog, runf, chain, f, n.id, "num_iters")
    ctx.check(ok, "R2", "the loop is `for i in range(num_iters)`: every iteration 0 … num_iters-1 once, in order", f.where(loop),
              "the sampling loop iterates over %s" % u(it)[:60], construct=f.qualname, stmt="sampling loop range")

    # ---- (4) guard
    gs = []
    for test, pol in guards_of(ac, pm):
        inside = False
        cur = pm.get(id(test))
        while cur is not None:
            if cur is loop:
                inside = True
                break
            cur = pm.get(id(cur))
        if inside:
            gs.append((test, pol))
    thin_ok = None
    gtest = gs[0][0] if len(gs) == 1 else None
    if isinstance(gtest, ast.Name):  # `record = i % thin == 0; if record:` — a flag bound once, inside the loop, from the counter
        d = [x.value for x in ast.walk(loop) if isinstance(x, ast.Assign) and len(x.targets) == 1 and isinstance(x.targets[0], ast.Name) and x.targets[0].id == gtest.id]
        gtest = d[0] if len(d) == 1 and len(_stores(f.node, gtest.id)) == 1 else gtest
    for p in f.params:
        if gtest is not None and _thin_test(gtest, gs[0][1], I, p) and not _stores(f.node, p):
            thin_ok = p
    ctx.check(thin_ok is not None, "R2", "the append is guarded by exactly `i % thin == 0`", f.where(gs[0][0]) if gs else f.where(ac),
              "the append is guarded by %s; it must run exactly when the loop counter is a multiple of the thinning interval" % (" and ".join("%s%s" % ("" if pol else "not ", u(t)) for t, pol in gs) or "nothing"),
              construct=f.qualname, stmt="thin guard")
    if thin_ok is not None:
        ctx.check(_plumbed(prog, runf, chain, f, thin_ok, "thin"), "R2", "the guard's interval is run.run's `thin` (CLI --thin) through both call chains", chain.where(mcalls[0]),
                  "parameter %s of _run_main_sampler does not receive run.run's `thin` at every call site (positional argument lists out of step)" % thin_ok,
                  construct=runf.qualname, stmt="thin plumbing")

    # ---- (5) what the entry records: the counter, the moved tree, the chain's tree_dist, this trace
    ex_app, terms = entry_terms
    def param_feeding(key):
        v = terms.get(key)
        a = v.as_atom() if hasattr(v, "as_atom") else None
        if a is not None and a[0] == "v" and str(a[1]).startswith("P"):
            return int(str(a[1])[1:])
        return None

    pi = param_feeding("iter")
    if pi is not None:
        a = ac.args[pi] if pi < len(ac.args) else kwarg(ac, app.params[pi])
        ctx.check(isinstance(a, ast.Name) and a.id == I, "R2", "the entry's iter is the loop counter", f.where(ac),
                  "append_to_trace receives %s as the iteration number, not the loop counter %s" % (u(a) if a is not None else "nothing", I), construct=f.qualname, stmt="iter argument")
    else:
        ctx.fail("R2", "the entry's iter is the loop counter", app.where(), "entry['iter'] is not a parameter of append_to_trace", construct=app.qualname, stmt="iter argument")
    a_tree, a_dist, a_tr = _arg_at(ac, app, "tree"), _arg_at(ac, app, "tree_dist"), _arg_at(ac, app, "trace")  # AnalysisError if renamed
    ok = all(isinstance(x, ast.Name) for x in (a_tree, a_dist, a_tr)) and a_tree.id == TREE and a_dist.id == "tree_dist" and a_tr.id == T
    ctx.check(ok, "R2", "append_to_trace(i, timer, trace, tree, tree_dist) receives the chain's trace, current tree and tree_dist", f.where(ac),
              "the append call `%s` does not pass the trace started by setup_trace, the tree variable the samplers rebind and the chain's tree_dist" % u(ac)[:90], construct=f.qualname, stmt="append arguments")

    # ---- (6) ordering inside one iteration, (7) exits
    def classify(st):
        """'append' | 'mutator' | 'thin' | 'exit' | None for a path step."""
        n = st.node
        if st.kind == "test":
            return "thin" if gs and n is gs[0][0] else None
        if st.kind != "stmt":
            return None
        if isinstance(n, (ast.Break, ast.Continue, ast.Return, ast.Raise)):
            return "exit"
        if any(x is ac for x in ast.walk(n)):
            return "append"
        if _stores(n, TREE):
            return "mutator"
        for c in [x for x in ast.walk(n) if isinstance(x, ast.Call)]:
            if isinstance(n, ast.Expr) and c is n.value and isinstance(c.func, ast.Attribute) and isinstance(c.func.value, ast.Name) and c.func.value.id == TREE:
                return "mutator"  # a method of the tree called for its effect (relabel_nodes)
            g = _io.resolve_callee(prog, c, f.module)
            if g is not None:
                for i, a in enumerate(c.args):
                    if isinstance(a, ast.Name) and a.id in (TREE, "tree_dist") and i < len(g.params) and _mutates_param(prog, g, g.params[i]):
                        return "mutator"
        return None

    muts = {}
    late = {}
    exits_early = []
    n_iter_paths = 0
    for steps, oc in enumerate_paths([loop]):
        if not steps or steps[0].kind != "iter" or steps[0].taken != 1:
            continue
        n_iter_paths += 1
        kinds = [classify(s) for s in steps]
        ai = [i for i, k in enumerate(kinds) if k == "append"]
        ti = [i for i, k in enumerate(kinds) if k == "thin"]
        for i, k in enumerate(kinds):
            if k == "mutator":
                muts[id(steps[i].node)] = steps[i].node
                if ai and i > ai[0]:
                    late[id(steps[i].node)] = steps[i].node
            if k == "exit" and (not ti or i < ti[0]):
                exits_early.append(steps[i].node)
    if n_iter_paths == 0 or not muts:
        raise AnalysisError("_run_main_sampler: no state-changing statement recognised in the sampling loop")
    for k, n in sorted(muts.items(), key=lambda kv: kv[1].lineno):
        ctx.check(k not in late, "R2", "`%s` precedes the append of its iteration" % u(n)[:60], f.where(n),
                  "`%s` runs after the entry of the same iteration was appended: the entry does not record the state the iteration ends in" % u(n)[:70],
                  construct=f.qualname, stmt="order: " + u(n)[:80])
    ctx.check(not exits_early, "R2", "no break / continue / return is reached before the thinning test of the iteration", f.where(exits_early[0]) if exits_early else f.where(loop),
              "`%s` can leave the iteration before the thinning test: an iteration that is a multiple of thin may go unrecorded" % (u(exits_early[0])[:50] if exits_early else ""),
              construct=f.qualname, stmt="exit before append")

    # ---- (8) the trace is only appended to, and is what the chain returns
    bad = []
    for n in ast.walk(f.node):
        if isinstance(n, ast.Name) and n.id == T:
            par = pm.get(id(n))
            if isinstance(n.ctx, ast.Store) and par is not sstmt:
                bad.append(par)
            elif isinstance(n.ctx, ast.Del):
                bad.append(par)
            elif isinstance(par, ast.Subscript) and isinstance(par.ctx, (ast.Store, ast.Del)):
                bad.append(pm.get(id(par)))
            elif isinstance(par, ast.Attribute) and par.attr not in ("append", "__len__", "count", "index", "copy"):
                bad.append(pm.get(id(par)))
            elif isinstance(par, ast.Call) and n in par.args and not (last_name(par) in (app.name, "len", "print")):
                bad.append(par)
    ctx.check(not bad, "R2", "the trace list is bound once and only appended to", f.where(bad[0]) if bad else f.where(sstmt),
              "`%s` rebinds, reorders or removes from the trace" % (u(bad[0])[:70] if bad else ""), construct=f.qualname, stmt="trace only appended")
    rd = _written_dict(f)
    v = rd.get("trace")
    ctx.check(isinstance(v, ast.Name) and v.id == T, "R2", "the chain result's 'trace' is that list", f.where(v) if v is not None else f.where(),
              "the chain result stores %s under 'trace', not the list the entries were appended to" % (u(v) if v is not None else "nothing"), construct=f.qualname, stmt="result trace")
    ctx.analysed(f, st_fi, chain)
    return rd


def _plumbed(prog, runf, chain, f, pname, run_pname):
    """Parameter `pname` of _run_main_sampler receives run.run's `run_pname` at every call site
    (run.run → run_phyclone_chain, directly and through pool.submit; run_phyclone_chain → f)."""
    mcalls = [c for c in calls(chain.node) if last_name(c) == f.name]
    if len(mcalls) != 1:
        return False
    a = _arg_at(mcalls[0], f, pname)
    if not (isinstance(a, ast.Name) and a.id in chain.params and not _stores(chain.node, a.id)):
        return False
    q = a.id
    # keyword tables built once in run.run (`chain_kwargs = dict(thin=thin, ...)`) and handed on with `**chain_kwargs`,
    # possibly through one helper newer than the rules that receives the table as a parameter
    def tables_of(fn_node):
        out = {}
        for n in ast.walk(fn_node):
            if isinstance(n, ast.Assign) and len(n.targets) == 1 and isinstance(n.targets[0], ast.Name):
                v, d = n.value, None
                if isinstance(v, ast.Call) and isinstance(v.func, ast.Name) and v.func.id == "dict" and not v.args and all(k.arg for k in v.keywords):
                    d = {k.arg: k.value for k in v.keywords}
                elif isinstance(v, ast.Dict) and all(isinstance(k, ast.Constant) and isinstance(k.value, str) for k in v.keys):
                    d = {k.value: x for k, x in zip(v.keys, v.values)}
                if d is not None:
                    out.setdefault(n.targets[0].id, []).append(d)
        tabs = {k: v[0] for k, v in out.items() if len(v) == 1}
        for k in list(tabs):  # a table that is edited after it was built is not followed
            if any((isinstance(n, ast.Subscript) and isinstance(n.ctx, (ast.Store, ast.Del)) and isinstance(n.value, ast.Name) and n.value.id == k)
                   or (isinstance(n, ast.Call) and isinstance(n.func, ast.Attribute) and isinstance(n.func.value, ast.Name) and n.func.value.id == k and n.func.attr in ("update", "pop", "setdefault", "clear", "popitem"))
                   for n in ast.walk(fn_node)):
                del tabs[k]
        return tabs

    def sites_in(fn_node):
        d = [c for c in calls(fn_node) if last_name(c) == chain.name]
        s_ = [c for c in calls(fn_node) if isinstance(c.func, ast.Attribute) and c.func.attr in ("submit", "apply_async", "apply") and c.args and isinstance(c.args[0], ast.Name) and c.args[0].id == chain.name]
        return [(c, 0) for c in d] + [(c, 1) for c in s_]

    def arg_of(c, shift, env):
        b = _arg_at(c, chain, q, shift)
        if b is None:
            for kw in c.keywords:
                if kw.arg is None and isinstance(kw.value, ast.Name) and kw.value.id in env and q in env[kw.value.id]:
                    return env[kw.value.id][q]
        return b

    run_tabs = tables_of(runf.node)
    found = [(c, shift, run_tabs) for c, shift in sites_in(runf.node)]
    for hc in calls(runf.node):
        h = prog.resolve_function(hc.func.id, runf.module) if isinstance(hc.func, ast.Name) else None
        if h is None or not prog.is_new_function(h) or h is chain:
            continue
        env = {}
        for i, a in enumerate(hc.args):
            if isinstance(a, ast.Name) and a.id in run_tabs and i < len(h.params):
                env[h.params[i]] = run_tabs[a.id]
        for kw in hc.keywords:
            if kw.arg and isinstance(kw.value, ast.Name) and kw.value.id in run_tabs:
                env[kw.arg] = run_tabs[kw.value.id]
        for c, shift in sites_in(h.node):
            found.append((c, shift, env))
    if not found:
        raise AnalysisError("run.run never calls run_phyclone_chain")
    if run_pname not in runf.params:
        raise AnalysisError("run.run has no parameter %s" % run_pname)
    for c, shift, env in found:
        b = arg_of(c, shift, env)
        if b is None and any(kw.arg is None for kw in c.keywords):
            raise AnalysisError("%s reaches run_phyclone_chain through **%s, which is not a table built once in run.run" % (run_pname, u([kw.value for kw in c.keywords if kw.arg is None][0])))
        if not (isinstance(b, ast.Name) and b.id == run_pname):
            return False
    return not _stores(runf.node, run_pname)


# --------------------------------------------------------------------------- R3
class _Reads:
    """Provenance typing of the loaded trace inside the readers: RESULTS (chain -> chain result),
    CHAIN (one chain's result dictionary), TRACE (list of entries), ENTRY."""

    def __init__(self, prog):
        self.prog = prog
        self.reads = []  # (level, key, tolerant, fi, node)
        self.writes = []  # (level, key, conditional, fi, node)
        self.done = set()

    def scan(self, fi, env):
        key = (fi.qualname, tuple(sorted(env.items())))
        if key in self.done or len(self.done) > 200:
            return
        self.done.add(key)
        self.fi = fi
        self.pm = parents(fi.node)
        env = dict(env)
        for _ in range(2):
            self._block(fi.node.body, env, fi)

    def _block(self, stmts, env, fi):
        for s in stmts:
            self._stmt(s, env, fi)

    def _bind(self, target, t, env):
        if t is None:
            return
        if isinstance(target, ast.Name):
            if isinstance(t, tuple) and t[0] == "ITER":
                return
            env[target.id] = t
        elif isinstance(target, (ast.Tuple, ast.List)) and isinstance(t, tuple) and t[0] == "PAIR" and len(target.elts) == 2:
            self._bind(target.elts[1], t[2], env)

    def _elem(self, t):
        if t == "TRACE":
            return "ENTRY"
        if isinstance(t, tuple) and t[0] == "ITER":
            return t[1]
        return None

    def _stmt(self, s, env, fi):
        if isinstance(s, (ast.FunctionDef, ast.AsyncFunctionDef, ast.ClassDef)):
            return
        if isinstance(s, ast.Assign):
            t = self.ty(s.value, env, fi)
            for tg in s.targets:
                if isinstance(tg, ast.Subscript):
                    bt = self.ty(tg.value, env, fi)
                    k = _const_str(tg.slice)
                    if bt in ("CHAIN", "ENTRY") and k is not None:
                        cond = bool(guards_of(s, self.pm))
                        self.writes.append((bt, k, cond, fi, s))
                else:
                    self._bind(tg, t, env)
            return
        if isinstance(s, (ast.For, ast.AsyncFor)):
            t = self.ty(s.iter, env, fi)
            self._bind(s.target, self._elem(t), env)
            self._block(s.body, env, fi)
            self._block(s.orelse, env, fi)
            return
        for fld in ("test", "value", "iter"):
            e = getattr(s, fld, None)
            if isinstance(e, ast.AST):
                self.ty(e, env, fi)
        if isinstance(s, ast.With):
            for it in s.items:
                self.ty(it.context_expr, env, fi)
        for fld in ("body", "orelse", "finalbody"):
            b = getattr(s, fld, None)
            if isinstance(b, list):
                self._block(b, env, fi)
        for h in getattr(s, "handlers", []) or []:
            self._block(h.body, env, fi)

    def ty(self, e, env, fi):
        if e is None:
            return None
        if isinstance(e, ast.Name):
            return env.get(e.id)
        if isinstance(e, ast.Subscript):
            bt = self.ty(e.value, env, fi)
            self.ty(e.slice, env, fi)
            k = _const_str(e.slice)
            if bt == "RESULTS":
                return "CHAIN"
            if bt == "CHAIN":
                if k is not None and isinstance(e.ctx, ast.Load):
                    self.reads.append(("CHAIN", k, False, fi, e))
                return "TRACE" if k == "trace" else None
            if bt == "TRACE":
                return "TRACE" if isinstance(e.slice, ast.Slice) else "ENTRY"
            if bt == "ENTRY":
                if k is not None and isinstance(e.ctx, ast.Load):
                    self.reads.append(("ENTRY", k, False, fi, e))
                return None
            return None
        if isinstance(e, (ast.ListComp, ast.SetComp, ast.GeneratorExp, ast.DictComp)):
            env2 = dict(env)
            for g in e.generators:
                t = self.ty(g.iter, env2, fi)
                self._bind(g.target, self._elem(t), env2)
                for c in g.ifs:
                    self.ty(c, env2, fi)
            if isinstance(e, ast.DictComp):
                self.ty(e.key, env2, fi)
                self.ty(e.value, env2, fi)
            else:
                self.ty(e.elt, env2, fi)
            return None
        if isinstance(e, ast.Call):
            f = e.func
            if isinstance(f, ast.Attribute):
                bt = self.ty(f.value, env, fi)
                for a in e.args:
                    self.ty(a, env, fi)
                if bt == "RESULTS" and f.attr == "values":
                    return ("ITER", "CHAIN")
                if bt == "RESULTS" and f.attr == "items":
                    return ("ITER", ("PAIR", None, "CHAIN"))
                if bt in ("CHAIN", "ENTRY") and f.attr == "get" and e.args and _const_str(e.args[0]):
                    self.reads.append((bt, _const_str(e.args[0]), True, fi, e))
                    return "TRACE" if (bt == "CHAIN" and _const_str(e.args[0]) == "trace") else None
                if f.attr == "result" and fi.qualname.endswith("run.run"):
                    return "CHAIN"
                return None
            nm = dotted(f) or ""
            ats = [self.ty(a, env, fi) for a in e.args]
            kts = {k.arg: self.ty(k.value, env, fi) for k in e.keywords}
            if nm == "enumerate" and ats and self._elem(ats[0]) is not None:
                return ("ITER", ("PAIR", None, self._elem(ats[0])))
            if nm in ("list", "sorted", "reversed", "tuple", "iter") and ats:
                return ats[0]
            g = _io.resolve_callee(self.prog, e, fi.module)
            if g is not None and g.cls is None:
                env2 = {}
                for i, t in enumerate(ats):
                    if isinstance(t, str) and i < len(g.params):
                        env2[g.params[i]] = t
                for k, t in kts.items():
                    if isinstance(t, str) and k in g.params:
                        env2[k] = t
                if env2:
                    saved = (self.fi, self.pm)
                    self.scan(g, env2)
                    self.fi, self.pm = saved
            return None
        for c in ast.iter_child_nodes(e):
            if isinstance(c, ast.expr):
                self.ty(c, env, fi)
        return None


def rule_R4(ctx):
    """What is pickled is what the chains returned: between receiving the results and dumping them the writer may add
    the cluster table to each chain's record and nothing else.  Any other store that reaches an object of the results
    (a data point's grid re-typed "to save space", an entry edited, a list sorted in place) makes the restored trees
    differ from the ones the recorded log_p_one was computed on."""
    from ..termflow import key_atom as _ka, _is_polykey as _ipk

    prog = ctx.prog
    ctx.rule("R4", "the writer stores the chains' results as they were returned: its only write into them is the cluster table (no re-typing / rounding / editing of data points, entries or trees before the dump)", 2)
    w = prog.fn("process_trace.create_main_run_output")
    if "results" not in w.params:
        raise AnalysisError("create_main_run_output no longer takes `results`")
    ex = extract(prog, w)
    rk = Poly.atom(("v", "P%d" % w.params.index("results"))).key()

    def reaches_results(v, depth=0):
        """Does the term denote an object inside the results (results[..], an element of results.values(), an attribute
        or element of one)?"""
        k = vkey(v) if not isinstance(v, tuple) else v
        if k == rk:
            return True
        a = _ka(k) if _ipk(k) else (k if isinstance(k, tuple) and k and isinstance(k[0], str) else None)
        if a is None or depth > 12:
            return False
        if a[0] in ("sub", "attr", "elem", "elemv", "elemk") and len(a) > 1:
            return reaches_results(a[1], depth + 1)
        if a[0] == "mcall" and a[1] in ("values", "items", "keys", "get") and len(a) > 2:
            return reaches_results(a[2], depth + 1)
        if a[0] == "call" and a[1] in ("list", "tuple", "sorted", "iter", "reversed", "enumerate") and a[2]:
            return reaches_results(a[2][0], depth + 1)
        return False

    bad, allowed = [], 0
    for e in ex.events:
        if e.name == "store_sub" and e.args and reaches_results(e.args[0]):
            if len(e.args) >= 2 and e.args[1] == "clusters":
                allowed += 1
                continue
            bad.append((e, "stores into %s[%s]" % (show(e.args[0])[:60], show(e.args[1])[:30])))
        elif e.name in ("store_attr", "store_content", "del") and e.args and reaches_results(e.args[0]):
            bad.append((e, "%s on %s%s" % ({"store_attr": "assigns an attribute", "store_content": "overwrites the contents", "del": "deletes"}[e.name], show(e.args[0])[:80], (" ." + str(e.kwargs.get("attr"))) if e.kwargs.get("attr") else "")))
        elif e.name.startswith(".") and e.name[1:] in ("sort", "reverse", "clear", "pop", "popitem", "remove", "append", "extend", "insert", "update", "setdefault", "fill", "astype_inplace") and e.recv is not None and reaches_results(e.recv):
            bad.append((e, "calls %s on %s" % (e.name, show(e.recv)[:80])))
    dumps = [e for e in ex.events if e.name in ("pickle.dump", "dump", ".dump")]
    ok_dump = any(e.args and vkey(e.args[0]) == rk for e in dumps)
    ctx.check(ok_dump, "R4", "create_main_run_output pickles the results mapping it was handed", w.where(dumps[0].node) if dumps else w.where(), "the object pickled is %s, not the `results` parameter" % ([show(e.args[0])[:80] for e in dumps if e.args] or "nothing"), construct=w.qualname, stmt="pickle.dump(results, ...)")
    ctx.check(not bad, "R4", "create_main_run_output adds the cluster table and changes nothing else in the results", w.where(bad[0][0].node) if bad else w.where(), "; ".join(t for _, t in bad[:3]) + ": the objects the trace entries refer to are altered after the entries (and their log_p_one) were recorded", construct=w.qualname, stmt="writes into results")
    ctx.analysed(w)


def rule_R3(ctx, entry_keys, chain_dict):
    prog = ctx.prog
    ctx.rule("R3", "every entry-level and chain-level key the summary commands (and run.run) read is written by the run; optional keys are read tolerantly; writer and readers share the stream codec", 16)
    rd = _Reads(prog)
    # seeds: the name bound by the load in each reader
    readers = [prog.fn(n) for n in _io.READERS]
    def opener_call(name, load_call, fnode, pm_):
        """The opening call whose result `name` holds at the load: `with OPEN(...) as name`, or `name = OPEN(...)` bound
        once (closed by hand or in a finally block)."""
        frame_ = _io.with_binding(name, load_call, fnode, pm_)
        if frame_ is not None and isinstance(frame_[1].context_expr, ast.Call):
            return frame_[1].context_expr
        binds = [n for n in ast.walk(fnode) if isinstance(n, ast.Assign) and any(isinstance(t, ast.Name) and t.id == name for t in n.targets)]
        if len(binds) == 1 and isinstance(binds[0].value, ast.Call):
            return binds[0].value
        return None

    fams = set()
    for fi in readers:
        ls = _io.load_sites(fi.node, fi.module)
        if not ls:
            # the load may live in a helper that only unpickles and returns the object
            hs = [(c, _io.loader_helper(prog, c, fi.module)) for c in calls(fi.node)]
            hs = [(c, g) for c, g in hs if g is not None]
            if len(hs) == 1:
                hc, g = hs[0]
                pmr = parents(fi.node)
                hst = pmr.get(id(hc))
                if isinstance(hst, ast.Assign) and len(hst.targets) == 1 and isinstance(hst.targets[0], ast.Name):
                    gls = _io.load_sites(g.node, g.module)
                    gpm = parents(g.node)
                    oc_ = opener_call(gls[0][1].id, gls[0][0], g.node, gpm) if isinstance(gls[0][1], ast.Name) else (gls[0][1] if isinstance(gls[0][1], ast.Call) else None)
                    if oc_ is not None:
                        info = _io.opener_info(oc_, g.module)
                        if info:
                            fams.add((info[0], _io.canon(gls[0][0], g.module).replace("load", "")))
                    rd.scan(fi, {hst.targets[0].id: "RESULTS"})
                    ctx.analysed(fi, g)
                    continue
        if len(ls) != 1:
            raise AnalysisError("%s: expected one pickle.load (see C20), found %d" % (fi.qualname, len(ls)))
        pm = parents(fi.node)
        st = pm.get(id(ls[0][0]))
        if not (isinstance(st, ast.Assign) and isinstance(st.targets[0], ast.Name)):
            raise AnalysisError("%s: the loaded trace is not bound to a name" % fi.qualname)
        oc_ = opener_call(ls[0][1].id, ls[0][0], fi.node, pm) if isinstance(ls[0][1], ast.Name) else (ls[0][1] if isinstance(ls[0][1], ast.Call) else None)
        if oc_ is not None:
            info = _io.opener_info(oc_, fi.module)
            if info:
                fams.add((info[0], _io.canon(ls[0][0], fi.module).replace("load", "")))
        rd.scan(fi, {st.targets[0].id: "RESULTS"})
        ctx.analysed(fi)
    runf = prog.fn("phyclone.run.run")
    rd.scan(runf, {})
    writer = prog.fn("create_main_run_output")
    wparam = None
    ds = _io.dump_sites(writer.node, writer.module)
    if len(ds) == 1 and ds[0].args and isinstance(ds[0].args[0], ast.Name):
        wparam = ds[0].args[0].id
    if wparam is None:
        raise AnalysisError("create_main_run_output: the dumped mapping is not a plain name (see C20)")
    rd.scan(writer, {wparam: "RESULTS"})
    wfam = set()
    for c in calls(writer.node):
        info = _io.opener_info(c, writer.module)
        if info and _io.is_write_mode(info[2]):
            wfam.add((info[0], _io.canon(ds[0], writer.module).replace("dump", "")))
    ctx.check(len(wfam) == 1 and fams == wfam, "R3", "writer and readers use the same stream codec", writer.where(ds[0]),
              "the run writes the trace as %s but the summary commands read it as %s: no trace survives the round trip" % (sorted(wfam), sorted(fams)),
              construct=writer.qualname, stmt="codec agreement")
    must = {"ENTRY": set(entry_keys), "CHAIN": set(chain_dict)}
    optional = {"ENTRY": set(), "CHAIN": set()}
    for lvl, k, cond, fi, node in rd.writes:
        (optional if cond else must)[lvl].add(k)
    seen = set()
    for lvl, k, tolerant, fi, node in rd.reads:
        key = (lvl, k, fi.qualname, tolerant)
        if key in seen:
            continue
        seen.add(key)
        what = "entry" if lvl == "ENTRY" else "chain result"
        if k in must[lvl]:
            ok, why = True, ""
        elif k in optional[lvl]:
            ok, why = tolerant, "%s key %r is written only conditionally but %s reads it with [...]: KeyError whenever the condition did not hold" % (what, k, fi.name)
        else:
            ok = False
            why = "%s reads %s key %r, which the run never writes (written: %s)" % (fi.name, what, k, sorted(must[lvl] | optional[lvl]))
        ctx.check(ok, "R3", "%s reads %s key %r%s" % (fi.name, what, k, " tolerantly" if tolerant else ""), fi.where(node), why, construct=fi.qualname, stmt="%s key %s" % (what, k))
    ctx.note("entry keys written: %s; chain keys written: %s (+ conditional %s)" % (sorted(must["ENTRY"]), sorted(must["CHAIN"]), sorted(optional["CHAIN"])))


def rule_D4(ctx):
    """What is pickled into the trace (the entry dictionaries, their data points) survives pickling whole: the
    default protocol stores every slot / attribute; a class that customises it (__reduce__, __reduce_ex__,
    __getstate__ / __setstate__, __getnewargs__) must hand every constructor input back — an input left to its
    default on load is lost (and every density that reads it changes)."""
    prog = ctx.prog
    ctx.rule("D4", "classes whose instances are pickled into the trace either use default pickling or return every constructor input from their custom protocol", 3)
    hooks = ("__reduce__", "__reduce_ex__", "__getstate__", "__setstate__", "__getnewargs__", "__getnewargs_ex__", "__copyreg__")
    mods = ("phyclone.data", "phyclone.tree")
    n = 0
    for ci in prog.classes.values():
        if not any(ci.module.name.startswith(m) for m in mods):
            continue
        n += 1
        custom = [m for m in ci.methods.values() if m.name in hooks]
        if not custom:
            ctx.ok("D4", "%s: default pickling (all state stored)" % ci.name, "%s" % ci.module.name)
            continue
        init = ci.methods.get("__init__")
        params = list(init.params)[1:] if init is not None else []
        for m in custom:
            if m.name in ("__reduce__", "__reduce_ex__"):
                rets = [r for r in ast.walk(m.node) if isinstance(r, ast.Return) and isinstance(r.value, ast.Tuple) and len(r.value.elts) >= 2]
                if not rets:
                    raise AnalysisError("%s.%s: cannot read the reduce tuple" % (ci.name, m.name))
                for r in rets:
                    args = r.value.elts[1]
                    state = r.value.elts[2] if len(r.value.elts) > 2 else None
                    if not isinstance(args, ast.Tuple):
                        raise AnalysisError("%s.%s: constructor arguments are not a tuple display" % (ci.name, m.name))
                    given = len(args.elts)
                    stated = {x.attr for x in ast.walk(state) if isinstance(x, ast.Attribute)} | {k.value for k in getattr(state, "keys", []) if isinstance(k, ast.Constant)} if state is not None else set()
                    lost = [p for p in params[given:] if p not in stated]
                    ctx.check(not lost, "D4", "%s.%s returns every constructor input" % (ci.name, m.name), m.where(r), "%s.%s rebuilds the object from %d of %d constructor inputs: %s fall back to their defaults when a trace is read (pickle, and the copy of the data sent to worker processes)" % (ci.name, m.name, given, len(params), ", ".join(lost)), construct=m.qualname, stmt="reduce tuple")
            else:
                slots = set()
                for st_ in ci.node.body:
                    if isinstance(st_, ast.Assign) and any(isinstance(t, ast.Name) and t.id == "__slots__" for t in st_.targets):
                        slots |= {e.value for e in ast.walk(st_.value) if isinstance(e, ast.Constant) and isinstance(e.value, str)}
                if init is not None:
                    slots |= {x.attr for x in ast.walk(init.node) if isinstance(x, ast.Attribute) and isinstance(x.ctx, ast.Store) and isinstance(x.value, ast.Name) and x.value.id == "self"}
                used = {x.attr for x in ast.walk(m.node) if isinstance(x, ast.Attribute)} | {c.value for c in ast.walk(m.node) if isinstance(c, ast.Constant) and isinstance(c.value, str)}
                whole = any(isinstance(x, ast.Attribute) and x.attr in ("__dict__", "__slots__") for x in ast.walk(m.node))
                lost = sorted(slots - used) if not whole else []
                ctx.check(not lost, "D4", "%s.%s covers every attribute" % (ci.name, m.name), m.where(), "%s.%s leaves out %s" % (ci.name, m.name, ", ".join(lost)), construct=m.qualname, stmt="state covers attributes")
    if n < 3:
        raise AnalysisError("D4: expected the data point and tree classes, found %d classes" % n)


def run(ctx):
    ctx.assume("TreeNode.add_data_point_list, rustworkx extend_from_edge_list / remove_nodes_from / node_indices behave as documented")
    ctx.assume("pickle preserves dictionaries, lists and DataPoint objects; float equality after restore is not decided")
    # The dictionary form is decided twice.  Semantically: the reference semantics of the editor (TS: what to_dict
    # stores and what from_dict does with it, effect by effect in every guard scenario), C06.M4 (nothing mutable is
    # shared between the stored form and a tree) and C06.M1 (the restore ends with a refresh).  Syntactically: D1 / D3,
    # which read the two functions' statements and name the defect more precisely - but only for the shapes they know.
    # Where the shape is new to D1 / D3 and the three semantic rules all decide, their verdict stands and D1 / D3 are
    # recorded as not applicable to this shape (a note), instead of making the whole check an analysis error.
    from ._treespec import rule_TS
    from . import _premises

    ctx._own_rules = {"D1", "D2", "D3", "D4", "R1", "R2", "R3", "R4", "TS"}
    n0 = len(ctx.obligations)
    ctx.soft(rule_TS, owners=["tree.Tree"], only=["from_dict", "to_dict"], minimum=3)
    ts = [o for o in ctx.obligations[n0:] if o["rule"] == "TS"]
    notes0 = len(ctx.notes)
    _premises.deep_copies(ctx)
    _premises.refresh(ctx)
    semantic = len(ts) >= 3 and not any("not analysable" in n_ or "could not be analysed" in n_ for n_ in ctx.notes[notes0:]) and not getattr(ctx, "deferred", None)

    def shape_tolerant(ctx_, rule_fn, rid):
        try:
            rule_fn(ctx_)
        except AnalysisError as e:
            if not semantic:
                raise
            ctx_.note("%s does not recognise this shape of the dictionary form (%s); decided by TS, C06.M4 and C06.M1 instead" % (rid, str(e)[:160]))
            have = sum(1 for o in ctx_.obligations if o["rule"] == rid)
            ctx_.rule_min[rid] = min(ctx_.rule_min.get(rid, 0), have)

    ctx.soft(shape_tolerant, rule_D1, "D1")
    ctx.soft(rule_D2)
    ctx.soft(shape_tolerant, rule_D3, "D3")
    ctx.soft(rule_D4)
    entry = ctx.soft(rule_R1)
    if entry is not None:
        chain_dict = ctx.soft(rule_R2, entry)
        ctx.soft(rule_R3, entry[1].keys(), chain_dict)
    ctx.soft(rule_R4)
    # "self-consistent entries": the recorded alpha is the value the recorded log_p_one was computed under only if
    # assigning alpha refreshes everything derived from it (same rule object as C13.U3), and log_p_one is the
    # specified density of the recorded tree (C03.T1-T3)
    from ..formula import imported
    from . import C13, _premises

    imported(ctx, C13.rule_U3)
    _premises.density(ctx)
    # the trace of a chain holds that chain's entries only (no list shared between calls through a default argument)
    _premises.no_call_state(ctx)


# --------------------------------------------------------------------------- self-test catalogue
_T = "phyclone/tree/tree.py"
_TN = "phyclone/tree/tree_node.py"
_TH = "phyclone/smc/swarm/tree_holder.py"
_PA = "phyclone/smc/swarm/particle.py"
_RUN = "phyclone/run.py"
_PT = "phyclone/process_trace/process_trace.py"
_APPEND_BLOCK = "            if i % thin == 0:\n                append_to_trace(i, timer, trace, tree, tree_dist)\n\n            if timer.elapsed >= max_time:\n                break\n"
_ENTRY = "    trace.append(\n        {\n            \"iter\": i,\n            \"time\": timer.elapsed,\n            \"alpha\": tree_dist.prior.alpha,\n            \"log_p_one\": tree_dist.log_p_one(tree),\n            \"tree\": tree.to_dict(),\n        }\n    )\n"
SELFTEST = [
    {"name": "R4-writer-thins-the-trace-before-the-dump", "kind": "break", "rule": "R4", "file": _PT, "old": "    for chain_result in results.values():\n        if cluster_file is not None:\n", "new": "    for chain_result in results.values():\n        chain_result[\"trace\"] = chain_result[\"trace\"][::2]\n        if cluster_file is not None:\n"},
    {"name": "R4-writer-retypes-the-grids", "kind": "break", "rule": "R4", "file": _PT, "old": "    for chain_result in results.values():\n        if cluster_file is not None:\n", "new": "    for chain_result in results.values():\n        for data_point in chain_result[\"data\"]:\n            data_point.value = data_point.value.astype(np.float32)\n        if cluster_file is not None:\n"},
    {"name": "benign-writer-reports-progress", "kind": "benign", "file": _PT, "old": "    for chain_result in results.values():\n        if cluster_file is not None:\n", "new": "    for chain_result in results.values():\n        print(\"writing chain\", chain_result[\"chain_num\"], len(chain_result[\"trace\"]))\n        if cluster_file is not None:\n"},
    {"name": "U3-setter-does-not-refresh-log-alpha", "kind": "break", "rule": ["U3", "T1"], "file": "phyclone/tree/distributions.py", "old": "        self._alpha = alpha\n        self.log_alpha = np.log(alpha)\n", "new": "        self._alpha = alpha\n"},
    # ---- D1
    {"name": "D1-key-renamed-in-to_dict-only", "kind": "break", "rule": "D1", "file": _T, "old": "            \"node_idx_rev\": self._node_indices_rev.copy(),\n", "new": "            \"node_index_rev\": self._node_indices_rev.copy(),\n"},
    {"name": "D1-maps-cross-wired-on-restore", "kind": "break", "rule": "D1", "file": _T,
     "old": "        new._node_indices_rev = tree_dict[\"node_idx_rev\"].copy()\n        new._node_indices = tree_dict[\"node_idx\"].copy()\n",
     "new": "        new._node_indices_rev = tree_dict[\"node_idx\"].copy()\n        new._node_indices = tree_dict[\"node_idx_rev\"].copy()\n"},
    {"name": "D1-last-added-not-restored", "kind": "break", "rule": "D1", "file": _T, "old": "        new._last_node_added_to = tree_dict[\"node_last_added_to\"]\n", "new": "        new._last_node_added_to = None\n"},
    {"name": "D1-optional-key-read-unguarded", "kind": "break", "rule": "D1", "edits": [
        {"file": _T, "old": "            \"log_prior\": self._log_prior,\n", "new": ""},
        {"file": _T, "old": "        if \"log_prior\" in tree_dict:\n            log_prior = tree_dict[\"log_prior\"]\n        else:\n            log_prior = -np.log(grid_size[1])\n", "new": "        log_prior = tree_dict[\"log_prior\"]\n"}]},
    # ---- D2
    {"name": "D2-new-slot-not-assigned-in-copy", "kind": "break", "rule": "D2", "edits": [
        {"file": _T, "old": "        \"_last_node_added_to\",\n    )\n", "new": "        \"_last_node_added_to\",\n        \"_num_edits\",\n    )\n"},
        {"file": _T, "old": "        self._last_node_added_to = None\n\n        self._add_node(self._ROOT_NODE_NAME)\n", "new": "        self._last_node_added_to = None\n\n        self._num_edits = 0\n\n        self._add_node(self._ROOT_NODE_NAME)\n"},
        {"file": _T, "old": "        new._last_node_added_to = tree_dict[\"node_last_added_to\"]\n", "new": "        new._last_node_added_to = tree_dict[\"node_last_added_to\"]\n        new._num_edits = 0\n"}]},
    {"name": "D2-holder-slot-assigned-on-one-arm-only", "kind": "break", "rule": "D2", "file": _TH,
     "old": "            self.num_children_on_node_that_matters = tree.get_number_of_children(self.node_last_added_to)\n        else:\n            self.num_children_on_node_that_matters = 0\n",
     "new": "            self.num_children_on_node_that_matters = tree.get_number_of_children(self.node_last_added_to)\n"},
    {"name": "D2-particle-setter-skips-tree_nodes", "kind": "break", "rule": "D2", "file": _PA,
     "old": "        self.tree_nodes = tree.tree_nodes.copy()\n", "new": "        if tree.tree_nodes:\n            self.tree_nodes = tree.tree_nodes.copy()\n"},
    {"name": "D2-node-copy-drops-data_points", "kind": "break", "rule": "D2", "file": _TN, "old": "        new.data_points = self.data_points.copy()\n        return new\n", "new": "        return new\n"},
    # ---- D3
    {"name": "D3-from_dict-without-update", "kind": "break", "rule": "D3", "file": _T, "old": "        new.update()\n        return new\n", "new": "        return new\n"},
    {"name": "D3-maps-not-copied-in-from_dict", "kind": "break", "rule": "D3", "file": _T, "old": "        new._node_indices = tree_dict[\"node_idx\"].copy()\n", "new": "        new._node_indices = tree_dict[\"node_idx\"]\n"},
    {"name": "D3-data-lists-shared-on-restore", "kind": "break", "rule": "D3", "file": _T,
     "old": "        new._data.update({k: v.copy() for k, v in tree_dict[\"node_data\"].items()})\n", "new": "        new._data.update(tree_dict[\"node_data\"])\n"},
    {"name": "D3-to_dict-shares-data-lists", "kind": "break", "rule": "D3", "file": _T, "old": "            \"node_data\": {k: v.copy() for k, v in self._data.items()},\n", "new": "            \"node_data\": dict(self._data),\n"},
    {"name": "D3-holes-tested-against-name-map", "kind": "break", "rule": "D3", "file": _T, "old": "if idx not in tree_dict[\"node_idx_rev\"]]", "new": "if idx not in tree_dict[\"node_idx\"]]"},
    {"name": "D3-payload-at-reverse-map-index", "kind": "break", "rule": "D3", "file": _T, "old": "            node_idxs = tree_dict[\"node_idx\"]\n", "new": "            node_idxs = tree_dict[\"node_idx_rev\"]\n"},
    {"name": "D3-payload-default-prior", "kind": "break", "rule": "D3", "file": _T, "old": "                node_obj = TreeNode(grid_size, log_prior, node)\n", "new": "                node_obj = TreeNode(grid_size, -np.log(grid_size[1]), node)\n"},
    {"name": "D3-payload-filled-one-by-one-from-slice", "kind": "break", "rule": "D3", "file": _T, "old": "                node_obj.add_data_point_list(data_list)\n", "new": "                node_obj.add_data_point_list(data_list[1:])\n"},
    {"name": "D3-graph-edit-after-update", "kind": "break", "rule": "D3", "file": _T,
     "old": "            if len(node_index_holes) > 0:\n                new_graph.remove_nodes_from(node_index_holes)\n\n        new.update()\n        return new\n",
     "new": "        new.update()\n        if len(tree_dict[\"graph\"]) > 0 and len(node_index_holes) > 0:\n            new_graph.remove_nodes_from(node_index_holes)\n        return new\n"},
    # ---- R1
    {"name": "R1-iter-is-trace-length", "kind": "break", "rule": "R1", "file": _RUN, "old": "            \"iter\": i,\n", "new": "            \"iter\": len(trace),\n"},
    {"name": "R1-alpha-captured-before-update", "kind": "break", "rule": "R1", "edits": [
        {"file": _RUN, "old": "def append_to_trace(i, timer, trace, tree, tree_dist):\n", "new": "def append_to_trace(i, timer, trace, tree, tree_dist, alpha=None):\n"},
        {"file": _RUN, "old": "            \"alpha\": tree_dist.prior.alpha,\n", "new": "            \"alpha\": tree_dist.prior.alpha if alpha is None else alpha,\n"},
        {"file": _RUN, "old": "            tree.relabel_nodes()\n\n            if concentration_update:\n                update_concentration_value(conc_sampler, tree, tree_dist)\n\n            if i % thin == 0:\n                append_to_trace(i, timer, trace, tree, tree_dist)\n",
         "new": "            tree.relabel_nodes()\n\n            alpha_now = tree_dist.prior.alpha\n\n            if concentration_update:\n                update_concentration_value(conc_sampler, tree, tree_dist)\n\n            if i % thin == 0:\n                append_to_trace(i, timer, trace, tree, tree_dist, alpha_now)\n"}]},
    {"name": "R1-log_p-instead-of-log_p_one", "kind": "break", "rule": "R1", "file": _RUN, "old": "            \"log_p_one\": tree_dist.log_p_one(tree),\n", "new": "            \"log_p_one\": tree_dist.log_p(tree),\n"},
    {"name": "R1-live-tree-stored", "kind": "break", "rule": "R1", "file": _RUN, "old": "            \"tree\": tree.to_dict(),\n", "new": "            \"tree\": tree,\n"},
    # ---- R2
    {"name": "R2-thin-remainder-one", "kind": "break", "rule": "R2", "file": _RUN, "old": "            if i % thin == 0:\n", "new": "            if i % thin == 1:\n"},
    {"name": "R2-guard-uses-print_freq", "kind": "break", "rule": "R2", "file": _RUN, "old": "            if i % thin == 0:\n", "new": "            if i % print_freq == 0:\n"},
    {"name": "R2-append-before-the-moves", "kind": "break", "rule": "R2", "edits": [
        {"file": _RUN, "old": _APPEND_BLOCK, "new": "            if timer.elapsed >= max_time:\n                break\n"},
        {"file": _RUN, "old": "            clear_proposal_dist_caches()\n\n            if rng.random() < subtree_update_prob:\n",
         "new": "            clear_proposal_dist_caches()\n\n            if i % thin == 0:\n                append_to_trace(i, timer, trace, tree, tree_dist)\n\n            if rng.random() < subtree_update_prob:\n"}]},
    {"name": "R2-append-before-concentration-update", "kind": "break", "rule": "R2", "edits": [
        {"file": _RUN, "old": _APPEND_BLOCK, "new": "            if timer.elapsed >= max_time:\n                break\n"},
        {"file": _RUN, "old": "            tree.relabel_nodes()\n\n            if concentration_update:\n                update_concentration_value(conc_sampler, tree, tree_dist)\n",
         "new": "            tree.relabel_nodes()\n\n            if i % thin == 0:\n                append_to_trace(i, timer, trace, tree, tree_dist)\n\n            if concentration_update:\n                update_concentration_value(conc_sampler, tree, tree_dist)\n"}]},
    {"name": "R2-timer-break-before-append", "kind": "break", "rule": "R2", "file": _RUN, "old": _APPEND_BLOCK,
     "new": "            if timer.elapsed >= max_time:\n                break\n\n            if i % thin == 0:\n                append_to_trace(i, timer, trace, tree, tree_dist)\n"},
    {"name": "R2-thin-and-print_freq-swapped-at-call", "kind": "break", "rule": "R2", "file": _RUN,
     "old": "            outlier_prob,\n            print_freq,\n            proposal,\n            resample_threshold,\n            rng_main,\n            samples,\n            thin,\n            0,\n",
     "new": "            outlier_prob,\n            thin,\n            proposal,\n            resample_threshold,\n            rng_main,\n            samples,\n            print_freq,\n            0,\n"},
    {"name": "R2-setup_trace-records-nothing", "kind": "break", "rule": "R2", "file": _RUN, "old": "    trace = []\n    append_to_trace(0, timer, trace, tree, tree_dist)\n    return trace\n", "new": "    trace = []\n    return trace\n"},
    {"name": "R2-burnin-entry-dropped-from-result", "kind": "break", "rule": "R2", "file": _RUN, "old": "\"trace\": trace, \"chain_num\": chain_num}", "new": "\"trace\": trace[1:], \"chain_num\": chain_num}"},
    {"name": "R2-burnin-result-discarded", "kind": "break", "rule": "R2", "file": _RUN, "old": "    tree = _run_burnin(\n", "new": "    _ = _run_burnin(\n"},
    {"name": "R2-loop-starts-at-one", "kind": "break", "rule": "R2", "file": _RUN, "old": "    for i in range(num_iters):\n        with timer:\n            if i % print_freq == 0:\n                print_stats(i, tree, tree_dist, chain_num)\n\n            clear_proposal_dist_caches()\n\n            if rng.random()",
     "new": "    for i in range(1, num_iters):\n        with timer:\n            if i % print_freq == 0:\n                print_stats(i, tree, tree_dist, chain_num)\n\n            clear_proposal_dist_caches()\n\n            if rng.random()"},
    {"name": "R2-append-records-stale-tree", "kind": "break", "rule": "R2", "edits": [
        {"file": _RUN, "old": "    trace = setup_trace(timer, tree, tree_dist)\n", "new": "    trace = setup_trace(timer, tree, tree_dist)\n    first_tree = tree\n"},
        {"file": _RUN, "old": "                append_to_trace(i, timer, trace, tree, tree_dist)\n\n            if timer.elapsed >= max_time:", "new": "                append_to_trace(i, timer, trace, first_tree, tree_dist)\n\n            if timer.elapsed >= max_time:"}]},
    # ---- R3
    {"name": "R3-entry-key-renamed-on-writer-side", "kind": "break", "rule": ["R3", "R1"], "file": _RUN, "old": "            \"log_p_one\": tree_dist.log_p_one(tree),\n", "new": "            \"log_p\": tree_dist.log_p_one(tree),\n"},
    {"name": "R3-chain-key-renamed-on-writer-side", "kind": "break", "rule": "R3", "file": _RUN, "old": "results = {\"data\": data, \"samples\": samples,", "new": "results = {\"data\": data, \"sample_ids\": samples,"},
    {"name": "R3-optional-clusters-read-strictly", "kind": "break", "rule": "R3", "file": _PT, "old": "    clusters = results[0].get(\"clusters\", None)\n\n    table = get_clone_table(data, results[0][\"samples\"], tree, clusters=clusters)\n\n    _create_results_output_files(out_table_file, out_tree_file, table, tree)\n\n\ndef create_topology_dict_from_trace",
     "new": "    clusters = results[0][\"clusters\"]\n\n    table = get_clone_table(data, results[0][\"samples\"], tree, clusters=clusters)\n\n    _create_results_output_files(out_table_file, out_tree_file, table, tree)\n\n\ndef create_topology_dict_from_trace"},
    {"name": "R3-reader-without-gzip", "kind": "break", "rule": "R3", "file": _PT, "old": "    with gzip.GzipFile(in_file, \"rb\") as fh:\n        results = pickle.load(fh)\n\n    data = results[0][\"data\"]\n\n    trees = []\n",
     "new": "    with open(in_file, \"rb\") as fh:\n        results = pickle.load(fh)\n\n    data = results[0][\"data\"]\n\n    trees = []\n"},
    # ---- benign
    {"name": "benign-entry-built-with-dict-call", "kind": "benign", "file": _RUN, "old": _ENTRY,
     "new": "    entry = dict(iter=i, time=timer.elapsed, alpha=tree_dist.prior.alpha)\n    entry[\"tree\"] = tree.to_dict()\n    entry[\"log_p_one\"] = tree_dist.log_p_one(tree)\n    trace.append(entry)\n"},
    {"name": "benign-to_dict-built-with-dict-call", "kind": "benign", "file": _T,
     "old": "        tree_dict = {\n            \"graph\": self._graph.edge_list(),\n            \"node_idx\": self._node_indices.copy(),\n            \"node_idx_rev\": self._node_indices_rev.copy(),\n            \"node_data\": {k: v.copy() for k, v in self._data.items()},\n            \"grid_size\": self.grid_size,\n            \"node_last_added_to\": self._last_node_added_to,\n            \"log_prior\": self._log_prior,\n        }\n        return tree_dict\n",
     "new": "        out = dict(\n            graph=self._graph.edge_list(),\n            node_idx=dict(self._node_indices),\n            node_idx_rev=dict(self._node_indices_rev),\n            grid_size=self.grid_size,\n            log_prior=self._log_prior,\n        )\n        out[\"node_data\"] = {name: list(points) for name, points in self._data.items()}\n        out[\"node_last_added_to\"] = self._last_node_added_to\n        return out\n"},
    {"name": "benign-from_dict-locals-renamed-and-get-default", "kind": "benign", "edits": [
        {"file": _T, "old": "        if \"log_prior\" in tree_dict:\n            log_prior = tree_dict[\"log_prior\"]\n        else:\n            log_prior = -np.log(grid_size[1])\n", "new": "        log_prior = tree_dict.get(\"log_prior\", -np.log(grid_size[1]))\n"},
        {"file": _T, "old": "            node_idxs = tree_dict[\"node_idx\"]\n", "new": "            index_of = tree_dict[\"node_idx\"]\n"},
        {"file": _T, "old": "                node_idx = node_idxs[node]\n                new_graph[node_idx] = node_obj\n", "new": "                new_graph[index_of[node]] = node_obj\n"},
        {"file": _T, "old": "        new._node_indices = tree_dict[\"node_idx\"].copy()\n", "new": "        new._node_indices = dict(tree_dict[\"node_idx\"])\n"}]},
    {"name": "benign-init-helper-assigns-maps", "kind": "benign", "edits": [
        {"file": _T, "old": "        self._node_indices = dict()\n\n        self._node_indices_rev = dict()\n\n        self._last_node_added_to = None\n\n        self._add_node(self._ROOT_NODE_NAME)\n",
         "new": "        self._reset_maps()\n\n        self._last_node_added_to = None\n\n        self._add_node(self._ROOT_NODE_NAME)\n\n    def _reset_maps(self):\n        self._node_indices = dict()\n        self._node_indices_rev = dict()\n"}]},
    {"name": "benign-guard-not-mod-and-range-zero", "kind": "benign", "edits": [
        {"file": _RUN, "old": "            if i % thin == 0:\n", "new": "            if not i % thin:\n"},
        {"file": _RUN, "old": "    for i in range(num_iters):\n        with timer:\n            if i % print_freq == 0:\n                print_stats(i, tree, tree_dist, chain_num)\n\n            clear_proposal_dist_caches()\n\n            if rng.random()",
         "new": "    for i in range(0, num_iters):\n        with timer:\n            if i % print_freq == 0:\n                print_stats(i, tree, tree_dist, chain_num)\n\n            clear_proposal_dist_caches()\n\n            if rng.random()"}]},
    {"name": "benign-print-and-negated-guard-arm", "kind": "benign", "file": _RUN, "old": "            if i % thin == 0:\n                append_to_trace(i, timer, trace, tree, tree_dist)\n\n            if timer.elapsed >= max_time:",
     "new": "            if i % thin != 0:\n                pass\n            else:\n                print(\"recording\", i, len(trace))\n                append_to_trace(i, timer, trace, tree, tree_dist)\n\n            if timer.elapsed >= max_time:"},
    {"name": "benign-from_dict-param-renamed-data-in-constructor", "kind": "benign", "edits": [
        {"file": _T, "old": "        new._data = defaultdict(list)\n\n        new._node_indices_rev = tree_dict[\"node_idx_rev\"].copy()\n", "new": "        new._data = defaultdict(list, {k: list(v) for k, v in tree_dict[\"node_data\"].items()})\n\n        new._node_indices_rev = tree_dict[\"node_idx_rev\"].copy()\n"},
        {"file": _T, "old": "        new._data.update({k: v.copy() for k, v in tree_dict[\"node_data\"].items()})\n", "new": ""}]},
    {"name": "benign-thin-guard-through-flag", "kind": "benign", "edits": [
        {"file": _RUN, "old": "            tree.relabel_nodes()\n\n            if concentration_update:\n                update_concentration_value(conc_sampler, tree, tree_dist)\n\n            if i % thin == 0:\n                append_to_trace(i, timer, trace, tree, tree_dist)\n",
         "new": "            tree.relabel_nodes()\n\n            if concentration_update:\n                update_concentration_value(conc_sampler, tree, tree_dist)\n\n            record = i % thin == 0\n            if record:\n                append_to_trace(i, timer, trace, tree, tree_dist)\n"}]},
    {"name": "benign-setup_trace-locals-renamed", "kind": "benign", "file": _RUN, "old": "    trace = []\n    append_to_trace(0, timer, trace, tree, tree_dist)\n    return trace\n",
     "new": "    entries = list()\n    start = 0\n    append_to_trace(start, timer, entries, tree, tree_dist)\n    return entries\n"},
    {"name": "D3-reserved-entries-not-skipped", "kind": "break", "rule": "D3", "file": "phyclone/tree/tree.py", "old": "                if node == outlier_node_name or node == root_name:\n                    continue\n", "new": ""},
]
