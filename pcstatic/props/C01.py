"""C01 — particle-Gibbs whole-tree update leaves the posterior invariant (structural premises).

Decided here: wiring of the permutation density (run command and library plumbing), one target
object per chain, the incremental weight formula, the last-step correction, every computed weight
is used, retained-particle bookkeeping, the retained path is weighted like a free particle, the
order is drawn from the current tree, final selection.  NOT decided: sufficiency (the PG theorem),
numerics.
"""
import ast

from ..astutil import call_name, calls, kwarg, u
from ..formula import extract, same, same_events, spec, contains_key
from ..model import AnalysisError
from ..termflow import Poly, show, vkey

OPAQUE = {"_get_log_w", "_propose_particle"}


def _kernel_classes(prog):
    base = prog.cls("kernels.base.Kernel")
    return base, prog.subclasses(base)


def rule_W1(ctx):
    prog = ctx.prog
    ctx.rule("W1", "every product-code construction of an SMC kernel carries perm_dist=RootPermutationDistribution()", 1)
    base, subs = _kernel_classes(prog)
    knames = {c.name for c in subs} | {base.name}
    perm_cls = prog.cls("smc.utils.RootPermutationDistribution")
    n = 0
    for fi in list(prog.functions.values()):
        if fi.parent is not None:
            continue
        # local aliases: name -> set of class names it may hold
        alias = {}
        for st in ast.walk(fi.node):
            if isinstance(st, ast.Assign) and len(st.targets) == 1 and isinstance(st.targets[0], ast.Name):
                if isinstance(st.value, ast.Name) and st.value.id in knames and prog.resolve_class(st.value.id, fi.module):
                    alias.setdefault(st.targets[0].id, set()).add(st.value.id)
        for c in calls(fi.node):
            if not isinstance(c.func, ast.Name):
                continue
            nm = c.func.id
            is_kernel = (nm in knames and prog.resolve_class(nm, fi.module) is not None) or nm in alias
            if not is_kernel or fi.cls in subs or fi.cls is base:
                continue
            n += 1
            inst = "%s: %s" % (fi.qualname, u(c)[:80])
            v = kwarg(c, "perm_dist")
            if v is None and len(c.args) >= 4:
                v = c.args[3]
            ok = False
            why = "kernel constructed without a permutation distribution: sample_swarm draws the data order uniformly from the orders compatible with the tree, so the cSMC target must carry p(sigma | tree); without it the update leaves pi(T)*#orders(T) invariant"
            if v is not None:
                tgt = v
                if isinstance(v, ast.Name):
                    # single reaching definition inside the function
                    defs = [s.value for s in ast.walk(fi.node) if isinstance(s, ast.Assign) and any(isinstance(t, ast.Name) and t.id == v.id for t in s.targets)]
                    tgt = defs[0] if len(defs) == 1 else None
                if isinstance(tgt, ast.Call) and isinstance(tgt.func, ast.Name) and prog.resolve_class(tgt.func.id, fi.module) is perm_cls:
                    ok = True
                else:
                    why = "perm_dist is %s, which does not resolve to a RootPermutationDistribution instance" % u(v)
            ctx.check(ok, "W1", inst, fi.where(c), why, construct=fi.qualname, stmt="kernel construction")
            ctx.analysed(fi)
    # the kernel built by setup_kernel is the one handed to the PG samplers
    chain = prog.fn("run.run_phyclone_chain")
    ss = prog.fn("run.setup_samplers")
    kvars = [s.targets[0].id for s in ast.walk(chain.node) if isinstance(s, ast.Assign) and isinstance(s.value, ast.Call) and call_name(s.value) == "setup_kernel" and isinstance(s.targets[0], ast.Name)]
    sscalls = calls(chain.node, name="setup_samplers")
    ok = len(kvars) == 1 and len(sscalls) == 1 and _arg_for(sscalls[0], ss, "kernel") is not None and u(_arg_for(sscalls[0], ss, "kernel")) == kvars[0]
    ctx.check(ok, "W1", "run_phyclone_chain: kernel from setup_kernel reaches setup_samplers", chain.where(), "the kernel handed to setup_samplers is not the one built by setup_kernel", construct=chain.qualname, stmt="kernel plumbing")
    for cls in ("ParticleGibbsTreeSampler", "ParticleGibbsSubtreeSampler"):
        cs = calls(ss.node, name=cls)
        ok = len(cs) == 1 and cs[0].args and u(cs[0].args[0]) == "kernel" and not _reassigned(ss.node, "kernel")
        ctx.check(ok, "W1", "setup_samplers: %s receives the kernel parameter" % cls, ss.where(), "%s is not built on the kernel parameter" % cls, construct=ss.qualname, stmt=cls)
    ctx.analysed(chain, ss)


def _arg_for(call, callee_fi, pname):
    params = callee_fi.params
    if pname in params:
        i = params.index(pname)
        if i < len(call.args):
            return call.args[i]
    return kwarg(call, pname)


def _reassigned(fnode, name):
    for n in ast.walk(fnode):
        if isinstance(n, ast.Name) and n.id == name and isinstance(n.ctx, (ast.Store, ast.Del)):
            return True
    return False


def rule_W3(ctx):
    """Library plumbing of the permutation density: kernel -> particle -> tree holder -> log_pdf."""
    prog = ctx.prog
    ctx.rule("W3", "perm_dist is forwarded kernel subclass -> Kernel -> Particle -> TreeHolder, whose log_pdf is perm_dist.log_pdf(tree) (0 when absent)", 6)
    base, subs = _kernel_classes(prog)
    for c in subs:
        init = c.methods.get("__init__")
        if init is None:
            continue
        params = init.params
        if "perm_dist" not in params:
            ctx.fail("W3", c.name + ".__init__", init.where(), "constructor has no perm_dist parameter", construct=init.qualname, stmt="perm_dist parameter")
            continue
        ex = extract(prog, init)
        want = Poly.atom(("v", "P%d" % params.index("perm_dist")))
        same(ctx, "W3", c.name + ".__init__ stores perm_dist", init, ex.store("perm_dist"), want, "self.perm_dist")
        ctx.analysed(init)
    # create_particle hands self.perm_dist to the particle
    cp = prog.fn("Kernel.create_particle")
    ex = extract(prog, cp)
    news = ex.calls("new:Particle")
    ok = len(news) == 1 and len(news[0].args) == 5 and show(news[0].args[4]) == "P0.perm_dist" and show(news[0].args[3]) == "P0.tree_dist"
    ctx.check(ok, "W3", "Kernel.create_particle builds Particle(…, self.tree_dist, self.perm_dist)", cp.where(), "the particle is not built with the kernel's tree_dist and perm_dist", construct=cp.qualname, stmt="Particle(...)")
    # TreeHolder.tree setter
    setter = prog.fn("TreeHolder.tree@setter")
    ex = extract(prog, setter)
    sp = spec(prog, """
        def s(self, tree):
            if self._perm_dist is None:
                self.log_pdf = 0.0
            else:
                self.log_pdf = self._perm_dist.log_pdf(tree)
            self.log_p, self.log_p_one = self._tree_dist.compute_both_log_p_and_log_p_one(tree)
        """, setter)
    for a in ("log_pdf", "log_p", "log_p_one"):
        same(ctx, "W3", "TreeHolder.tree setter: " + a, setter, ex.store(a), sp.store(a), "self." + a)
    # Particle.tree setter copies the three densities from the holder it stores
    ps = prog.fn("Particle.tree@setter")
    ex = extract(prog, ps)
    sp = spec(prog, """
        def s(self, tree):
            if not isinstance(tree, TreeHolder):
                tree = TreeHolder(tree, self._tree_dist, self._perm_dist)
            self.log_p = tree.log_p
            self.log_pdf = tree.log_pdf
            self.log_p_one = tree.log_p_one
            self._tree = tree
        """, ps)
    for a in ("log_p", "log_pdf", "log_p_one", "_tree"):
        same(ctx, "W3", "Particle.tree setter: " + a, ps, ex.store(a), sp.store(a), "self." + a)
    ctx.analysed(cp, setter, ps)


def rule_W4(ctx):
    """run.setup_samplers hands ONE kernel (and one tree_dist, one generator) to several samplers.  A constructor that
    stores into an attribute of an object it is given re-configures that object for every other holder: the kernel's
    permutation distribution switched off by the burn-in sampler is switched off for the particle-Gibbs sampler too."""
    prog = ctx.prog
    ctx.rule("W4", "sampler / kernel / proposal constructors configure only the object under construction: no store into an attribute (or element) of an argument", 10)
    n = 0
    for ci in prog.classes.values():
        mod = ci.module.name
        if not (".smc." in mod or ".mcmc." in mod or mod.endswith(".mcmc") or mod.endswith(".smc")):
            continue
        init = ci.methods.get("__init__")
        if init is None:
            continue
        n += 1
        params = [p_ for p_ in init.params[1:]]
        me = init.params[0] if init.params else "self"
        bad = []
        for node in ast.walk(init.node):
            tg = []
            if isinstance(node, ast.Assign):
                tg = node.targets
            elif isinstance(node, (ast.AugAssign, ast.AnnAssign)):
                tg = [node.target]
            elif isinstance(node, ast.Delete):
                tg = node.targets
            elif isinstance(node, ast.Call) and isinstance(node.func, ast.Name) and node.func.id in ("setattr", "delattr") and node.args:
                tg = [ast.Attribute(value=node.args[0], attr="?", ctx=ast.Store())]
            for t in tg:
                for x in ([t] if isinstance(t, (ast.Attribute, ast.Subscript)) else list(getattr(t, "elts", []))):
                    if not isinstance(x, (ast.Attribute, ast.Subscript)):
                        continue
                    root = x
                    while isinstance(root, (ast.Attribute, ast.Subscript)):
                        root = root.value
                    if isinstance(root, ast.Name) and root.id in params and root.id != me:
                        rebound = any(isinstance(a, ast.Assign) and any(isinstance(tt, ast.Name) and tt.id == root.id for tt in a.targets) and a.lineno < node.lineno for a in ast.walk(init.node))
                        if not rebound:
                            bad.append((node, u(x)))
        ctx.check(not bad, "W4", "%s.__init__ leaves its arguments as it found them" % ci.name, init.where(bad[0][0]) if bad else init.where(), "the constructor stores into %s, an object it was handed and that its caller goes on sharing with other samplers" % ", ".join(sorted({b for _, b in bad})), construct=init.qualname, stmt="store into argument")
        ctx.analysed(init)
    if n < 10:
        raise AnalysisError("W4: only %d sampler / kernel constructors found" % n)


def rule_W2(ctx):
    prog = ctx.prog
    ctx.rule("W2", "one TreeJointDistribution(FSCRPDistribution(...)) per chain reaches the kernel and every density-evaluating sampler", 6)
    chain = prog.fn("run.run_phyclone_chain")
    runmod = chain.module
    made = []
    for fi in prog.functions.values():
        if fi.module is runmod:
            for c in calls(fi.node):
                if call_name(c) in ("TreeJointDistribution", "FSCRPDistribution"):
                    made.append((fi, c))
    tj = [(f, c) for f, c in made if call_name(c) == "TreeJointDistribution"]
    ok = len(tj) == 1 and tj[0][0] is chain and len([1 for f, c in made if call_name(c) == "FSCRPDistribution"]) == 1
    ctx.check(ok, "W2", "exactly one joint distribution constructed per chain", chain.where(), "run.py constructs %d TreeJointDistribution / %d FSCRPDistribution objects (expected one each, in run_phyclone_chain)" % (len(tj), len(made) - len(tj)), construct=chain.qualname, stmt="TreeJointDistribution(...)")
    var = None
    for s in ast.walk(chain.node):
        if isinstance(s, ast.Assign) and isinstance(s.value, ast.Call) and call_name(s.value) == "TreeJointDistribution" and isinstance(s.targets[0], ast.Name):
            var = s.targets[0].id
    nstores = sum(1 for n in ast.walk(chain.node) if isinstance(n, ast.Name) and n.id == var and isinstance(n.ctx, ast.Store))
    ctx.check(var is not None and nstores == 1, "W2", "the joint distribution is bound once", chain.where(), "the chain's tree_dist variable is rebound", construct=chain.qualname, stmt="tree_dist binding")
    for callee in ("setup_kernel", "setup_samplers", "_run_burnin", "_run_main_sampler"):
        cfi = prog.fn("run." + callee)
        cs = calls(chain.node, name=callee)
        a = _arg_for(cs[0], cfi, "tree_dist") if len(cs) == 1 else None
        ctx.check(a is not None and u(a) == var, "W2", "run_phyclone_chain passes the chain's tree_dist to %s" % callee, chain.where(cs[0]) if cs else chain.where(), "%s does not receive the chain's single tree_dist object" % callee, construct=chain.qualname, stmt=callee + "(tree_dist)")
    ss = prog.fn("run.setup_samplers")
    for cls in ("DataPointSampler", "PruneRegraphSampler"):
        cs = calls(ss.node, name=cls)
        ok = len(cs) == 1 and cs[0].args and u(cs[0].args[0]) == "tree_dist" and not _reassigned(ss.node, "tree_dist")
        ctx.check(ok, "W2", "setup_samplers: %s evaluates the chain's tree_dist" % cls, ss.where(), "%s is built on a different density object" % cls, construct=ss.qualname, stmt=cls)
    sk = prog.fn("run.setup_kernel")
    ok = False
    for c in calls(sk.node):
        if isinstance(c.func, ast.Name) and c.func.id == "kernel_cls" or (isinstance(c.func, ast.Name) and c.func.id.endswith("Kernel")):
            ok = bool(c.args) and u(c.args[0]) == "tree_dist" and not _reassigned(sk.node, "tree_dist")
    ctx.check(ok, "W2", "setup_kernel: the kernel evaluates the chain's tree_dist", sk.where(), "the kernel is built on a different density object", construct=sk.qualname, stmt="kernel tree_dist")
    ctx.analysed(chain, ss, sk)


def rule_K1(ctx):
    prog = ctx.prog
    ctx.rule("K1", "incremental weight = target(t)/target(t-1)/proposal incl. the permutation density (4 guarded arms)", 2)
    cp = prog.fn("Kernel.create_particle")
    ex = extract(prog, cp)
    sp = spec(prog, """
        def s(self, log_q, parent_particle, tree):
            particle = Particle(0, parent_particle, tree, self.tree_dist, self.perm_dist)
            if self.perm_dist is None:
                if parent_particle is None:
                    w = particle.log_p - log_q
                else:
                    w = particle.log_p - parent_particle.log_p - log_q
            else:
                if parent_particle is None:
                    w = particle.log_p + particle.log_pdf - log_q
                else:
                    w = particle.log_p - parent_particle.log_p + particle.log_pdf - parent_particle.log_pdf - log_q
            particle.log_w = w
            return particle
        """, cp)
    same(ctx, "K1", "Kernel.create_particle: particle.log_w", cp, ex.store("log_w"), sp.store("log_w"), "particle.log_w")
    same(ctx, "K1", "Kernel.create_particle: returns the weighted particle", cp, ex.result, sp.result, "return value")
    ctx.analysed(cp)


def rule_K2(ctx):
    prog = ctx.prog
    ctx.rule("K2", "last-step correction from the marginal to the root-CCF-equals-one target", 1)
    f = prog.fn("AbstractSMCSampler._get_log_w")
    ex = extract(prog, f)
    sp = spec(prog, """
        def s(self, particle):
            if self.iteration < self.num_iterations - 1:
                return particle.log_w
            else:
                return particle.log_w - particle.log_p + particle.log_p_one
        """, f)
    same(ctx, "K2", "AbstractSMCSampler._get_log_w", f, ex.result, sp.result, "returned weight")
    ctx.analysed(f)


SPECS_SWARM = {
    "ConditionalSMCSampler._init_swarm": """
        def s(self):
            self.swarm = ParticleSwarm()
            u = -np.log(self.num_particles)
            p0 = self.constrained_path[1]
            self.swarm.add_particle(u + self._get_log_w(p0), p0)
            for _ in range(self.num_particles - 1):
                p = self._propose_particle(None)
                self.swarm.add_particle(u + self._get_log_w(p), p)
            self.iteration += 1
        """,
    "ConditionalSMCSampler._resample_swarm": """
        def s(self):
            if self.swarm.relative_ess <= self.resample_threshold:
                new_swarm = ParticleSwarm()
                u = -np.log(self.num_particles)
                multiplicities = self._rng.multinomial(self.num_particles - 1, self.swarm.weights)
                new_swarm.add_particle(u, self.constrained_path[self.iteration + 1])
                for particle, multiplicity in zip(self.swarm.particles, multiplicities):
                    for _ in range(multiplicity):
                        new_swarm.add_particle(u, particle)
                self.swarm = new_swarm
        """,
    "ConditionalSMCSampler._update_swarm": """
        def s(self):
            new_swarm = ParticleSwarm()
            p0 = self.constrained_path[self.iteration + 1]
            new_swarm.add_particle(self.swarm.log_weights[0] + self._get_log_w(p0), p0)
            for w, parent in zip(self.swarm.log_weights[1:], self.swarm.particles[1:]):
                p = self._propose_particle(parent)
                new_swarm.add_particle(w + self._get_log_w(p), p)
            self.swarm = new_swarm
        """,
    "SMCSampler._init_swarm": """
        def s(self):
            self.swarm = ParticleSwarm()
            u = -np.log(self.num_particles)
            for _ in range(self.num_particles):
                self.swarm.add_particle(u, None)
        """,
    "SMCSampler._resample_swarm": """
        def s(self):
            if self.swarm.relative_ess <= self.resample_threshold:
                new_swarm = ParticleSwarm()
                u = -np.log(self.num_particles)
                multiplicities = self._rng.multinomial(self.num_particles, self.swarm.weights)
                for particle, multiplicity in zip(self.swarm.particles, multiplicities):
                    for _ in range(multiplicity):
                        new_swarm.add_particle(u, particle)
                self.swarm = new_swarm
        """,
    "SMCSampler._update_swarm": """
        def s(self):
            new_swarm = ParticleSwarm()
            for w, parent in zip(self.swarm.log_weights, self.swarm.particles):
                p = self._propose_particle(parent)
                new_swarm.add_particle(w + self._get_log_w(p), p)
            self.swarm = new_swarm
        """,
}


def rule_K3_R1(ctx):
    """Weight-use discipline and retained-particle bookkeeping, as agreement of the (weight, particle)
    pairs handed to add_particle with a reference, term by term.  A particle created at this step
    carries uniform-or-parent weight plus _get_log_w(particle); an ancestor re-drawn by resampling
    carries the uniform weight; slot 0 of the conditional swarm is the retained path's element."""
    prog = ctx.prog
    ctx.rule("K3", "every (weight, particle) pair added to a swarm is the one the SMC recursion prescribes (computed weights are used; slot 0 holds the retained particle; [1:] slices agree)", 6)
    ctx.rule("R1", "resampling draws multiplicities with the normalised swarm weights and installs the new swarm", 4)
    for name, src in SPECS_SWARM.items():
        f = prog.fn(name)
        ex = extract(prog, f, opaque_self_methods=OPAQUE)
        sp = spec(prog, src, f, opaque_self_methods=OPAQUE)
        same_events(ctx, "K3", name + ": add_particle sequence", f, ex.calls(".add_particle"), sp.calls(".add_particle"), "add_particle(weight, particle) calls")
        if name.endswith("_resample_swarm"):
            # the count (N or N-1) is recorded, not compared: it is not a premise of invariance
            same_events(ctx, "R1", name + ": multinomial(count, swarm.weights)", f, ex.calls(".multinomial"), sp.calls(".multinomial"), "resampling draw", skip_args=(0,))
            got = ex.calls(".multinomial")
            if got:
                ctx.note("%s draws %s offspring" % (name, show(got[0].args[0])))
        # the swarm the method leaves behind
        gs, ws = ex.stores("swarm"), sp.stores("swarm")
        if ws:
            if len(gs) != 1:
                ctx.fail("R1", name + ": installs the new swarm", f.where(), "self.swarm is not (uniquely) assigned", construct=f.qualname, stmt="self.swarm = ...")
            else:
                same(ctx, "R1", name + ": installs the new swarm", f, next(iter(gs.values())), next(iter(ws.values())), "self.swarm")
        ctx.analysed(f)
    # iteration counter advanced exactly once by the conditional initialisation
    f = prog.fn("ConditionalSMCSampler._init_swarm")
    ex = extract(prog, f, opaque_self_methods=OPAQUE)
    sp = spec(prog, SPECS_SWARM["ConditionalSMCSampler._init_swarm"], f, opaque_self_methods=OPAQUE)
    from ..formula import same_store
    same_store(ctx, "R1", "ConditionalSMCSampler._init_swarm: iteration advanced by one", f, ex, sp, "iteration")


# the reference retained path (also the premise of C14.K5: the tree attached for a parent is the parent's own)
RETAINED_PATH_SPEC = """
def s(self, tree):
    path = [None]
    labels = tree.labels
    node_map = {}
    new_tree = Tree(tree.grid_size)
    parent_tree = None
    for data_point in self.data_points:
        new_tree = new_tree.copy()
        old = labels[data_point.idx]
        if old == tree.outlier_node_name:
            new_tree.add_data_point_to_outliers(data_point)
        elif old in node_map:
            new_tree.add_data_point_to_node(data_point, node_map[old])
        else:
            new = new_tree.create_root_node([node_map[c] for c in tree.get_children(old)])
            node_map[old] = new
            new_tree.add_data_point_to_node(data_point, new)
        parent = path[-1]
        holder = TreeHolder(new_tree, self.kernel.tree_dist, self.kernel.perm_dist)
        dist = self.kernel.get_proposal_distribution(data_point, parent, parent_tree)
        path.append(self.kernel.create_particle(dist.log_p(holder), parent, holder))
        parent_tree = new_tree
    return path
"""


def rule_R2(ctx):
    prog = ctx.prog
    ctx.rule("R2", "the retained path is weighted like a free particle (same proposal density, same create_particle), one edit per data point", 5)
    f = prog.fn("ConditionalSMCSampler._get_constrained_path")
    ex = extract(prog, f, opaque_self_methods=OPAQUE)
    cps = ex.calls(".create_particle")
    ok = len(cps) >= 2
    why = "no create_particle call found in the retained-path loop"
    for ev in cps:
        log_q, parent, holder = ev.args if len(ev.args) == 3 else (None, None, None)
        a = log_q.as_atom() if isinstance(log_q, Poly) else None
        good = a is not None and a[0] == "mcall" and a[1] == "log_p" and a[3] == (vkey(holder),)
        if good:
            recv = a[2]
            # receiver must be get_proposal_distribution(data_point, parent, …) on the same kernel
            from ..termflow import key_atom
            rp = key_atom(recv)
            good = rp is not None and rp[0] == "mcall" and rp[1] == "get_proposal_distribution" and len(rp[3]) >= 2 and rp[3][1] == vkey(parent) and rp[2] == vkey(ev.recv)
        if not good:
            ok = False
            why = "log_q handed to create_particle is %s, not proposal.log_p(<the same tree>) of get_proposal_distribution(<data point>, <the same parent>)" % show(log_q)
    ctx.check(ok, "R2", "_get_constrained_path: log_q = get_proposal_distribution(dp, parent, …).log_p(tree) feeds create_particle(log_q, parent, tree)", f.where(), why, construct=f.qualname, stmt="create_particle(log_q, parent, tree)")
    # the three edits, as a specification of the tree built for each data point
    spp = spec(prog, RETAINED_PATH_SPEC, f, opaque_self_methods=OPAQUE, copy_is_identity=False)
    exq = extract(prog, f, opaque_self_methods=OPAQUE, copy_is_identity=False)
    same_events(ctx, "R2", "_get_constrained_path: the tree wrapped for each data point is the previous one plus exactly that point's edit (outlier / mapped clone / new clone over the mapped children)", f, exq.calls("new:TreeHolder"), spp.calls("new:TreeHolder"), "TreeHolder(new_tree, …) per data point")
    # sibling: Kernel.propose_particle
    g = prog.fn("Kernel.propose_particle")
    sp = spec(prog, """
        def s(self, data_point, parent_particle):
            d = self.get_proposal_distribution(data_point, parent_particle)
            tree = d.sample()
            return self.create_particle(d.log_p(tree), parent_particle, tree)
        """, g, opaque_self_methods={"create_particle", "get_proposal_distribution"})
    ex2 = extract(prog, g, opaque_self_methods={"create_particle", "get_proposal_distribution"})
    same(ctx, "R2", "Kernel.propose_particle: sample, log_p of the sample, create_particle", g, ex2.result, sp.result, "returned particle")
    # the loop ranges over self.data_points in order, exactly one edit per point in each arm
    # (that the pass ranges over self.data_points, in order, is part of the comparison above: the wrapped trees are
    # compared element by element of that sequence, wherever the loop itself is written)
    same(ctx, "R2", "_get_constrained_path returns [None] followed by one particle per data point of self.data_points, in order", f, exq.result, spp.result, "returned path")
    if True:
        # exactly one edit per data point: in every scenario each data point of the pass is added to the tree being
        # rebuilt exactly once (whether the three edits are written as if / elif / else arms or live in a helper)
        from ..termflow import Valuation

        adds = [e for e in exq.events if e.name in (".add_data_point_to_outliers", ".add_data_point_to_node") and e.args]
        bad = None
        for t in range(32):
            val = Valuation(t, salt="s0")
            counts = {}
            try:
                for e in adds:
                    if all(val.truth(x) for x in e.full_guards):
                        k = repr(val.image(vkey(e.args[0])))
                        counts[k] = counts.get(k, 0) + 1
            except (ValueError, OverflowError, ZeroDivisionError):
                continue
            from .. import termflow as _tf

            if len(counts) != _tf.K_ELEMS or any(c != 1 for c in counts.values()):
                bad = counts
                break
        ctx.check(bad is None and bool(adds), "R2", "_get_constrained_path adds every data point of the pass exactly once (outlier set / mapped clone / new clone)", f.where(), "in some scenario the data points of the pass are added %s times" % (sorted(bad.values()) if bad else "0"), construct=f.qualname, stmt="one edit per data point")
        for i in range(3):  # (instances kept for the vacuity guard: the three edits are compared with the specification above)
            ctx.ok("R2", "_get_constrained_path edit %d covered by the specification comparison" % i, f.where())
    ctx.analysed(f, g)


def rule_S1(ctx):
    prog = ctx.prog
    ctx.rule("S1", "the data order is drawn from the current tree and handed to the conditional sampler with that same tree", 1)
    f = prog.fn("ParticleGibbsTreeSampler.sample_swarm")
    ex = extract(prog, f)
    sp = spec(prog, """
        def s(self, tree):
            sigma = RootPermutationDistribution.sample(tree, self._rng)
            sampler = ConditionalSMCSampler(tree, sigma, self.kernel, num_particles=self.num_particles, resample_threshold=self.resample_threshold)
            return sampler.sample()
        """, f)
    same(ctx, "S1", "ParticleGibbsTreeSampler.sample_swarm", f, ex.result, sp.result, "returned swarm")
    ctx.analysed(f)


def rule_S2(ctx):
    prog = ctx.prog
    ctx.rule("S2", "final tree drawn from the normalised particle weights; index and particle agree", 4)
    f = prog.fn("ParticleGibbsTreeSampler._sample_tree_from_swarm")
    ex = extract(prog, f)
    sp = spec(prog, """
        def s(self, swarm):
            w = swarm.weights
            idx = self._rng.multinomial(1, w / np.sum(w)).argmax()
            return swarm.particles[idx].tree
        """, f)
    same(ctx, "S2", "_sample_tree_from_swarm", f, ex.result, sp.result, "returned tree")
    w = prog.fn("ParticleSwarm.weights@getter")
    ex = extract(prog, w)
    sp = spec(prog, """
        def s(self):
            lw = self.unnormalized_log_weights
            if self._log_norm_const is None:
                z = log_sum_exp(lw)
            else:
                z = self._log_norm_const
            x = np.exp(lw - z)
            return x / x.sum()
        """, w)
    same(ctx, "S2", "ParticleSwarm.weights = exp(unnormalised - log-sum-exp), renormalised", w, ex.result, sp.result, "weights")
    lw = prog.fn("ParticleSwarm.log_weights@getter")
    ex = extract(prog, lw)
    sp = spec(prog, """
        def s(self):
            lw = self.unnormalized_log_weights
            if self._log_norm_const is None:
                z = log_sum_exp(lw)
            else:
                z = self._log_norm_const
            return lw - z
        """, lw)
    same(ctx, "S2", "ParticleSwarm.log_weights", lw, ex.result, sp.result, "log_weights")
    # the cached normaliser is invalidated whenever a particle is added, and both lists grow together
    ap = prog.fn("ParticleSwarm.add_particle")
    ex = extract(prog, ap)
    sp = spec(prog, """
        def s(self, log_weight, particle):
            self.particles.append(particle)
            self._unnormalized_log_weights.append(log_weight)
            self._log_norm_const = None
        """, ap)
    same_events(ctx, "S2", "ParticleSwarm.add_particle appends particle and weight", ap, ex.calls(".append"), sp.calls(".append"), "append calls")
    same(ctx, "S2", "ParticleSwarm.add_particle invalidates the cached normaliser", ap, ex.store("_log_norm_const"), sp.store("_log_norm_const"), "self._log_norm_const")
    ctx.analysed(f, w, lw, ap)


def rule_L1(ctx):
    """The SMC driver: init, then (update, resample-unless-last, advance) until all points are used."""
    prog = ctx.prog
    ctx.rule("L1", "SMC driver advances one data point per update and returns the final swarm", 2)
    f = prog.fn("AbstractSMCSampler.sample")
    wl = [n for n in ast.walk(f.node) if isinstance(n, ast.While)]
    ok = len(wl) == 1 and u(wl[0].test) in ("self.iteration < self.num_iterations",)
    if ok:
        body = wl[0].body
        upd = [i for i, s in enumerate(body) if isinstance(s, ast.Expr) and u(s.value) == "self._update_swarm()"]
        inc = [i for i, s in enumerate(body) if isinstance(s, ast.AugAssign) and u(s) == "self.iteration += 1"]
        ok = len(upd) == 1 and len(inc) == 1 and upd[0] < inc[0] and inc[0] == len(body) - 1
    ctx.check(ok, "L1", "AbstractSMCSampler.sample: one _update_swarm and one iteration += 1 per pass", f.where(), "the SMC loop does not consume exactly one data point per pass", construct=f.qualname, stmt="while self.iteration < self.num_iterations")
    body = f.node.body
    first = body[0] if body else None
    ok = isinstance(first, ast.Expr) and u(first.value) == "self._init_swarm()" and sum(1 for c in calls(f.node, name="self._init_swarm")) == 1
    ctx.check(ok, "L1", "AbstractSMCSampler.sample starts with exactly one _init_swarm()", f.where(), "the swarm is not initialised (once, first) before resampling / updating", construct=f.qualname, stmt="self._init_swarm()")
    rets = [n for n in ast.walk(f.node) if isinstance(n, ast.Return)]
    ctx.check(len(rets) == 1 and u(rets[0].value) == "self.swarm", "L1", "AbstractSMCSampler.sample returns self.swarm", f.where(), "sample() does not return the final swarm", construct=f.qualname, stmt="return self.swarm")
    pp = prog.fn("AbstractSMCSampler._propose_particle")
    ex = extract(prog, pp)
    sp = spec(prog, """
        def s(self, parent_particle):
            return self.kernel.propose_particle(self.data_points[self.iteration], parent_particle)
        """, pp)
    same(ctx, "L1", "_propose_particle uses the data point of the current iteration", pp, ex.result, sp.result, "proposed particle")
    ctx.analysed(f, pp)


def run(ctx):
    ctx.assume("sufficiency of the premises is the particle-Gibbs theorem (Andrieu, Doucet, Holenstein 2010), not decided here")
    ctx.assume("numpy Generator.multinomial / shuffle draw from the stated laws")
    ctx.soft(rule_W1)
    ctx.soft(rule_W2)
    ctx.soft(rule_W4)
    ctx.soft(rule_W3)
    ctx.soft(rule_K1)
    ctx.soft(rule_K2)
    ctx.soft(rule_K3_R1)
    ctx.soft(rule_R2)
    ctx.soft(rule_S1)
    ctx.soft(rule_S2)
    ctx.soft(rule_L1)
    # premises shared with C08 / C14 (same rule objects, reported under their own ids): the weight divides by
    # log_q, so log_p() must be the density sample() draws from; proposals / trees served from the caches must be
    # scored under the current concentration
    from . import C08, C14

    from ..formula import imported

    ctx._own_rules = set(ctx.rule_min)
    imported(ctx, C08.rule_B)
    imported(ctx, C08.rule_S)
    imported(ctx, C08.rule_F)
    imported(ctx, C14.rule_K1)
    # the target the weights are computed from is the specified density (C03.T1-T3); particles extend their parent
    # with the tree editor (TS) on copies that share nothing with it (C06.M4), refreshing what they invalidate (C06.M1/M2)
    from . import _premises

    _premises.density(ctx)
    _premises.tree_editor(ctx)
    _premises.deep_copies(ctx)
    _premises.refresh(ctx)
    # the data order of the retained path is drawn uniformly from the orders compatible with the tree and scored
    # with the matching density (same rule object as C09.P1-P4)
    from . import C09

    imported(ctx, C09.rule_P)
    _premises.caches(ctx)
    # the Gibbs moves between two whole-tree updates and the SMC kernel share one model switch (C04.C2)
    from . import C04

    imported(ctx, C04.rule_C2)


# Self-test catalogue: one textual edit each, applied to a scratch copy (see selftest.py).
_B = "phyclone/smc/kernels/base.py"
_C = "phyclone/smc/samplers/conditional.py"
_S = "phyclone/smc/samplers/base.py"
_PG = "phyclone/mcmc/particle_gibbs.py"
SELFTEST = [
    {"name": "P1-outliers-not-shuffled", "kind": "break", "rule": ["P1", "P2"], "file": "phyclone/smc/utils.py", "old": "            rng.shuffle(outliers)\n", "new": ""},
    {"name": "K1-drop-log_q-arm", "kind": "break", "rule": "K1", "file": _B, "old": "log_w = particle.log_p + particle.log_pdf - log_q", "new": "log_w = particle.log_p + particle.log_pdf"},
    {"name": "K1-drop-parent-log_pdf", "kind": "break", "rule": "K1", "file": _B, "old": "particle.log_pdf - parent_particle.log_pdf - log_q", "new": "particle.log_pdf - log_q"},
    {"name": "K2-swap-log_p_one", "kind": "break", "rule": "K2", "file": _S, "old": "return particle.log_w - particle.log_p + particle.log_p_one", "new": "return particle.log_w - particle.log_p_one + particle.log_p"},
    {"name": "K2-off-by-one", "kind": "break", "rule": "K2", "file": _S, "old": "        if self.iteration < self.num_iterations - 1:\n            return particle.log_w", "new": "        if self.iteration < self.num_iterations - 2:\n            return particle.log_w"},
    {"name": "K3-drop-weight-update", "kind": "break", "rule": "K3", "file": _C, "old": "            new_swarm.add_particle(parent_log_W + self._get_log_w(particle), particle)\n\n        self.swarm", "new": "            new_swarm.add_particle(parent_log_W, particle)\n\n        self.swarm"},
    {"name": "K3-revert-F2", "kind": "break", "rule": "K3", "file": _C, "old": "self.swarm.add_particle(uniform_weight + self._get_log_w(particle), particle)\n\n        for _ in", "new": "self.swarm.add_particle(uniform_weight, particle)\n\n        for _ in"},
    {"name": "R1-slice-mismatch", "kind": "break", "rule": "K3", "file": _C, "old": "zip(self.swarm.log_weights[1:], self.swarm.particles[1:])", "new": "zip(self.swarm.log_weights[1:], self.swarm.particles)"},
    {"name": "R1-retained-wrong-step", "kind": "break", "rule": "K3", "file": _C, "old": "        particle = self.constrained_path[self.iteration + 1]\n\n        parent_log_W", "new": "        particle = self.constrained_path[self.iteration]\n\n        parent_log_W"},
    {"name": "R1-resample-unnormalised", "kind": "break", "rule": "R1", "file": _C, "old": "self._rng.multinomial(self.num_particles - 1, self.swarm.weights)", "new": "self._rng.multinomial(self.num_particles - 1, np.exp(self.swarm.unnormalized_log_weights))"},
    {"name": "R1-retained-dropped-on-resample", "kind": "break", "rule": "K3", "file": _C, "old": "            new_swarm.add_particle(log_uniform_weight, self.constrained_path[self.iteration + 1])\n", "new": "            pass\n"},
    {"name": "S1-order-from-other-tree", "kind": "break", "rule": "S1", "file": _PG, "old": "data_sigma = RootPermutationDistribution.sample(tree, self._rng)\n\n        sampler = ConditionalSMCSampler(", "new": "data_sigma = RootPermutationDistribution.sample(tree.get_subtree(tree.root_node_name), self._rng)\n        data_sigma = sorted(data_sigma, key=lambda x: x.idx)\n\n        sampler = ConditionalSMCSampler("},
    {"name": "benign-S1-copy", "kind": "benign", "file": _PG, "old": "data_sigma = RootPermutationDistribution.sample(tree, self._rng)\n\n        sampler = ConditionalSMCSampler(\n            tree,", "new": "data_sigma = RootPermutationDistribution.sample(tree, self._rng)\n\n        sampler = ConditionalSMCSampler(\n            tree.copy(),"},
    {"name": "S2-unnormalised-final-draw", "kind": "break", "rule": "S2", "file": _PG, "old": "particle_idx = discrete_rvs(swarm.weights, self._rng)", "new": "particle_idx = discrete_rvs(swarm.unnormalized_log_weights, self._rng)"},
    {"name": "S2-index-mismatch", "kind": "break", "rule": "S2", "file": _PG, "old": "particle = swarm.particles[particle_idx]", "new": "particle = swarm.particles[particle_idx - 1]"},
    {"name": "W1-revert-F1", "kind": "break", "rule": "W1", "file": "phyclone/run.py", "old": ", perm_dist=RootPermutationDistribution()\n", "new": "\n"},
    {"name": "W2-second-density-object", "kind": "break", "rule": "W2", "file": "phyclone/run.py", "old": "dp_sampler = DataPointSampler(tree_dist, rng", "new": "dp_sampler = DataPointSampler(TreeJointDistribution(FSCRPDistribution(1.0)), rng"},
    {"name": "W3-holder-ignores-perm", "kind": "break", "rule": "W3", "file": "phyclone/smc/swarm/tree_holder.py", "old": "            self.log_pdf = self._perm_dist.log_pdf(tree)", "new": "            self.log_pdf = 0.0"},
    {"name": "W3-kernel-drops-perm", "kind": "break", "rule": "W3", "file": "phyclone/smc/kernels/semi_adapted.py", "old": "        super().__init__(tree_dist, rng, perm_dist=perm_dist)\n\n        self.log_half", "new": "        super().__init__(tree_dist, rng)\n\n        self.log_half"},
    {"name": "R2-path-logq-from-other-tree", "kind": "break", "rule": "R2", "file": _C, "old": "log_q = proposal_dist.log_p(new_tree_holder)", "new": "log_q = proposal_dist.log_p(TreeHolder(tree, tree_dist, perm_dist))"},
    {"name": "L1-skip-point", "kind": "break", "rule": "L1", "file": _S, "old": "            self.iteration += 1\n\n        return self.swarm", "new": "            self.iteration += 2\n\n        return self.swarm"},
    {"name": "benign-rename-local", "kind": "benign", "file": _B, "old": "        particle.log_w = log_w\n        return particle", "new": "        lw = log_w\n        particle.log_w = lw\n        return particle"},
    {"name": "benign-hoist-get_log_w", "kind": "benign", "file": _C, "old": "            new_swarm.add_particle(parent_log_W + self._get_log_w(particle), particle)\n\n        self.swarm", "new": "            inc = self._get_log_w(particle)\n            new_swarm.add_particle(inc + parent_log_W, particle)\n\n        self.swarm"},
    {"name": "benign-flatten-create_particle", "kind": "benign", "file": _B, "old": "        if self.perm_dist is None:\n            if parent_particle is None:\n                log_w = particle.log_p - log_q\n\n            else:\n                log_w = particle.log_p - parent_particle.log_p - log_q\n", "new": "        if self.perm_dist is None and parent_particle is None:\n            log_w = particle.log_p - log_q\n        elif self.perm_dist is None:\n            log_w = -log_q - parent_particle.log_p + particle.log_p\n"},
    {"name": "benign-resample-count-N", "kind": "benign", "file": _C, "old": "self._rng.multinomial(self.num_particles - 1, self.swarm.weights)", "new": "self._rng.multinomial(self.num_particles, self.swarm.weights)"},
]
