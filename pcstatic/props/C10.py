"""C10 — reported CCFs are feasible on the tree and jointly maximise the likelihood (structural premises).

Optimality over all feasible assignments is the max-product dynamic-programming theorem; decided here
are its structural premises in `process_trace/map.py`:

X1  max-convolution: index ranges, the split `child[a] + prev[b]` with a + b = i, value and back-pointer
    written under the same "candidate beats current" guard, -inf start, and the fold over children / rows.
X2  running maximum over the grid with the matching back-pointer in each arm, column 0, all rows/columns.
X3  node combine (TermFlow): leaf R_max = log_p, inner R_max = log_p + S_max(children R_max), children
    first; the graph conversion keeps edge direction and attaches the node payload that is read here.
X4  traceback agrees with the forward pass (root index grid-1 in every sample, start total from S_choice,
    children in reverse of the forward order over the same successor list, pointer read before the total is
    decremented, recursion on the child's own index vector).
X5  outputs (TermFlow): ccf = idx / (grid-1), clonal_prev = ccf - sum of children, virtual root removed
    from both dictionaries, the consumer reads the two dictionaries in the order they are returned.

NOT decided: optimality itself, the 1e-12 bound, numpy semantics, that all children arrays share a shape.

Technique: the loop nests are interpreted symbolically by TermFlow with ONE generic element per loop
(`_generic_loops`), which yields one `store_sub` event per subscript store, with the normalised index,
value and guard; the rules are stated over those events (so local renames, statement splitting,
commutative reordering and helper extraction are invisible).  No text or line matching.
"""
import ast
from contextlib import contextmanager

from .. import termflow
from ..astutil import ancestors, call_name, calls, kwarg, parents, u
from ..formula import extract, same, same_events, spec
from ..model import AnalysisError
from ..termflow import ADict, AList, ATuple, Poly, _const_of_key, _is_polykey, equivalent, key_atom, poly_from_key, show, vkey

MAP = "process_trace.map."
ONE = Poly.const(1)
ZERO = Poly.const(0)
ARRAY_MAKERS = {"np.zeros", "np.ones", "np.empty", "np.full", "np.zeros_like", "np.ones_like", "np.empty_like", "np.full_like"}
FULL_SLICE = Poly.atom(("slice", vkey(None), vkey(None), vkey(None)))
NODE_ARRAY_KEYS = ("log_p", "log_R", "log_R_max", "log_S_max")  # per-node arrays of shape (samples, grid)


# --------------------------------------------------------------------------- small term helpers
@contextmanager
def _generic_loops():
    """Interpret every symbolic loop over ONE generic element (instead of two pseudo-elements): a read of
    `a[i]` inside the body is then the value *before* this iteration's store, which is what a rule about
    `if candidate > a[i]: a[i] = candidate` needs.  Module attribute patched for the duration only."""
    old = termflow.K_ELEMS
    termflow.K_ELEMS = 1
    try:
        yield
    finally:
        termflow.K_ELEMS = old


def P(i):
    return Poly.atom(("v", "P%d" % i))


def _atom(v):
    if isinstance(v, Poly):
        return v.as_atom()
    if isinstance(v, tuple):
        return key_atom(v)
    return None


def _poly(k):
    if isinstance(k, Poly):
        return k
    if _is_polykey(k):
        return poly_from_key(k)
    if isinstance(k, tuple) and k and isinstance(k[0], str):
        return Poly.atom(k)
    raise AnalysisError("C10: cannot read %r as a term" % (k,))


def _eq(a, b):
    """Equality of two index / value terms (polynomial normal forms)."""
    if isinstance(a, Poly) and isinstance(b, Poly):
        return not (a - b).terms
    return vkey(a) == vkey(b)


def _sub(base, idx):
    return Poly.atom(("sub", vkey(base), vkey(idx)))


def _attr(base, name):
    return Poly.atom(("attr", vkey(base), name))


def _const(k):
    c = _const_of_key(k) if isinstance(k, tuple) else None
    return c


class Loop:
    """A decoded loop variable: generic element `var` of `range(start, stop, step)` (or of `domain`)."""

    def __init__(self, var, start=None, stop=None, step=None, domain=None, reverse_of=None):
        self.var, self.start, self.stop, self.step, self.domain, self.reverse_of = var, start, stop, step, domain, reverse_of

    @property
    def is_range(self):
        return self.start is not None

    def text(self):
        if self.is_range:
            return "range(%s, %s%s)" % (show(self.start), show(self.stop), "" if _eq(self.step, ONE) else ", " + show(self.step))
        return show(_poly(self.domain)) if self.domain is not None else "?"


def _range_of(dom):
    dom = key_atom(dom) if isinstance(dom, tuple) else None
    if dom is not None and dom[0] == "call" and dom[1] == "range" and not dom[3] and 2 <= len(dom[2]) <= 3:
        ar = [_poly(x) for x in dom[2]]
        return ar[0], ar[1], (ar[2] if len(ar) == 3 else ONE)
    return None


def _loop(v):
    a = _atom(v)
    if a is None or a[0] != "elem":
        return None
    r = _range_of(a[1])
    if r is not None:
        return Loop(_poly(a), *r)
    dom = key_atom(a[1])
    if dom is not None and dom[0] == "call" and dom[1] == "reversed" and len(dom[2]) == 1 and _range_of(dom[2][0]) is not None:
        return Loop(_poly(a), domain=dom, reverse_of=_range_of(dom[2][0]))
    return Loop(_poly(a), domain=a[1])


def _root(k):
    """The array whose shape an array-creating call copies (np.zeros(B.shape) -> B)."""
    a = key_atom(k) if isinstance(k, tuple) else None
    if a is not None and a[0] == "call" and a[1] in ARRAY_MAKERS and a[2]:
        s = key_atom(a[2][0])
        if s is not None and s[0] == "attr" and s[2] == "shape":
            return _root(s[1])
        if a[1].endswith("_like"):
            return _root(a[2][0])
    return a if a is not None else k


def _dim(term):
    """(root array, axis) when `term` is `len(A)` or `A.shape[axis]`; else None."""
    a = _atom(term)
    if a is None:
        return None
    if a[0] == "call" and a[1] == "len" and len(a[2]) == 1 and not a[3]:
        return _root(a[2][0]), 0
    if a[0] == "sub":
        s = key_atom(a[1])
        ax = _const(a[2])
        if s is not None and s[0] == "attr" and s[2] == "shape" and ax is not None and ax.denominator == 1:
            return _root(s[1]), int(ax)
    return None


def _covers(loop, start, roots, axis):
    """Does `loop` range over start .. dim-1 of one of `roots` along `axis`?
    -> (True, '') | (False, why) | (None, why) when the bound is not understood."""
    if loop is None or not loop.is_range:
        return None, "the index is not an element of a range(...) loop"
    if not _eq(loop.step, ONE):
        return False, "the loop steps by %s" % show(loop.step)
    if not _eq(loop.start, Poly.const(start)):
        return False, "the loop starts at %s, not at %d" % (show(loop.start), start)
    d = _dim(loop.stop)
    if d is None:
        # dimension +- constant is an off-by-one; anything else is not understood
        for a in loop.stop.atoms():
            rest = loop.stop - Poly.atom(a)
            if rest.is_const() and _dim(Poly.atom(a)) is not None:
                return False, "the loop stops at %s (off by %s)" % (show(loop.stop), rest.const_value())
        return None, "the loop bound %s is not a dimension of an array" % show(loop.stop)
    if d[1] != axis:
        return False, "the loop bound %s is axis %d, expected axis %d" % (show(loop.stop), d[1], axis)
    if not any(d[0] == r for r in roots):
        return None, "the loop bound %s is not a dimension of the arrays of this function" % show(loop.stop)
    return True, ""


def _decide(ctx, verdict, rule, instance, where, why, construct, stmt, detail=""):
    ok, msg = verdict
    if ok is None:
        raise AnalysisError("C10/%s %s: unrecognised shape: %s" % (rule, instance, msg))
    return ctx.check(ok, rule, instance, where, "%s: %s" % (why, msg), construct=construct, stmt=stmt, detail=detail)


def _strip_upd(k):
    """The object under `x«m(...)»` wrappers (TermFlow's mark for 'x after the statement x.m(...)')."""
    a = key_atom(k) if isinstance(k, tuple) else None
    while a is not None and a[0] == "upd":
        k = a[2]
        a = key_atom(k)
    return k


def _rowview_atom(atom):
    """`row = A[i]; row[j]` (a row view of a 2-D array handed to a helper) reads A[i, j]."""
    if atom[0] == "sub" and _is_polykey(atom[1]) and _is_polykey(atom[2]):
        inner = key_atom(atom[1])
        if inner is not None and inner[0] == "sub" and _is_polykey(inner[2]):
            ia, ja = key_atom(inner[2]), key_atom(atom[2])
            scalar = lambda a, k: (a is not None and a[0] in ("elem", "idx", "v")) or _const_of_key(k) is not None or (a is None)
            row = ia is not None and ia[0] in ("elem", "idx")  # the row index is a loop variable (a constant position is a tuple component)
            if row and scalar(ja, atom[2]) and not (ja is not None and ja[0] == "slice"):
                return ("sub", inner[1], ("tuple", inner[2], atom[2]))
    return None


def _stores(ex):
    """The subscript stores of a function, rows handed to a helper as views (`f(A[i])` ... `row[j] = v`) addressed [i, j]."""
    from ..termflow import Event, rewrite

    out = []
    for e in ex.events:
        if e.name != "store_sub":
            continue
        base, idx, val = e.args
        ba = base.as_atom() if isinstance(base, Poly) else None
        if ba is not None and ba[0] == "sub" and _is_polykey(ba[2]) and isinstance(idx, Poly) and _is_polykey(ba[1]):
            ia = key_atom(ba[2])
            if ia is not None and ia[0] in ("elem", "idx"):
                n = Event("store_sub", [poly_from_key(ba[1]), ATuple([poly_from_key(ba[2]), idx]), rewrite(val, _rowview_atom)], {}, [rewrite(g, _rowview_atom) for g in e.guards], e.node)
                n.guards = [rewrite(g, _rowview_atom) for g in e.guards]
                n.full_guards = [rewrite(g, _rowview_atom) for g in e.full_guards]
                out.append(n)
                continue
        out.append(e)
    return out


def _is_index_term(v):
    """A term built only from loop elements and integers (a grid index, not an array value)."""
    if not isinstance(v, Poly):
        return False
    ats = list(v.atoms())
    return bool(ats) and all(a[0] == "elem" for a in ats)


def _is_neg_inf(k):
    p = _poly(k) if isinstance(k, (tuple, Poly)) else None
    if p is None or len(p.terms) != 1:
        return False
    (m, c), = p.terms.items()
    names = sorted(a for a, pw in m if pw == 1)
    if names == [("const", "inf")]:
        return c < 0
    if names == [("const", "-inf")]:
        return c > 0
    return False


def _starts_at_neg_inf(v):
    """True / False / None(unknown) for the initial value of the running-maximum array."""
    if not isinstance(v, Poly):
        return None
    a = v.as_atom()
    if a is not None and a[0] == "call" and a[1] in ("np.full", "np.full_like"):
        fill = a[2][1] if len(a[2]) >= 2 else dict(a[3]).get("fill_value")
        if fill is None:
            return None
        return _is_neg_inf(fill)
    if a is not None and a[0] == "call" and a[1] in ARRAY_MAKERS:
        return False
    if len(v.terms) == 1:
        (m, c), = v.terms.items()
        makers = [x for x, pw in m if x[0] == "call" and x[1] in ("np.ones", "np.ones_like") and pw == 1]
        rest = Poly({tuple(sorted(((x, pw) for x, pw in m if x not in makers), key=repr)): c})
        if len(makers) == 1:
            return _is_neg_inf(rest)
    return None


def _result_positions(ex, wanted, what):
    """Positions in the returned tuple of the values whose keys are given (dict name -> key)."""
    r = ex.result
    if not isinstance(r, ATuple):
        raise AnalysisError("C10: %s does not return a tuple (%s)" % (what, show(r)))
    keys = [vkey(x) for x in r.items]
    pos = {}
    for name, k in wanted.items():
        hits = [i for i, x in enumerate(keys) if x == k]
        if len(hits) != 1:
            return None
        pos[name] = hits[0]
    return pos


class _Info(dict):
    """What an earlier X rule worked out for the later ones; a key that is missing means that rule could not analyse the
    code (or stopped at a violation): the dependent rule cannot proceed either — an analysis error, not a crash."""

    def __missing__(self, key):
        raise AnalysisError("C10: %r was not established by an earlier rule (it could not analyse the changed code)" % key)


# --------------------------------------------------------------------------- X1
def rule_X1(ctx, info):
    prog = ctx.prog
    ctx.rule("X1", "max-convolution: i over the whole grid, split j over 0..i, value child[a]+prev[b] with a+b=i, value and back-pointer (=child index) co-updated under 'candidate beats current', -inf start; fold over children in order, row by row", 10)
    f = prog.fn(MAP + "_compute_log_D_n")
    Q = f.qualname
    with _generic_loops():
        ex = extract(prog, f)
    sts = _stores(ex)
    ptr = [e for e in sts if _is_index_term(e.args[2])]
    val = [e for e in sts if not _is_index_term(e.args[2])]
    if len(ptr) != 1 or len(val) != 1:
        # not the scalar loop.  One clause survives any vectorisation of the split: the candidate for budget i pairs
        # child[j] with prev[i - j], so a vector of candidates adds a *forward* slice of the one array to a *reversed*
        # slice of the other; two forward slices pair child[j] with prev[j]
        params = set(f.params)
        for n in ast.walk(f.node):
            if isinstance(n, ast.BinOp) and isinstance(n.op, ast.Add) and all(isinstance(x, ast.Subscript) and isinstance(x.slice, ast.Slice) and isinstance(x.value, ast.Name) and x.value.id in params for x in (n.left, n.right)) and n.left.value.id != n.right.value.id:
                def forward(sl):
                    return sl.step is None or (isinstance(sl.step, ast.Constant) and sl.step.value == 1)
                if forward(n.left.slice) and forward(n.right.slice):
                    ctx.fail("X1", Q + ": the candidate for budget i adds child[j] and prev[i - j]", f.where(n),
                             "`%s` adds two forward slices: entry j pairs child[j] with prev[j] (total 2j, not i), so the maximum is taken over splits that do not add up to the budget" % u(n)[:80],
                             construct=Q, stmt="vectorised split")
                    return
        raise AnalysisError("C10/X1: expected one value store and one back-pointer store in %s, found %d/%d" % (Q, len(val), len(ptr)))
    ptr, val = ptr[0], val[0]
    R, i_term, v = val.args
    C, ci_term, pv = ptr.args
    params = {vkey(P(0)): 0, vkey(P(1)): 1}
    i = _loop(i_term)
    # -- outer bound
    _decide(ctx, _covers(i, 0, [_root(vkey(P(0))), _root(vkey(P(1)))], 0) if i is not None else (False, "result is stored at %s, which is not the loop's total index" % show(i_term)),
            "X1", "_compute_log_D_n: total index i covers range(grid)", f.where(val.node), "some total index is never filled", Q, "outer loop bound")
    # -- the candidate value
    reads = []
    shape_ok = isinstance(v, Poly) and len(v.terms) == 2
    if shape_ok:
        for m, c in v.terms.items():
            a = m[0][0] if len(m) == 1 and m[0][1] == 1 and c == 1 else None
            if a is None or a[0] != "sub" or a[1] not in params:
                shape_ok = False
                break
            reads.append((params[a[1]], _poly(a[2])))
    shape_ok = shape_ok and sorted(p for p, _ in reads) == [0, 1]
    ctx.check(shape_ok, "X1", "_compute_log_D_n: candidate = child[a] + prev[b]", f.where(val.node),
              "the value written to result[i] is %s, not one entry of each argument added together" % show(v), construct=Q, stmt="candidate value")
    if shape_ok and i is not None:
        idx = dict(reads)
        ssum = idx[0] + idx[1]
        ctx.check(_eq(ssum, i.var), "X1", "_compute_log_D_n: split indices sum to i", f.where(val.node),
                  "the two read indices %s and %s sum to %s, not to the total index %s (the sum constraint lives here)" % (show(idx[0]), show(idx[1]), show(ssum), show(i.var)),
                  construct=Q, stmt="a + b == i")
        js = [(p, _loop(t)) for p, t in reads if _loop(t) is not None]
        if not js:
            ctx.fail("X1", "_compute_log_D_n: split index j covers range(i+1)", f.where(val.node), "neither read index (%s, %s) is the inner loop variable" % (show(idx[0]), show(idx[1])), construct=Q, stmt="inner loop bound")
        else:
            j = js[0][1]
            if not j.is_range:
                raise AnalysisError("C10/X1: the split index does not come from a range(...) loop in %s" % Q)
            ok = _eq(j.start, ZERO) and _eq(j.step, ONE) and _eq(j.stop, i.var + ONE)
            ctx.check(ok, "X1", "_compute_log_D_n: split index j covers range(i+1)", f.where(val.node),
                      "the split index ranges over %s, not over 0..i inclusive (%s)" % (j.text(), "range(0, %s)" % show(i.var + ONE)), construct=Q, stmt="inner loop bound")
        # -- the back-pointer
        which = [p for p, t in reads if _eq(t, pv)]
        ok = _eq(ci_term, i.var) and len(which) == 1
        ctx.check(ok, "X1", "_compute_log_D_n: back-pointer choice[i] = index read from one argument", f.where(ptr.node),
                  "choice[%s] = %s is not (at index i) the index at which an argument of this candidate is read (%s / %s)" % (show(ci_term), show(pv), show(idx[0]), show(idx[1])),
                  construct=Q, stmt="back-pointer value")
        info["ptr_param"] = which[0] if len(which) == 1 else 0
    else:
        info["ptr_param"] = 0
    # -- co-update under the comparison
    gv, gp = list(val.guards), list(ptr.guards)
    same_guard = gv == gp
    ctx.check(same_guard, "X1", "_compute_log_D_n: value and back-pointer written in the same guarded block", f.where(ptr.node),
              "result[i] is written under %s but choice[i] under %s: the pointer no longer belongs to the stored maximum" % ([show(g) for g in gv] or "no guard", [show(g) for g in gp] or "no guard"),
              construct=Q, stmt="co-update")
    from ..termflow import ordering as _ordering
    g = _ordering(gv[-1]) if gv else None
    if g is None:
        ctx.fail("X1", "_compute_log_D_n: guard is 'candidate beats current result[i]'", f.where(val.node), "result[i] is overwritten unconditionally (last candidate wins, not the best)", construct=Q, stmt="guard direction")
    else:
        if len(gv) != 1 or g[0] != "cmp" or g[1] not in ("<", "<="):
            raise AnalysisError("C10/X1: the guard of the store in %s is not a single ordering comparison: %s" % (Q, [show(x) for x in gv]))
        cur = vkey(_sub(R, i_term))
        lo, hi = g[2], g[3]
        if {lo, hi} != {cur, vkey(v)}:
            ctx.fail("X1", "_compute_log_D_n: guard is 'candidate beats current result[i]'", f.where(val.node),
                     "the guard %s does not compare the candidate %s with the current result[i]" % (show(g), show(v)), construct=Q, stmt="guard direction")
        else:
            ctx.check(hi == vkey(v), "X1", "_compute_log_D_n: guard is 'candidate beats current result[i]'", f.where(val.node),
                      "the guard %s stores the candidate when it is SMALLER than the current value (keeps a minimum)" % show(g), construct=Q, stmt="guard direction",
                      detail="guard %s (strict or not: tie-breaking only)" % show(g))
    # -- -inf start
    init = _starts_at_neg_inf(R)
    if init is None:
        raise AnalysisError("C10/X1: cannot read the initial value %s of the running-maximum array in %s" % (show(R), Q))
    ctx.check(init, "X1", "_compute_log_D_n: result starts at -inf", f.where(), "the array of maxima starts as %s, not at -inf: every candidate below the start value is lost" % show(R), construct=Q, stmt="-inf initialisation")
    pos = _result_positions(ex, {"choice": vkey(C), "value": vkey(R)}, Q)
    if vkey(C) == vkey(R) or pos is None:
        if init:
            raise AnalysisError("C10/X1: %s does not return (choice, result) of the arrays it fills: %s" % (Q, show(ex.result)))
        pos = {"choice": 0, "value": 1}
    else:
        ctx.ok("X1", "_compute_log_D_n: returns the pointer array and the maxima", f.where(), "positions %s" % pos)
    info["dn_pos"] = pos
    ctx.analysed(f)
    _fold(ctx, info)


def _fold(ctx, info):
    """compute_log_D: D_k[r, :] = maxconv(R_k[r, :], D_{k-1}[r, :]) for the children in list order."""
    prog = ctx.prog
    f = prog.fn(MAP + "compute_log_D")
    Q = f.qualname
    pos = info["dn_pos"]
    pp = info["ptr_param"]
    ex = extract(prog, f, no_inline=["_compute_log_D_n"])  # two pseudo-elements per loop: shows the fold
    evs = ex.calls("_compute_log_D_n")
    K = termflow.K_ELEMS
    if len(evs) != K * K or any(len(e.args) != 2 or e.kwargs for e in evs):
        raise AnalysisError("C10/X1: expected %d positional calls of _compute_log_D_n in the unrolled %s, found %d" % (K * K, Q, len(evs)))
    if not isinstance(ex.result, ATuple) or len(ex.result.items) != 2:
        raise AnalysisError("C10/X1: %s does not return a pair" % Q)
    lists = [(n, x) for n, x in enumerate(ex.result.items) if isinstance(x, AList)]
    if len(lists) != 1:
        raise AnalysisError("C10/X1: %s does not return (list of pointer tables, D)" % Q)
    pc, choices = lists[0]
    D0 = ex.result.items[1 - pc]
    info["D_pos"] = {"choice": pc, "value": 1 - pc}

    def callterm(e):
        return Poly.atom(("call", "_compute_log_D_n", tuple(vkey(a) for a in e.args), ()))

    def row_key(k):
        """row index r of an index key `r, :` or `r`; else None"""
        if isinstance(k, tuple) and k and k[0] == "tuple" and len(k) == 3 and k[2] == vkey(FULL_SLICE):
            return _poly(k[1])
        if _is_polykey(k):
            return _poly(k)
        return None

    def row_of(arg, base):
        """row index r when arg is base[r, :] or base[r]; else None"""
        a = _atom(arg)
        if a is None or a[0] != "sub" or a[1] != vkey(base):
            return None
        return row_key(a[2])

    roots = [_root(vkey(D0)), _root(vkey(_sub(P(0), ZERO)))] + [_root(vkey(Poly.atom(("elem", vkey(P(0)), k)))) for k in range(K)]

    def ordinal(row):
        """r when `row` is the r-th pseudo-element of a loop over all rows (of D or of any child: the
        children share one shape, so loops over the rows of different children name the same rows)"""
        lp = _loop(row) if row is not None else None
        a = _atom(row) if row is not None else None
        if lp is None or _covers(lp, 0, roots, 0)[0] is not True:
            return None
        return a[2]

    d_stores = [e for e in _stores(ex) if vkey(e.args[0]) == vkey(D0)]
    ok_child, ok_prev, ok_back, ok_rows, why_c, why_p, why_b = True, True, True, (True, ""), "", "", ""
    row_dom = {}
    for n, e in enumerate(evs):
        k, r = divmod(n, K)
        child = Poly.atom(("elem", vkey(P(0)), k))
        rc = row_of(e.args[pp], child)
        if rc is None:
            aa = _atom(e.args[pp])
            if aa is not None and aa[0] == "elem" and len(aa) == 3 and (key_atom(aa[1]) or ("",))[0] == "elem":
                # the rows of a child iterated directly (`for i, row in enumerate(child)`): which row meets which row of D
                # is then a fact about two loops this rule does not relate
                raise AnalysisError("C10/X1: %s hands %s to _compute_log_D_n: a row taken by iterating the child, not by the row index (unrecognised shape)" % (Q, show(e.args[pp])))
        if n == 0:
            ok_rows = _covers(_loop(rc), 0, roots, 0) if rc is not None and _loop(rc) is not None else (False, "the child is not read at the row loop's index (%s)" % show(e.args[pp]))
        if rc is None or (ok_rows[0] is True and ordinal(rc) != r):
            ok_child, why_c = False, "call %d passes %s as the child row: not row r of the %s child of the list, taken in list order" % (n, show(e.args[pp]), "first" if k == 0 else "next")
            continue
        row_dom[(k, r)] = _atom(rc)[1] if _atom(rc) is not None else None
        prev = e.args[1 - pp]
        pr = row_of(prev, D0)
        if k == 0:
            good = pr is not None and _eq(pr, rc)
        else:
            before = evs[(k - 1) * K + r]
            good = vkey(prev) == vkey(_sub(callterm(before), Poly.const(pos["value"])))
            if not good and pr is not None and _eq(pr, rc) and ordinal(pr) == r and row_dom.get((k - 1, r)) != row_dom[(k, r)]:
                # the row loop is re-declared per child (`range(child.shape[0])`): same row under another
                # name, so the interpreter could not connect the read with the previous child's store
                # (which the write-back obligation below establishes for every call)
                good = True
        if not good:
            ok_prev, why_p = False, "call %d (child %d, row %d) convolves with %s, not with row r of the running D left by the previous child" % (n, k, r, show(prev))
        # D row r written back from the value slot of this very call
        want = _sub(callterm(e), Poly.const(pos["value"]))
        back = [s for s in d_stores if vkey(s.args[2]) == vkey(want)]
        if len(back) != 1 or row_key(vkey(back[0].args[1])) is None or not _eq(row_key(vkey(back[0].args[1])), rc):
            ok_back, why_b = False, "the maxima of call %d (child %d, row %d) are %s" % (n, k, r, "never stored into D" if not back else "stored at D[%s], not at row r of D" % show(back[0].args[1]))
    ctx.check(ok_child, "X1", "compute_log_D: children folded in list order, row r of child k", f.where(evs[0].node), why_c, construct=Q, stmt="fold child argument")
    ctx.check(ok_prev, "X1", "compute_log_D: row r convolved with the running D row r", f.where(evs[0].node), why_p, construct=Q, stmt="fold running argument")
    _decide(ctx, ok_rows, "X1", "compute_log_D: every row (sample) is folded", f.where(evs[0].node), "a sample is skipped", Q, "fold row bound")
    ctx.check(ok_back and len(d_stores) == len(evs), "X1", "compute_log_D: D[r, :] updated from the maxima of the same call", f.where(evs[0].node),
              why_b or "D is written %d times for %d convolutions" % (len(d_stores), len(evs)), construct=Q, stmt="fold write-back")
    # pointer tables: choices[k][r]
    ok, why = len(choices.items) == K, "the list of pointer tables has %d entries for %d children" % (len(choices.items), K)
    if ok:
        for k, tbl in enumerate(choices.items):
            if not isinstance(tbl, AList) or len(tbl.items) != K:
                ok, why = False, "pointer table %d is %s: not one entry per row, rebuilt for every child" % (k, show(tbl))
                break
            for r, item in enumerate(tbl.items):
                want = _sub(callterm(evs[k * K + r]), Poly.const(pos["choice"]))
                if vkey(item) != vkey(want):
                    ok, why = False, "pointer table [%d][%d] is %s, not the back-pointers of child %d, row %d (%s)" % (k, r, show(item), k, r, show(want))
    ctx.check(ok, "X1", "compute_log_D: choice tables indexed [child][row]", f.where(evs[0].node), why, construct=Q, stmt="fold pointer tables")
    ctx.analysed(f)


# --------------------------------------------------------------------------- X2
def rule_X2(ctx, info):
    prog = ctx.prog
    ctx.rule("X2", "running maximum: column 0 copied, S[i,j] = max(D[i,j], S[i,j-1]) with choice j resp. choice[i,j-1] in the matching arm, every row, every column from 1", 7)
    f = prog.fn(MAP + "compute_log_S")
    Q = f.qualname
    # a vectorised running maximum must run along the grid (last axis) of the (samples, grid) array: numpy's
    # accumulate defaults to axis 0, i.e. across samples
    for c in [n for n in ast.walk(f.node) if isinstance(n, ast.Call)]:
        nm = u(c.func)
        if nm.split(".")[-1] in ("accumulate", "cummax") and ("maximum" in nm or "fmax" in nm or nm.endswith("cummax")):
            ax = next((k.value for k in c.keywords if k.arg == "axis"), c.args[1] if len(c.args) > 1 else None)
            axv = ast.literal_eval(ax) if ax is not None and isinstance(ax, (ast.Constant, ast.UnaryOp)) else None
            ctx.check(axv in (1, -1), "X2", "compute_log_S: the vectorised running maximum runs along the grid axis", f.where(c), "%s accumulates along axis %s of the (samples, grid) array: the running maximum mixes samples instead of running over the children's total within one sample" % (u(c)[:80], "0 (numpy's default)" if ax is None else u(ax)), construct=Q, stmt="running maximum axis")
    with _generic_loops():
        ex = extract(prog, f, no_inline=["compute_log_D"])
    calls = ex.calls("compute_log_D")
    if len(calls) != 1 or len(calls[0].args) != 1 or vkey(calls[0].args[0]) != vkey(P(0)):
        raise AnalysisError("C10/X2: %s does not call compute_log_D(child values) exactly once" % Q)
    callt = Poly.atom(("call", "compute_log_D", (vkey(P(0)),), ()))
    D = _sub(callt, Poly.const(info["D_pos"]["value"]))
    Dc = _sub(callt, Poly.const(info["D_pos"]["choice"]))
    sts = _stores(ex)
    loop_sts = [e for e in sts if e.guards]
    flat_sts = [e for e in sts if not e.guards]
    arms = {}
    for e in loop_sts:
        arms.setdefault(tuple(e.guards), []).append(e)
    if len(arms) != 2 or any(len(v) != 2 or len(g) != 1 for g, v in arms.items()):
        raise AnalysisError("C10/X2: expected two guarded arms with two stores each in %s, found %s" % (Q, {str([show(x) for x in g]): len(v) for g, v in arms.items()}))
    bases = {vkey(e.args[0]) for e in loop_sts}
    if len(bases) != 2:
        raise AnalysisError("C10/X2: the arms of %s do not write exactly two arrays" % Q)
    cb = {vkey(e.args[0]) for e in loop_sts if _is_index_term(e.args[2])}
    if len(cb) != 1:
        raise AnalysisError("C10/X2: cannot tell the pointer array from the value array in %s" % Q)
    Ck = cb.pop()
    Sk = (bases - {Ck}).pop()
    S = [e.args[0] for e in loop_sts if vkey(e.args[0]) == Sk][0]
    C = [e.args[0] for e in loop_sts if vkey(e.args[0]) == Ck][0]
    idxs = {vkey(e.args[1]) for e in loop_sts}
    e0 = loop_sts[0]
    ij = e0.args[1]
    if not isinstance(ij, ATuple) or len(ij.items) != 2 or not all(isinstance(x, Poly) for x in ij.items):
        raise AnalysisError("C10/X2: the stores of %s are not addressed [row, column]" % Q)
    if len(idxs) != 1:
        ctx.fail("X2", "compute_log_S: all four stores address [i, j]", f.where(e0.node), "the stores of the two arms address different cells: %s" % sorted(show(e.args[1]) for e in loop_sts), construct=Q, stmt="store index")
    ti, tj = ij.items
    li, lj = _loop(ti), _loop(tj)
    roots = [_root(vkey(D)), _root(Sk), _root(Ck)]
    _decide(ctx, _covers(li, 0, roots, 0), "X2", "compute_log_S: every row (sample)", f.where(e0.node), "a sample is skipped", Q, "row bound")
    _decide(ctx, _covers(lj, 1, roots, 1), "X2", "compute_log_S: every column from 1", f.where(e0.node), "a grid column is skipped (or column 0 is recomputed from column -1)", Q, "column bound")
    prev_idx = ATuple([ti, tj - ONE])
    d_now = _sub(D, ij)
    s_prev = _sub(S, prev_idx)
    c_prev = _sub(C, prev_idx)
    seen_hi = []
    for n, (g, evs) in enumerate(sorted(arms.items(), key=lambda kv: repr(kv[0]))):
        from ..termflow import ordering as _ordering
        gg = _ordering(g[0])
        if gg[0] != "cmp" or gg[1] not in ("<", "<="):
            raise AnalysisError("C10/X2: the guard %s in %s is not an ordering comparison" % (show(gg), Q))
        lo, hi = gg[2], gg[3]
        sv = [e for e in evs if vkey(e.args[0]) == Sk]
        cv = [e for e in evs if vkey(e.args[0]) == Ck]
        if len(sv) != 1 or len(cv) != 1:
            raise AnalysisError("C10/X2: an arm of %s does not write the value and the pointer once each" % Q)
        sv, cv = sv[0], cv[0]
        if {lo, hi} != {vkey(d_now), vkey(s_prev)}:
            ctx.fail("X2", "compute_log_S: arm compares D[i,j] with S[i,j-1]", f.where(sv.node), "the guard %s does not compare D[i,j] (%s) with the running maximum of the previous column S[i,j-1] (%s)" % (show(gg), show(d_now), show(s_prev)), construct=Q, stmt="arm guard")
            continue
        seen_hi.append(hi)
        if hi == vkey(d_now):
            want_s, want_c, label = d_now, tj, "D[i,j] is larger: S[i,j] = D[i,j], choice = j"
        else:
            want_s, want_c, label = s_prev, c_prev, "S[i,j-1] is larger: S[i,j] = S[i,j-1], choice = choice[i,j-1]"
        ok = vkey(sv.args[2]) == vkey(want_s) and vkey(cv.args[2]) == vkey(want_c)
        ctx.check(ok, "X2", "compute_log_S: arm where " + label, f.where(sv.node),
                  "under %s the code stores S=%s, choice=%s; the maximum there is %s and its pointer %s" % (show(gg), show(sv.args[2]), show(cv.args[2]), show(want_s), show(want_c)),
                  construct=Q, stmt="arm %s" % ("D" if hi == vkey(d_now) else "S"))
    ctx.check(len(set(seen_hi)) == 2, "X2", "compute_log_S: the two arms are complementary", f.where(e0.node), "both arms keep the same side of the comparison", construct=Q, stmt="arms complementary")
    # column 0
    col0 = []
    for e in flat_sts:
        ix = e.args[1]
        if vkey(e.args[0]) == Sk and isinstance(ix, ATuple) and len(ix.items) == 2 and isinstance(ix.items[1], Poly) and _eq(ix.items[1], ZERO):
            col0.append(e)
    ok, why, node = False, "S[:, 0] is never set from D[:, 0] (it keeps its initial value)", f.node
    if len(col0) == 1:
        e = col0[0]
        r = e.args[1].items[0]
        whole = vkey(r) == vkey(FULL_SLICE) or _covers(_loop(r), 0, roots, 0)[0] is True
        ok = whole and vkey(e.args[2]) == vkey(_sub(D, e.args[1]))
        why, node = "S[%s] = %s is not a copy of column 0 of D for every row" % (show(e.args[1]), show(e.args[2])), e.node
    ctx.check(ok, "X2", "compute_log_S: column 0 copied from D", f.where(node), why, construct=Q, stmt="column 0")
    ca = _atom(C)
    c0 = ca is not None and ca[0] == "call" and ca[1] in ("np.zeros", "np.zeros_like")
    for e in flat_sts:
        ix = e.args[1]
        if vkey(e.args[0]) == Ck and isinstance(ix, ATuple) and len(ix.items) == 2 and isinstance(ix.items[1], Poly) and _eq(ix.items[1], ZERO) and isinstance(e.args[2], Poly) and _eq(e.args[2], ZERO):
            c0 = True
    ctx.check(c0, "X2", "compute_log_S: choice[:, 0] = 0", f.where(), "the pointer of column 0 is not 0 (array created as %s and never set)" % show(C), construct=Q, stmt="choice column 0")
    pos = _result_positions(ex, {"D_choice": vkey(Dc), "S_choice": Ck, "S": Sk}, Q)
    ctx.check(pos is not None, "X2", "compute_log_S: returns D's pointer tables, S's pointers and S", f.where(), "the returned tuple %s does not contain the three tables" % show(ex.result), construct=Q, stmt="return")
    info["S_pos"] = pos or {"D_choice": 0, "S_choice": 1, "S": 2}
    ctx.analysed(f)


# --------------------------------------------------------------------------- X3
LEAF_TESTS = ("len(kids) == 0", "not kids", "len(kids) < 1")


def rule_X3(ctx, info):
    prog = ctx.prog
    ctx.rule("X3", "node combine: leaf R_max = log_p; inner R_max = log_p + S_max(children R_max in successor order); children first; converted graph keeps edge direction and the node payload read here", 9)
    f = prog.fn(MAP + "compute_max_likelihood")
    Q = f.qualname
    ex = extract(prog, f, no_inline=["compute_log_S"])
    pos = info["S_pos"]
    names = ["x0", "x1", "x2"]
    # which dictionary keys receive the pointer tables (read back by the traceback under the same names)
    calls = ex.calls("compute_log_S")
    if len(calls) != 1 or len(calls[0].args) != 1:
        raise AnalysisError("C10/X3: %s does not call compute_log_S exactly once" % Q)
    callt = Poly.atom(("call", "compute_log_S", (vkey(calls[0].args[0]),), ()))
    keyname = {}
    for e in _stores(ex):
        for role in ("D_choice", "S_choice"):
            if vkey(e.args[2]) == vkey(_sub(callt, Poly.const(pos[role]))) and isinstance(e.args[1], str):
                keyname[role] = e.args[1]
    if set(keyname) != {"D_choice", "S_choice"}:
        ctx.fail("X3", "compute_max_likelihood: pointer tables stored on the node", f.where(), "the D / S pointer tables returned by compute_log_S (positions %s) are not both stored on the node (found %s)" % (pos, keyname), construct=Q, stmt="pointer tables stored")
        keyname = {"D_choice": "log_D_choice", "S_choice": "log_S_choice"}
    else:
        ctx.ok("X3", "compute_max_likelihood: pointer tables stored on the node", f.where(), str(keyname))
    info["keyname"] = keyname
    specs = []
    for leaf in LEAF_TESTS:
        src = """
        def s(graph, node_id):
            kids = list(graph.successors(node_id))
            for k in kids:
                compute_max_likelihood(graph, k)
            me = graph.nodes[node_id]
            if %s:
                me["log_R_max"] = me["log_p"]
            else:
                x0, x1, x2 = compute_log_S([graph.nodes[k]["log_R_max"] for k in kids])
                me[%r] = %s
                me[%r] = %s
                me["log_R_max"] = me["log_p"] + %s
        """ % (leaf, keyname["D_choice"], names[pos["D_choice"]], keyname["S_choice"], names[pos["S_choice"]], names[pos["S"]])
        specs.append(spec(prog, src, f, no_inline=["compute_log_S", "compute_max_likelihood"]))
    gs = ex.sub_stores()
    node_key = vkey(_sub(_attr(P(0), "nodes"), P(1)))
    for what in ("log_R_max", keyname["D_choice"], keyname["S_choice"]):
        k = (node_key, vkey(what))
        got = gs.get(k)
        if got is None:
            ctx.fail("X3", "compute_max_likelihood: node[%r]" % what, f.where(), "graph.nodes[node_id][%r] is never written" % what, construct=Q, stmt="node[%r]" % what)
            continue
        pick = specs[0]
        for sp in specs:
            w = sp.sub_stores().get(k)
            if w is not None and equivalent(got, w)[0]:
                pick = sp
                break
        same(ctx, "X3", "compute_max_likelihood: node[%r]" % what, f, got, pick.sub_stores()[k], "graph.nodes[node_id][%r]" % what)
    same_events(ctx, "X3", "compute_max_likelihood: recursion over every successor", f, ex.calls("compute_max_likelihood"), specs[0].calls("compute_max_likelihood"), "recursive calls")
    same_events(ctx, "X3", "compute_max_likelihood: S_max of the children's R_max, in successor order", f, calls, specs[0].calls("compute_log_S"), "compute_log_S call")
    # children first
    order = [e.name for e in ex.events if e.name in ("compute_max_likelihood", "compute_log_S")]
    ok = "compute_log_S" in order and "compute_max_likelihood" in order and order.index("compute_log_S") > max(n for n, x in enumerate(order) if x == "compute_max_likelihood")
    ctx.check(ok, "X3", "compute_max_likelihood: children processed before the node", f.where(), "the children's R_max is read before the recursive calls have computed it", construct=Q, stmt="children first")
    ctx.analysed(f)
    _conversion(ctx)


def _conversion(ctx):
    prog = ctx.prog
    f = prog.fn("process_trace.utils.convert_rustworkx_to_networkx")
    Q = f.qualname
    ex = extract(prog, f)
    dig = [e for e in ex.events if e.name.endswith("DiGraph") and e.name.split(".")[0] in ("networkx", "nx")]
    if len(dig) != 1 or not dig[0].args or not isinstance(dig[0].args[0], AList):
        raise AnalysisError("C10/X3: %s does not build one networkx DiGraph from an edge list" % Q)
    edges = dig[0].args[0]
    ok, why = bool(edges.items), "empty edge list"
    for it in edges.items:
        if not isinstance(it, ATuple) or len(it.items) < 2:
            raise AnalysisError("C10/X3: edge entries of %s are not tuples" % Q)
        ends = []
        for x in it.items[:2]:
            a = _atom(x)
            e = None
            if a is not None and a[0] == "attr" and a[2] == "node_id":
                b = key_atom(a[1])
                if b is not None and b[0] == "sub" and b[1] == vkey(P(0)):
                    c = key_atom(b[2])
                    if c is not None and c[0] == "sub":
                        e = (c[1], _const(c[2]))
            ends.append(e)
        if None in ends:
            raise AnalysisError("C10/X3: cannot read the edge end points %s in %s" % (show(it), Q))
        if not (ends[0][0] == ends[1][0] and ends[0][1] == 0 and ends[1][1] == 1):
            ok, why = False, "the edge is (%s, %s): not (parent = edge[0], child = edge[1]) of the same rustworkx edge, so successors() would not be the children" % (show(it.items[0]), show(it.items[1]))
    ctx.check(ok, "X3", "convert_rustworkx_to_networkx: edge direction parent -> child preserved", f.where(dig[0].node), why, construct=Q, stmt="edge direction")
    ups = [e for e in ex.events if e.name == ".update"]
    G = Poly.atom(("call", dig[0].name, tuple(vkey(a) for a in dig[0].args), ()))
    # networkx: G.add_node(n, **attrs) updates the attributes of n (creating it if need be): the other way of attaching
    adds = [e for e in ex.events if e.name == ".add_node" and "**" in e.kwargs and len(e.args) == 1]
    if not ups and adds:
        ok, why = True, ""
        for e in adds:
            a = _atom(e.kwargs["**"])
            nid = _atom(e.args[0])
            good = (a is not None and a[0] == "mcall" and a[1] == "to_dict" and nid is not None and nid[0] == "attr" and nid[2] == "node_id" and nid[1] == a[2]
                    and _strip_upd(vkey(e.recv)) == vkey(G) and list(e.guards) == list(dig[0].guards))
            if not good:
                ok, why = False, "%s.add_node(%s, **%s): the payload of a node is not attached under that node's own node_id in the new graph" % (show(e.recv), show(e.args[0]), show(e.kwargs["**"]))
        ctx.check(ok, "X3", "convert_rustworkx_to_networkx: node payload attached under the node's id", f.where(adds[0].node), why, construct=Q, stmt="node payload")
        ups = None
    ok, why = bool(ups), "no node payload is attached (nodes[...].update(node.to_dict()) missing)"
    for e in (ups or []):
        r = _atom(e.recv)
        a = _atom(e.args[0]) if len(e.args) == 1 else None
        good = False
        if r is not None and r[0] == "sub" and a is not None and a[0] == "mcall" and a[1] == "to_dict":
            holder = key_atom(r[1])
            nid = key_atom(r[2])
            good = holder is not None and holder[0] == "attr" and holder[2] == "nodes" and _strip_upd(holder[1]) == vkey(G) and nid is not None and nid[0] == "attr" and nid[2] == "node_id" and nid[1] == a[2]
        if not good:
            ok, why = False, "%s.update(%s): the payload of a node is not attached under that node's own node_id in the new graph" % (show(e.recv), show(e.args[0]) if e.args else "")
    if ups is not None:
        ctx.check(ok, "X3", "convert_rustworkx_to_networkx: node payload attached under the node's id", f.where(ups[0].node) if ups else f.where(), why, construct=Q, stmt="node payload")
    # table agreement: keys read from a node dict in map.py are written by to_dict or by map.py itself
    td = prog.fn("TreeNode.to_dict")
    written = set()
    for n in ast.walk(td.node):
        if isinstance(n, ast.Return) and isinstance(n.value, ast.Dict):
            written |= {k.value for k in n.value.keys if isinstance(k, ast.Constant) and isinstance(k.value, str)}
    if not written:
        raise AnalysisError("C10/X3: TreeNode.to_dict does not return a literal dict")
    mod = prog.fn(MAP + "compute_max_likelihood").module
    reads, stores = {}, set()
    for n in ast.walk(mod.tree):
        if isinstance(n, ast.Subscript) and isinstance(n.slice, ast.Constant) and isinstance(n.slice.value, str):
            if isinstance(n.ctx, ast.Store):
                stores.add(n.slice.value)
            else:
                reads.setdefault(n.slice.value, n)
    missing = sorted(k for k in reads if k not in stores and k not in written)
    ctx.check(not missing, "X3", "node keys read in map.py are provided by TreeNode.to_dict or written by the forward pass", "%s:%s" % (f.where().split(":")[0].replace("utils.py", "map.py"), reads[missing[0]].lineno if missing else "?"),
              "map.py reads node key(s) %s that neither TreeNode.to_dict (%s) nor map.py writes" % (missing, sorted(written)), construct=mod.name, stmt="node keys")
    ctx.analysed(f, td)


# --------------------------------------------------------------------------- X4
def rule_X4(ctx, info):
    prog = ctx.prog
    ctx.rule("X4", "traceback agrees with the forward pass: root index grid-1 in every sample; start total S_choice[d, idx[d]]; children in reverse order of the same successor list; child index D_choice[i][d, total] then total -= index; recursion on the child's own vector", 4)
    kn = info["keyname"]
    # ---- root
    f = prog.fn(MAP + "set_max_assignment")
    Q = f.qualname
    ex = extract(prog, f, no_inline=["_set_max_assignment"])
    root_node = _sub(_attr(P(0), "nodes"), P(1))
    sts = [e for e in _stores(ex) if e.args[1] == "max_idx"]
    if len(sts) != 1:
        raise AnalysisError("C10/X4: %s does not store exactly one 'max_idx'" % Q)
    st = sts[0]
    ctx.check(vkey(st.args[0]) == vkey(root_node), "X4", "set_max_assignment: the index vector is stored on the root node", f.where(st.node), "max_idx is stored on %s, not on graph.nodes[root]" % show(st.args[0]), construct=Q, stmt="root max_idx target")
    val = st.args[2]
    verdict = _root_index(val, root_node)
    _decide(ctx, verdict, "X4", "set_max_assignment: root index = grid-1 in every sample", f.where(st.node), "the root is not pinned at CCF one", Q, "root index", detail=show(val))
    evs = ex.calls("_set_max_assignment")
    ok = len(evs) == 1 and len(evs[0].args) == 3 and vkey(evs[0].args[0]) == vkey(P(0)) and vkey(evs[0].args[2]) == vkey(P(1)) and vkey(evs[0].args[1]) == vkey(val)
    ctx.check(ok, "X4", "set_max_assignment: traceback started at the root with the root's own index vector", f.where(evs[0].node) if evs else f.where(),
              "the traceback is started with (%s), not (graph, <the vector stored on the root>, root)" % (", ".join(show(a) for a in evs[0].args) if evs else "no call"), construct=Q, stmt="traceback start")
    ctx.analysed(f)
    # ---- recursive step
    f = prog.fn(MAP + "_set_max_assignment")
    Q = f.qualname
    with _generic_loops():
        ex = extract(prog, f)
    node = _sub(_attr(P(0), "nodes"), P(2))
    kids = Poly.atom(("mcall", "successors", vkey(P(0)), (vkey(P(2)),), ()))
    sts = _stores(ex)
    reset = [e for e in sts if e.args[1] == "max_idx"]
    tot = [e for e in sts if isinstance(e.args[0], AList)]
    fill = [e for e in sts if e not in reset and e not in tot]
    if len(reset) == 1 and len(fill) == 1 and not tot:
        ctx.fail("X4", "_set_max_assignment: total -= child index", f.where(fill[0].node), "the remaining total is never reduced by the index given to a child: every child is read at the parent's full total", construct=Q, stmt="total decrement")
        return
    if len(reset) != 1 or len(tot) != 1 or len(fill) != 1:
        raise AnalysisError("C10/X4: expected one 'max_idx' vector store, one pointer store and one total update in %s, found %d/%d/%d" % (Q, len(reset), len(fill), len(tot)))
    reset, tot, fill = reset[0], tot[0], fill[0]
    # the child that receives the vector
    tgt = _atom(reset.args[0])
    child = None
    if tgt is not None and tgt[0] == "sub" and tgt[1] == vkey(_attr(P(0), "nodes")):
        child = _poly(tgt[2])
    ca = _atom(child) if child is not None else None
    if ca is None or ca[0] != "sub":
        raise AnalysisError("C10/X4: the node that receives max_idx in %s is %s, not an element children[i]" % (Q, show(reset.args[0])))
    ctx.check(ca[1] == vkey(kids), "X4", "_set_max_assignment: children = the same successor list as the forward pass", f.where(reset.node),
              "the traceback indexes %s, the forward pass folds list(graph.successors(node))" % show(_poly(ca[1])), construct=Q, stmt="same successor list")
    i_term = _poly(ca[2])
    li = _loop(i_term)
    n_kids = Poly.atom(("call", "len", (vkey(kids),), ()))
    if li is None:
        raise AnalysisError("C10/X4: the child index %s in %s is not a loop variable" % (show(i_term), Q))
    if li.is_range:
        rev = _eq(li.start, n_kids - ONE) and _eq(li.stop, Poly.const(-1)) and _eq(li.step, Poly.const(-1))
        fwd = _eq(li.step, ONE)
    elif li.reverse_of is not None:
        a, b, c = li.reverse_of
        rev = _eq(a, ZERO) and _eq(b, n_kids) and _eq(c, ONE)
        fwd = False
    else:
        raise AnalysisError("C10/X4: unrecognised child loop %s in %s" % (li.text(), Q))
    if not rev and not fwd and not (li.is_range and _eq(li.step, Poly.const(-1))):
        raise AnalysisError("C10/X4: unrecognised child loop %s in %s" % (li.text(), Q))
    ctx.check(rev, "X4", "_set_max_assignment: children visited last to first, all of them", f.where(reset.node),
              "children are visited over %s; the pointer table of fold k assumes children k+1.. have already taken their share (last child first, down to child 0)" % li.text(), construct=Q, stmt="reverse child order")
    # the start total
    T = tot.args[0]
    d_term = fill.args[1]
    ld = _loop(d_term)
    _decide(ctx, _covers(ld, 0, [_root(vkey(P(1)))], 0), "X4", "_set_max_assignment: every sample is traced", f.where(fill.node), "a sample keeps index 0", Q, "sample loop bound")
    s_tab = _sub(node, kn["S_choice"])
    ok, why = len(T.items) == 1 and len(T.doms) == 1, "the list of totals %s is not one entry per sample" % show(T)
    if ok:
        dl = _range_of(T.doms[0])
        dvar = Poly.atom(("elem", key_atom(T.doms[0]), 0))
        cov = _covers(Loop(dvar, *dl), 0, [_root(vkey(P(1)))], 0) if dl is not None else (None, "totals are not built over a range")
        if cov[0] is None:
            raise AnalysisError("C10/X4: %s" % cov[1])
        want = _sub(s_tab, ATuple([dvar, _sub(P(1), dvar)]))
        ok = cov[0] and vkey(T.items[0]) == vkey(want)
        why = "the start total of sample d is %s, not %s[d, idxs[d]] for every sample (%s)" % (show(T.items[0]), kn["S_choice"], cov[1] or show(want))
    ctx.check(ok, "X4", "_set_max_assignment: start total = S_choice[d, idx[d]]", f.where(tot.node), why, construct=Q, stmt="start total")
    # pointer read at the current total, then the total is decremented by it
    cur_total = _sub(T, d_term)
    want_ptr = _sub(_sub(_sub(node, kn["D_choice"]), i_term), ATuple([d_term, cur_total]))
    ok = vkey(fill.args[0]) == vkey(reset.args[2]) and vkey(fill.args[2]) == vkey(want_ptr)
    ctx.check(ok, "X4", "_set_max_assignment: child index = D_choice[i][d, total] (same i, same d, total before the decrement)", f.where(fill.node),
              "the child's index in sample d is %s, not %s" % (show(fill.args[2]), show(want_ptr)), construct=Q, stmt="child index")
    ok = vkey(tot.args[1]) == vkey(d_term) and isinstance(tot.args[2], Poly) and isinstance(fill.args[2], Poly) and _eq(tot.args[2], cur_total - fill.args[2])
    ctx.check(ok, "X4", "_set_max_assignment: total -= child index", f.where(tot.node),
              "the remaining total of sample %s becomes %s, not (total - the index just given to the child)" % (show(tot.args[1]), show(tot.args[2])), construct=Q, stmt="total decrement")
    order_ok = ex.events.index(fill) < ex.events.index(tot)
    ctx.check(order_ok, "X4", "_set_max_assignment: pointer read before the decrement", f.where(tot.node), "the total is decremented before the pointer is read", construct=Q, stmt="read before decrement")
    # an early return is allowed for a childless node only
    from ..paths import guards_of as _guards_of

    for rn in [n for n in ast.walk(f.node) if isinstance(n, ast.Return)]:
        gs = [(u(t).replace(" ", ""), pol) for t, pol in _guards_of(rn, parents(f.node))]
        fine = not gs and rn is f.node.body[-1] or any((t in ("len(children)==0", "notchildren", "len(children)<1") and pol) or (t in ("children", "len(children)>0", "len(children)!=0") and not pol) for t, pol in gs)
        if gs or rn is not f.node.body[-1]:
            ctx.check(fine, "X4", "_set_max_assignment: early return only for a node without children", f.where(rn), "the traceback returns early under %s: nodes with children never receive their indices" % [t for t, p in gs], construct=Q, stmt="early return")
    # the decrement happens for every sample: it sits in the same (innermost) sample loop as the pointer read
    pm0 = parents(f.node)
    tot_loops = [a for a in ancestors(tot.node, pm0) if isinstance(a, (ast.For, ast.While))]
    fill_loops = [a for a in ancestors(fill.node, pm0) if isinstance(a, (ast.For, ast.While))]
    same_loop = bool(tot_loops) and bool(fill_loops) and tot_loops[0] is fill_loops[0] and len(tot_loops) == len(fill_loops)
    ctx.check(same_loop, "X4", "_set_max_assignment: the total is decremented inside the sample loop (for every sample)", f.where(tot.node),
              "the decrement of the remaining total is not in the loop over samples that reads the pointer: only one sample's total is reduced, the siblings in the other samples are read at the parent's full total", construct=Q, stmt="decrement per sample")
    # recursion
    rec = ex.calls("_set_max_assignment")
    ok = len(rec) == 1 and len(rec[0].args) == 3 and vkey(rec[0].args[0]) == vkey(P(0)) and vkey(rec[0].args[1]) == vkey(reset.args[2]) and vkey(rec[0].args[2]) == vkey(child)
    ctx.check(ok, "X4", "_set_max_assignment: recursion passes the child's own index vector", f.where(rec[0].node) if rec else f.where(),
              "the recursive call is (%s), not (graph, <the vector just stored on the child>, <that child>)" % (", ".join(show(a) for a in rec[0].args) if rec else "missing"), construct=Q, stmt="recursion arguments")
    if rec:
        pm = parents(f.node)
        fors = [a for a in ancestors(rec[0].node, pm) if isinstance(a, (ast.For, ast.While))]
        fill_fors = [a for a in ancestors(fill.node, pm) if isinstance(a, (ast.For, ast.While))]
        ok = len(fors) == 1 and len(fill_fors) == 2 and fill_fors[-1] is fors[0] and ex.events.index(rec[0]) > ex.events.index(tot)
        ctx.check(ok, "X4", "_set_max_assignment: recursion once per child, after all samples are filled", f.where(rec[0].node),
                  "the recursive call sits in %d loop(s): it must run in the child loop only, after the sample loop has filled the child's vector" % len(fors), construct=Q, stmt="recursion placement")
    ctx.analysed(f)


def _root_index(val, root_node):
    """Is `val` = ones(samples) * (grid - 1) with both dimensions read from an array of the root node?"""
    if not isinstance(val, Poly):
        return None, "root index is not an array expression"
    a = val.as_atom()
    if a is not None and a[0] == "call" and a[1] == "np.full" and len(a[2]) == 2:
        n, fill = _poly(a[2][0]), _poly(a[2][1])
        ones = ONE
    else:
        makers = [x for x in val.atoms() if x[0] == "call" and x[1] == "np.ones" and x[2]]
        makers = list(dict.fromkeys(makers))
        if len(makers) != 1:
            return None, "root index %s is not np.ones(samples) * (grid - 1)" % show(val)
        ones = Poly.atom(makers[0])
        n = _poly(makers[0][2][0])
        fill = None
    dn = _dim(n)
    if dn is None:
        return None, "length %s of the root index vector is not a dimension" % show(n)
    arr = key_atom(dn[0]) if not (isinstance(dn[0], tuple) and dn[0] and isinstance(dn[0][0], str)) else dn[0]
    if not (arr is not None and arr[0] == "sub" and arr[1] == vkey(root_node) and key_atom(arr[2]) is not None and key_atom(arr[2])[0] == "const" and key_atom(arr[2])[1].strip("'\"") in NODE_ARRAY_KEYS):
        return None, "the root index length %s is not read from an array of the root node" % show(n)
    if dn[1] != 0:
        return False, "the index vector has length %s (axis %d): one entry per SAMPLE (axis 0) is needed" % (show(n), dn[1])
    grid = _sub(_attr(_poly(arr), "shape"), ONE)
    want = ones * (grid - ONE)
    got = val if fill is None else fill
    if fill is not None:
        want = grid - ONE
    if _eq(got, want):
        return True, ""
    return False, "root index is %s, expected %s (grid = axis 1 of the same array)" % (show(val), show(ones * (grid - ONE)))


# --------------------------------------------------------------------------- X5
def rule_X5(ctx, info):
    prog = ctx.prog
    ctx.rule("X5", "outputs: ccf = idx/(grid-1) (grid from axis 1), clonal_prev = ccf - sum(children ccf) without writing through, whole pipeline on one graph, virtual root deleted from both dictionaries, consumer order", 8)
    _closure_subtracted(ctx)
    # ---- ccf
    f = prog.fn(MAP + "get_map_ccfs")
    Q = f.qualname
    ex = extract(prog, f, **_out_given(f))
    used = set()
    sts = _stores(ex)
    if len(sts) != 1:
        raise AnalysisError("C10/X5: %s does not store exactly one dictionary entry" % Q)
    for n in ast.walk(f.node):
        if isinstance(n, ast.Subscript) and isinstance(n.slice, ast.Constant) and n.slice.value in NODE_ARRAY_KEYS:
            used.add(n.slice.value)
    if len(used) != 1:
        raise AnalysisError("C10/X5: cannot tell which node array %s reads the grid size from (%s)" % (Q, sorted(used)))
    sp = spec(prog, """
        def s(graph, node, out):
            grid = graph.nodes[node][%r].shape[1]
            out[node] = np.array([idx / (grid - 1) for idx in graph.nodes[node]["max_idx"]])
            for c in graph.successors(node):
                get_map_ccfs(graph, c, out)
        """ % used.pop(), f, no_inline=["get_map_ccfs"])
    k = (vkey(P(2)), vkey(P(1)))
    got = ex.sub_stores().get(k)
    if got is None:
        ctx.fail("X5", "get_map_ccfs: result[node]", f.where(sts[0].node), "the CCF vector is stored at %s[%s], not at result[node]" % (show(sts[0].args[0]), show(sts[0].args[1])), construct=Q, stmt="result[node]")
    else:
        same(ctx, "X5", "get_map_ccfs: result[node] = max_idx / (grid - 1)", f, got, sp.sub_stores()[k], "result[node]", node=sts[0].node)
    same_events(ctx, "X5", "get_map_ccfs: recursion over every successor into the same dictionary", f, ex.calls("get_map_ccfs"), sp.calls("get_map_ccfs"), "recursive calls")
    ctx.analysed(f)
    # ---- clonal prevalence
    f = prog.fn(MAP + "get_map_clonal_prev")
    Q = f.qualname
    ex = extract(prog, f, **_out_given(f))
    sp = spec(prog, """
        def s(tree, node, ccf, out):
            out[node] = ccf[node] - sum(ccf[c] for c in tree.successors(node))
            for c in tree.successors(node):
                get_map_clonal_prev(tree, c, ccf, out)
        """, f, no_inline=["get_map_clonal_prev"])
    k = (vkey(P(3)), vkey(P(1)))
    got = ex.sub_stores().get(k)
    sts = _stores(ex)
    if got is None:
        ctx.fail("X5", "get_map_clonal_prev: result[node]", f.where(), "the clonal prevalence is not stored at result[node] (stores: %s)" % ["%s[%s]" % (show(e.args[0]), show(e.args[1])) for e in sts], construct=Q, stmt="result[node]")
    else:
        same(ctx, "X5", "get_map_clonal_prev: result[node] = ccf[node] - sum of the children's ccf", f, got, sp.sub_stores()[k], "result[node]")
    same_events(ctx, "X5", "get_map_clonal_prev: recursion over every successor", f, ex.calls("get_map_clonal_prev"), sp.calls("get_map_clonal_prev"), "recursive calls")
    _no_write_through(ctx, f)
    ctx.analysed(f)
    # ---- pipeline
    _pipeline(ctx, info)
    _consumer(ctx, info)


_CLOSURES = {"networkx.descendants", "networkx.ancestors", "networkx.dfs_preorder_nodes", "networkx.dfs_postorder_nodes", "networkx.bfs_tree", "networkx.dfs_tree", "networkx.dfs_successors", "networkx.bfs_successors", "networkx.descendants_at_distance", "rustworkx.descendants", "rustworkx.ancestors"}


def _closure_subtracted(ctx):
    """The clonal prevalence of a clone is its CCF less the CCFs of its *children*: a subtraction that ranges over a
    transitive closure of the graph (descendants, a traversal) takes the grandchildren off twice."""
    prog = ctx.prog
    mod = prog.module("phyclone.process_trace.map")
    for fi in prog.functions.values():
        if fi.module is not mod:
            continue
        pm = None
        for c in calls(fi.node):
            nm = call_name(c)
            root, _, rest = nm.partition(".")
            tgt = mod.imports.get(root)
            full = (tgt + ("." + rest if rest else "")) if isinstance(tgt, str) else nm
            if full not in _CLOSURES:
                continue
            if pm is None:
                pm = {id(ch): par for par in ast.walk(fi.node) for ch in ast.iter_child_nodes(par)}
            cur, hit = c, None
            while cur is not None and cur is not fi.node:
                par = pm.get(id(cur))
                if isinstance(par, ast.BinOp) and isinstance(par.op, ast.Sub) and par.right is cur:
                    hit = par
                elif isinstance(par, ast.AugAssign) and isinstance(par.op, ast.Sub) and par.value is cur:
                    hit = par
                elif isinstance(par, ast.For) and par.iter is cur and any(isinstance(n, ast.AugAssign) and isinstance(n.op, ast.Sub) for b in par.body for n in ast.walk(b)):
                    hit = par
                if hit is not None:
                    break
                cur = par
            if hit is not None:
                ctx.fail("X5", "clonal prevalence subtracts the children's CCFs only", fi.where(c), "`%s` takes the CCF of every node of %s off the clone's own: the clones nested two levels down are subtracted from their grandparent as well as from their parent" % (u(hit)[:100], u(c)[:60]), construct=fi.qualname, stmt="closure subtracted")


def _out_given(f):
    """Interpreter options for a recursive stage whose output dictionary is an optional last parameter (`result=None`,
    replaced by a fresh dictionary when absent): the recursion is judged for the case in which it is given."""
    a = f.node.args
    pos = a.posonlyargs + a.args
    if pos and a.defaults and isinstance(a.defaults[-1], ast.Constant) and a.defaults[-1].value is None:
        return {"assume": "%s is not None" % pos[-1].arg}
    return {}


def _fresh_when_omitted(prog, f, stages):
    """Does stage `f`, called without its optional last parameter, create a fresh dictionary, fill that and return it?"""
    a = f.node.args
    pos = a.posonlyargs + a.args
    if not (pos and a.defaults and isinstance(a.defaults[-1], ast.Constant) and a.defaults[-1].value is None):
        return False
    sx = extract(prog, f, no_inline=[f.name], assume="%s is None" % pos[-1].arg)
    r = sx.result
    if not isinstance(r, ADict):
        return False
    # everything the recursion receives as its output is that same dictionary
    rec = sx.calls(f.name)
    return all(len(e.args) == len(pos) and e.args[-1] is r for e in rec)


_WIDE_INT = {"int", "np.int64", "numpy.int64", "np.intp", "numpy.intp", "np.int_", "numpy.int_", "'int64'", "'i8'", "np.uint64", "numpy.uint64", "np.integer"}
_WIDE_FLOAT = {"float", "np.float64", "numpy.float64", "np.double", "numpy.double", "'float64'", "'f8'", "np.longdouble", "np.float_"}


def rule_X6(ctx, info):
    """The MAP tables hold grid indices (0 .. grid_size - 1, the grid size is a command-line option with no upper
    bound) and log scores.  An explicit element type narrower than the platform integer / double silently wraps an
    index (uint8 at grid 257) or rounds a score: the traceback then follows another cell than the maximising one."""
    prog = ctx.prog
    ctx.rule("X6", "index and score tables of the MAP pipeline keep full width: every explicit dtype / astype in process_trace.map is the platform integer or float64", 4)
    mod = prog.module("phyclone.process_trace.map")
    n = 0
    for fi in prog.functions.values():
        if fi.module is not mod:
            continue
        for c in ast.walk(fi.node):
            if not isinstance(c, ast.Call):
                continue
            dt = kwarg(c, "dtype")
            if dt is None and isinstance(c.func, ast.Attribute) and c.func.attr in ("astype", "view") and c.args:
                dt = c.args[0]
            if dt is None:
                continue
            n += 1
            txt = u(dt)
            ok = txt in _WIDE_INT or txt in _WIDE_FLOAT or txt in ("bool", "np.bool_", "object")
            if not ok and isinstance(dt, ast.Attribute) and dt.attr == "dtype":
                ok = True  # another array's own element type
            ctx.check(ok, "X6", "%s: %s keeps full width" % (fi.name, u(c)[:50]), fi.where(c), "element type %s: grid indices run up to grid_size - 1 (any size the command line gives) and scores are doubles; a narrower type wraps or rounds them silently and the traceback no longer follows the maximising cells" % txt, construct=fi.qualname, stmt="dtype " + txt)
    if n < 4:
        raise AnalysisError("X6: only %d explicit element types found in process_trace.map (expected the integer index tables)" % n)


def rule_X7(ctx, info):
    """The node attributes the MAP pipeline reads (`log_p`, `log_R`) are the tree's own arrays (the conversion to networkx
    copies no payload).  A slot that was filled by plain assignment from another slot or name (`node["log_R_max"] =
    node["log_p"]`) holds the *same* array: an augmented assignment on it afterwards (`+=`, `-=`) writes into the tree."""
    from ..paths import enumerate_paths

    prog = ctx.prog
    ctx.rule("X7", "no in-place update of a table that aliases an input array: a slot / name bound by plain assignment from another slot is not then updated with an augmented assignment", 4)
    mod = prog.module("phyclone.process_trace.map")
    n = 0
    for fi in prog.functions.values():
        if fi.module is not mod:
            continue
        n += 1
        bad = []
        try:
            paths_ = enumerate_paths(fi.node.body)
        except AnalysisError:
            paths_ = []
        for steps, _oc in paths_:
            alias = {}  # unparse(target) -> source text, for targets currently holding another slot's array
            for st in steps:
                node = st.node
                if st.kind != "stmt" or not isinstance(node, ast.AST):
                    continue
                if isinstance(node, ast.Assign) and len(node.targets) == 1:
                    t, v = node.targets[0], node.value
                    if isinstance(t, (ast.Name, ast.Subscript, ast.Attribute)):
                        if isinstance(v, (ast.Subscript, ast.Attribute)) and not (isinstance(v, ast.Subscript) and isinstance(v.slice, ast.Slice)) or (isinstance(v, ast.Name) and u(v) in alias):
                            alias[u(t)] = u(v)
                        else:
                            alias.pop(u(t), None)
                elif isinstance(node, ast.AugAssign):
                    tt = u(node.target)
                    base = u(node.target.value) if isinstance(node.target, ast.Subscript) and isinstance(node.target.slice, (ast.Slice, ast.Tuple, ast.Name, ast.Constant)) and u(node.target.value) in alias else None
                    if tt in alias:
                        bad.append((node, "`%s` holds the array of `%s` (plain assignment) and is then updated in place" % (tt, alias[tt])))
                    elif base is not None and not (isinstance(node.target.slice, ast.Constant) and isinstance(node.target.slice.value, str)):
                        bad.append((node, "`%s` is an element of `%s`, which holds the array of `%s`" % (tt, base, alias[base])))
        seen = set()
        bad = [(a, b) for a, b in bad if not (id(a) in seen or seen.add(id(a)))]
        ctx.check(not bad, "X7", "%s updates in place only arrays of its own" % fi.name, fi.where(bad[0][0]) if bad else fi.where(), "; ".join(b for _, b in bad[:2]) + ": the array belongs to the tree's node (or to another table), which is changed by summarising it", construct=fi.qualname, stmt="in-place update of an aliased table")
    if n < 4:
        raise AnalysisError("X7: only %d functions found in process_trace.map" % n)


def _handle(v):
    """Identity of a dictionary value: the abstract object itself, or the term that denotes it."""
    if isinstance(v, (ADict, AList)):
        return ("obj", id(v))
    return ("key", _strip_upd(vkey(v)))


def _wrapper(prog, stage, mod):
    """Same-module top-level helpers (other than the stage itself) that call `stage` by name."""
    hits = []
    for fi in prog.functions.values():
        if fi.module is mod and fi.name != stage and fi.parent is None and fi.cls is None:
            if any(isinstance(n, ast.Call) and isinstance(n.func, ast.Name) and n.func.id == stage for n in ast.walk(fi.node)):
                hits.append(fi)
    return hits


def _pipeline(ctx, info):
    prog = ctx.prog
    f = prog.fn(MAP + "get_map_node_ccfs_and_clonal_prev_dicts")
    Q = f.qualname
    stages = ["compute_max_likelihood", "set_max_assignment", "get_map_ccfs", "get_map_clonal_prev"]
    wrap = {}
    for st in stages[2:]:
        ws = [w for w in _wrapper(prog, st, f.module) if w is not f]
        if len(ws) > 1:
            raise AnalysisError("C10/X5: several helpers call %s: %s" % (st, [w.qualname for w in ws]))
        if ws:
            w = ws[0]
            wx = extract(prog, w, no_inline=stages)
            ev = wx.calls(st)
            if len(ev) != 1:
                raise AnalysisError("C10/X5: %s does not call %s exactly once" % (w.qualname, st))
            pidx = {vkey(P(n)): n for n in range(len(w.params))}
            amap = [pidx.get(vkey(a)) if not isinstance(a, (ADict, AList)) else None for a in ev[0].args]
            stage_fi = prog.fn(MAP + st)
            if len(ev[0].args) == len(stage_fi.params) - 1 and not ev[0].kwargs and _fresh_when_omitted(prog, stage_fi, stages):
                # the stage makes the dictionary itself when none is handed in, and returns it; the helper returns that
                call_atom = Poly.atom(("call", st, tuple(vkey(a) for a in ev[0].args), ()))
                ok = wx.result is not None and not isinstance(wx.result, (ADict, AList)) and vkey(wx.result) == vkey(call_atom) and all(x is not None for x in amap)
                ctx.check(ok, "X5", "%s: fills a fresh dictionary through %s and returns that dictionary" % (w.name, st), w.where(ev[0].node),
                          "%s(%s) makes its own dictionary, but the helper does not return it" % (st, ", ".join(show(a) for a in ev[0].args)), construct=w.qualname, stmt="wrapper of " + st)
                wrap[st] = (w, amap)
                ctx.analysed(w)
                continue
            out = ev[0].args[-1]
            ok = isinstance(out, ADict) and not out.items and wx.result is out and all(x is not None for x in amap[:-1])
            ctx.check(ok, "X5", "%s: fills a fresh dictionary through %s and returns that dictionary" % (w.name, st), w.where(ev[0].node),
                      "%s(%s) is not called on the helper's own parameters plus one fresh dictionary that is then returned" % (st, ", ".join(show(a) for a in ev[0].args)), construct=w.qualname, stmt="wrapper of " + st)
            wrap[st] = (w, amap[:-1])
            ctx.analysed(w)
    ex = extract(prog, f, no_inline=stages + [w.name for w, _ in wrap.values()])
    seq = []
    for e in ex.events:
        if e.name in stages and e.name not in wrap:
            seq.append((e.name, list(e.args), None, e))
        for st, (w, amap) in wrap.items():
            if e.name == w.name:
                if len(e.args) != len(w.params) or e.kwargs:
                    raise AnalysisError("C10/X5: %s is not called positionally with all its parameters in %s" % (w.name, Q))
                res = Poly.atom(("call", w.name, tuple(vkey(a) for a in e.args), ()))
                seq.append((st, [e.args[n] for n in amap] + [res], res, e))
    ok = [x[0] for x in seq] == stages
    ctx.check(ok, "X5", "pipeline: forward pass, traceback, ccf, clonal prevalence, in this order, once each", f.where(), "the stages run as %s" % [x[0] for x in seq], construct=Q, stmt="stage order")
    if not ok:
        return
    a0 = seq[0][1]
    G, root = a0[0], a0[1] if len(a0) > 1 else None
    ga = _atom(G)
    ok = ga is not None and ga[0] == "call" and ga[1] == "convert_rustworkx_to_networkx" and len(ga[2]) == 1 and ga[2][0] == vkey(_attr(P(0), "_graph"))
    ctx.check(ok, "X5", "pipeline: the graph is the conversion of the tree's own graph", f.where(seq[0][3].node), "the analysed graph is %s" % show(G), construct=Q, stmt="graph source")
    ok = root is not None and vkey(root) == vkey(_attr(P(0), "root_node_name")) and all(len(x[1]) >= 2 and vkey(x[1][0]) == vkey(G) and vkey(x[1][1]) == vkey(root) for x in seq)
    ctx.check(ok, "X5", "pipeline: all four stages run on the same graph from tree.root_node_name", f.where(seq[0][3].node),
              "stage arguments differ: %s" % ["%s(%s)" % (x[0], ", ".join(show(a) for a in x[1][:2])) for x in seq], construct=Q, stmt="same graph and root")
    r = ex.result
    if not isinstance(r, ATuple) or len(r.items) != 2:
        raise AnalysisError("C10/X5: %s does not return a pair" % Q)
    ccf_d = seq[2][1][2] if len(seq[2][1]) == 3 else None
    cp_in = seq[3][1][2] if len(seq[3][1]) == 4 else None
    cp_d = seq[3][1][3] if len(seq[3][1]) == 4 else None
    ok = ccf_d is not None and cp_d is not None and _handle(ccf_d) != _handle(cp_d) and _handle(cp_in) == _handle(ccf_d)
    ctx.check(ok, "X5", "pipeline: clonal prevalence is computed from the CCF dictionary just filled, into a second dictionary", f.where(seq[3][3].node), "get_map_clonal_prev does not receive the dictionary filled by get_map_ccfs and a different output dictionary", construct=Q, stmt="dictionary plumbing")
    if not ok:
        return
    hs = [_handle(x) for x in r.items]
    ok = sorted(hs) == sorted([_handle(ccf_d), _handle(cp_d)])
    ctx.check(ok, "X5", "pipeline: returns the ccf dictionary and the clonal-prevalence dictionary", f.where(), "the returned pair %s is not the two dictionaries just filled" % show(r), construct=Q, stmt="returned pair")
    if ok:
        info["ret_pos"] = {"ccf": hs.index(_handle(ccf_d)), "clonal_prev": hs.index(_handle(cp_d))}
    # deletions of the virtual root
    deleted = []
    for n in ast.walk(f.node):
        tg = []
        if isinstance(n, ast.Delete):
            tg = [(t.value.id, t.slice, t) for t in n.targets if isinstance(t, ast.Subscript) and isinstance(t.value, ast.Name)]
        elif isinstance(n, ast.Call) and isinstance(n.func, ast.Attribute) and n.func.attr == "pop" and isinstance(n.func.value, ast.Name) and n.args:
            tg = [(n.func.value.id, n.args[0], n)]
        for name, key, where in tg:
            if name in ex.state.env:
                kv = ex.interp._eval_in(key, f, ex.state.env)
                deleted.append((_handle(ex.state.env[name]), kv, where))
    for label, d in (("ccf", ccf_d), ("clonal prevalence", cp_d)):
        hit = [(kv, w) for h, kv, w in deleted if h == _handle(d)]
        ok = len(hit) == 1 and root is not None and vkey(hit[0][0]) == vkey(root)
        ctx.check(ok, "X5", "pipeline: virtual root removed from the %s dictionary" % label, f.where(hit[0][1]) if hit else f.where(),
                  "the %s dictionary %s" % (label, "keeps the entry of the virtual root" if not hit else "loses entry %s, not the root (or loses it %d times)" % (show(hit[0][0]), len(hit))), construct=Q, stmt="del %s[root]" % label.split()[0])
    ctx.analysed(f)


def _no_write_through(ctx, f):
    """An accumulator updated in place (`x -= ...`) must not alias an entry of the CCF dictionary."""
    Q = f.qualname
    params = set(f.params)
    aug = [n for n in ast.walk(f.node) if isinstance(n, ast.AugAssign)]
    bad = None
    for n in aug:
        t = n.target
        if isinstance(t, ast.Subscript):
            root = t.value
            while isinstance(root, (ast.Subscript, ast.Attribute)):
                root = root.value
            if isinstance(root, ast.Name) and root.id in params and not (isinstance(t.value, ast.Name) and t.value.id == f.params[-1]):
                bad = (n, "an entry of parameter %s is updated in place" % root.id)
        elif isinstance(t, ast.Name):
            defs = [s for s in ast.walk(f.node) if isinstance(s, ast.Assign) and any(isinstance(x, ast.Name) and x.id == t.id for x in s.targets)]
            for s in defs:
                v = s.value
                if isinstance(v, ast.Subscript):
                    root = v.value
                    while isinstance(root, (ast.Subscript, ast.Attribute)):
                        root = root.value
                    if isinstance(root, ast.Name) and root.id in params:
                        bad = (n, "%s is bound to %s (no copy) and then updated in place: the CCF entry itself is overwritten with the clonal prevalence" % (t.id, u(v)))
    ctx.check(bad is None, "X5", "get_map_clonal_prev: the subtraction does not write through into the CCF dictionary", f.where(bad[0]) if bad else f.where(), bad[1] if bad else "", construct=Q, stmt="no write-through")


def _consumer(ctx, info):
    prog = ctx.prog
    f = prog.fn("process_trace.get_clone_table")
    Q = f.qualname
    asg = [n for n in ast.walk(f.node) if isinstance(n, ast.Assign) and isinstance(n.value, ast.Call) and isinstance(n.value.func, ast.Name) and n.value.func.id == "get_map_node_ccfs_and_clonal_prev_dicts"]
    if len(asg) != 1 or not isinstance(asg[0].targets[0], ast.Tuple) or len(asg[0].targets[0].elts) != 2 or not all(isinstance(e, ast.Name) for e in asg[0].targets[0].elts):
        raise AnalysisError("C10/X5: %s does not unpack get_map_node_ccfs_and_clonal_prev_dicts(tree) into two names" % Q)
    names = [e.id for e in asg[0].targets[0].elts]
    pos = info.get("ret_pos", {"ccf": 0, "clonal_prev": 1})
    for col in ("ccf", "clonal_prev"):
        mine, other = names[pos[col]], names[1 - pos[col]]
        sts = [n for n in ast.walk(f.node) if isinstance(n, ast.Assign) and any(isinstance(t, ast.Subscript) and isinstance(t.slice, ast.Constant) and t.slice.value == col for t in n.targets)]
        def sentinel(v):
            """a literal, or a module-level name bound once to a literal (the value written for mutations in no clone)"""
            if isinstance(v, (ast.Constant, ast.UnaryOp)):
                return True
            if isinstance(v, ast.Name) and not any(isinstance(x, ast.Name) and x.id == v.id and isinstance(x.ctx, ast.Store) for x in ast.walk(f.node)) and v.id not in f.params:
                defs = [a_.value for a_ in f.module.tree.body if isinstance(a_, ast.Assign) and any(isinstance(t, ast.Name) and t.id == v.id for t in a_.targets)]
                return len(defs) == 1 and isinstance(defs[0], (ast.Constant, ast.UnaryOp))
            return False

        srcs = [n for n in sts if not sentinel(n.value)]
        if not srcs:
            raise AnalysisError("C10/X5: %s never fills column %r from a dictionary" % (Q, col))
        for n in srcs:
            used = {x.id for x in ast.walk(n.value) if isinstance(x, ast.Name)}
            ctx.check(mine in used and other not in used, "X5", "get_clone_table: column %r read from the %s dictionary" % (col, col), f.where(n),
                      "column %r is filled from %s; the dictionaries are returned as (ccf, clonal_prev) = (%s, %s)" % (col, u(n.value), names[pos["ccf"]], names[pos["clonal_prev"]]), construct=Q, stmt="column %s" % col)
    ctx.analysed(f)


def run(ctx):
    ctx.assume("sufficiency of the premises is the max-product dynamic-programming theorem (Bellman), not decided here")
    ctx.assume("all children arrays handed to compute_log_S share one shape (samples, grid); numpy indexing semantics")
    ctx.assume("networkx DiGraph.successors(node) enumerates the same order on every call while the edge set is unchanged")
    info = _Info()
    ctx.soft(rule_X1, info)
    ctx.soft(rule_X2, info)
    ctx.soft(rule_X3, info)
    ctx.soft(rule_X4, info)
    ctx.soft(rule_X5, info)
    ctx.soft(rule_X6, info)
    ctx.soft(rule_X7, info)
    # the recursion and the traceback run on the networkx copy of the tree: it must hold every node (an edgeless
    # all-outlier tree included) with its payload (same rule object as C12.N1)
    from ..formula import imported
    from . import C12

    ctx._own_rules = set(ctx.rule_min)
    imported(ctx, C12.rule_N1)
    # the back-pointer tables are indexed by child position: a table memoised under an order-insensitive key would be
    # served to a call with the same children in another order (same rule object as C14.K6)
    from . import C14

    imported(ctx, C14.rule_K6)
    imported(ctx, C14.rule_K1)  # a cache on the MAP pipeline keyed by Tree equality (clades only) forgets labels and values
    # the CCFs a user reads are those of the result table: copied unchanged from the MAP dictionaries (C12.N3 / N4)
    imported(ctx, C12.rule_N3_N4)


# Self-test catalogue: one textual edit each (or a list of edits), applied to a scratch copy (see selftest.py).
_M = "phyclone/process_trace/map.py"
_U = "phyclone/process_trace/utils.py"
_PT = "phyclone/process_trace/process_trace.py"
SELFTEST = [
    {"name": "X6-argmax-table-int16", "kind": "break", "rule": "X6", "file": _M, "old": "    log_S_choice = np.zeros(log_D.shape, dtype=int)\n", "new": "    log_S_choice = np.zeros(log_D.shape, dtype=np.int16)\n"},
    {"name": "benign-argmax-table-int64", "kind": "benign", "file": _M, "old": "    log_S_choice = np.zeros(log_D.shape, dtype=int)\n", "new": "    log_S_choice = np.zeros(log_D.shape, dtype=np.int64)\n"},
    # ---- Appendix A
    {"name": "X1-range-i", "kind": "break", "rule": "X1", "file": _M, "old": "for j in range(i + 1):", "new": "for j in range(i):"},
    {"name": "X1-prev-index-off-by-one", "kind": "break", "rule": "X1", "file": _M, "old": "prev_log_D_n[i - j]", "new": "prev_log_D_n[i - j - 1]"},
    {"name": "X1-choice-outside-guard", "kind": "break", "rule": "X1", "file": _M, "old": "            if val >= result[i]:\n                choice[i] = j\n\n                result[i] = val", "new": "            choice[i] = j\n            if val >= result[i]:\n                result[i] = val"},
    {"name": "X4-forward-child-order", "kind": "break", "rule": "X4", "file": _M, "old": "for i in range(len(children) - 1, -1, -1):", "new": "for i in range(len(children)):"},
    {"name": "X4-root-index-minus-2", "kind": "break", "rule": "X4", "file": _M, "old": "[\"max_idx\"] = np.ones(num_dims, dtype=int) * (num_vals - 1)", "new": "[\"max_idx\"] = np.ones(num_dims, dtype=int) * (num_vals - 2)"},
    {"name": "X5-divide-by-grid", "kind": "break", "rule": "X5", "file": _M, "old": "x / (num_dims - 1)", "new": "x / num_dims"},
    {"name": "X5-clonal-prev-plus", "kind": "break", "rule": "X5", "file": _M, "old": "clonal_prev -= ccf_dict[child]", "new": "clonal_prev += ccf_dict[child]"},
    # ---- own
    {"name": "X4-early-return-for-nodes-with-children", "kind": "break", "rule": "X4", "file": _M, "old": "    if len(children) == 0:\n        return\n\n    child_total_idx", "new": "    if len(children) != 0:\n        return\n\n    child_total_idx"},
    {"name": "X4-early-return-not-children", "kind": "benign", "file": _M, "old": "    if len(children) == 0:\n        return\n\n    child_total_idx", "new": "    if not children:\n        return\n\n    child_total_idx"},
    {"name": "X1-guard-keeps-minimum", "kind": "break", "rule": "X1", "file": _M, "old": "if val >= result[i]:", "new": "if val <= result[i]:"},
    {"name": "X1-result-starts-at-zero", "kind": "break", "rule": "X1", "file": _M, "old": "result = np.ones(grid_size) * -np.inf", "new": "result = np.zeros(grid_size)"},
    {"name": "X1-result-starts-at-plus-inf", "kind": "break", "rule": "X1", "file": _M, "old": "result = np.ones(grid_size) * -np.inf", "new": "result = np.ones(grid_size) * np.inf"},
    {"name": "X1-pointer-is-remainder", "kind": "break", "rule": "X1", "file": _M, "old": "choice[i] = j", "new": "choice[i] = i - j"},
    {"name": "X1-outer-bound-short", "kind": "break", "rule": "X1", "file": _M, "old": "    for i in range(grid_size):\n        for j in range(i + 1):", "new": "    for i in range(grid_size - 1):\n        for j in range(i + 1):"},
    {"name": "X1-dropped-prev-term", "kind": "break", "rule": "X1", "file": _M, "old": "val = child_log_R[j] + prev_log_D_n[i - j]", "new": "val = child_log_R[j]"},
    {"name": "X1-fold-wrong-row", "kind": "break", "rule": "X1", "file": _M, "old": "_compute_log_D_n(child_log_R[i, :], log_D[i, :])", "new": "_compute_log_D_n(child_log_R[i, :], log_D[0, :])"},
    {"name": "X1-fold-choices-not-reset", "kind": "break", "rule": "X1", "file": _M, "old": "    for child_log_R in child_log_R_values:\n        child_choices = []\n", "new": "    child_choices = []\n    for child_log_R in child_log_R_values:\n"},
    {"name": "X1-fold-reversed-children", "kind": "break", "rule": "X1", "file": _M, "old": "for child_log_R in child_log_R_values:", "new": "for child_log_R in reversed(child_log_R_values):"},
    {"name": "X1-fold-swapped-unpack", "kind": "break", "rule": "X1", "file": _M, "old": "choice, log_D[i, :] = _compute_log_D_n(", "new": "log_D[i, :], choice = _compute_log_D_n("},
    {"name": "X2-column-0-not-copied", "kind": "break", "rule": "X2", "file": _M, "old": "    log_S[:, 0] = log_D[:, 0]\n", "new": "    pass\n"},
    {"name": "X2-columns-from-2", "kind": "break", "rule": "X2", "file": _M, "old": "for j in range(1, grid_size):", "new": "for j in range(2, grid_size):"},
    {"name": "X2-rows-short", "kind": "break", "rule": "X2", "file": _M, "old": "        for j in range(1, grid_size):", "new": "        for j in range(1, grid_size - 1):"},
    {"name": "X2-pointer-arm-mismatch", "kind": "break", "rule": "X2", "file": _M, "old": "log_S_choice[i, j] = log_S_choice[i, j - 1]", "new": "log_S_choice[i, j] = j - 1"},
    {"name": "X2-guard-flipped", "kind": "break", "rule": "X2", "file": _M, "old": "if log_D[i, j] > log_S[i, j - 1]:", "new": "if log_D[i, j] < log_S[i, j - 1]:"},
    {"name": "X2-compares-with-D-prev", "kind": "break", "rule": "X2", "file": _M, "old": "if log_D[i, j] > log_S[i, j - 1]:", "new": "if log_D[i, j] > log_D[i, j - 1]:"},
    {"name": "X3-drop-log_p", "kind": "break", "rule": "X3", "file": _M, "old": "node[\"log_R_max\"] = node[\"log_p\"] + node[\"log_S_max\"]", "new": "node[\"log_R_max\"] = node[\"log_S_max\"]"},
    {"name": "X3-children-sum-product-R", "kind": "break", "rule": "X3", "file": _M, "old": "graph.nodes[child_id][\"log_R_max\"] for child_id in children", "new": "graph.nodes[child_id][\"log_R\"] for child_id in children"},
    {"name": "X3-edge-direction-reversed", "kind": "break", "rule": "X3", "file": _U, "old": "(graph[x[0]].node_id, graph[x[1]].node_id, ", "new": "(graph[x[1]].node_id, graph[x[0]].node_id, "},
    {"name": "X4-tables-stored-swapped", "kind": "break", "rule": "X4", "file": _M, "old": "node[\"log_D_choice\"], node[\"log_S_choice\"], node[\"log_S_max\"] = compute_log_S", "new": "node[\"log_S_choice\"], node[\"log_D_choice\"], node[\"log_S_max\"] = compute_log_S"},
    {"name": "X4-total-incremented", "kind": "break", "rule": "X4", "file": _M, "old": "child_total_idx[d] -= graph.nodes[child][\"max_idx\"][d]", "new": "child_total_idx[d] += graph.nodes[child][\"max_idx\"][d]"},
    {"name": "X4-total-never-decremented", "kind": "break", "rule": "X4", "file": _M, "old": "            child_total_idx[d] -= graph.nodes[child][\"max_idx\"][d]\n", "new": "            pass\n"},
    {"name": "X4-start-total-off-by-one", "kind": "break", "rule": "X4", "file": _M, "old": "[\"log_S_choice\"][d, idxs[d]]", "new": "[\"log_S_choice\"][d, idxs[d] - 1]"},
    {"name": "X4-start-total-skips-S", "kind": "break", "rule": "X4", "file": _M, "old": "child_total_idx = [graph.nodes[node][\"log_S_choice\"][d, idxs[d]] for d in range(num_dims)]", "new": "child_total_idx = [idxs[d] for d in range(num_dims)]"},
    {"name": "X4-recursion-parent-vector", "kind": "break", "rule": "X4", "file": _M, "old": "_set_max_assignment(graph, graph.nodes[child][\"max_idx\"], children[i])", "new": "_set_max_assignment(graph, idxs, children[i])"},
    {"name": "X4-pointer-table-mirrored", "kind": "break", "rule": "X4", "file": _M, "old": "[\"log_D_choice\"][i][d, child_total_idx[d]]", "new": "[\"log_D_choice\"][len(children) - 1 - i][d, child_total_idx[d]]"},
    {"name": "X4-sample-loop-short", "kind": "break", "rule": "X4", "file": _M, "old": "        for d in range(num_dims):\n            graph.nodes[child]", "new": "        for d in range(num_dims - 1):\n            graph.nodes[child]"},
    {"name": "X4-root-vector-per-grid", "kind": "break", "rule": "X4", "file": _M, "old": "[\"max_idx\"] = np.ones(num_dims, dtype=int) * (num_vals - 1)", "new": "[\"max_idx\"] = np.ones(num_vals, dtype=int) * (num_vals - 1)"},
    {"name": "X4-recursion-inside-sample-loop", "kind": "break", "rule": "X4", "file": _M, "old": "        _set_max_assignment(graph, graph.nodes[child][\"max_idx\"], children[i])", "new": "            _set_max_assignment(graph, graph.nodes[child][\"max_idx\"], children[i])"},
    {"name": "X5-grid-from-axis-0", "kind": "break", "rule": "X5", "file": _M, "old": "num_dims = graph.nodes[node][\"log_R\"].shape[1]", "new": "num_dims = graph.nodes[node][\"log_R\"].shape[0]"},
    {"name": "X5-root-kept-in-clonal-prev", "kind": "break", "rule": "X5", "file": _M, "old": "    del clonal_prev_dict[root_node_name]\n", "new": ""},
    {"name": "X5-clonal-prev-writes-through", "kind": "break", "rule": "X5", "file": _M, "old": "clonal_prev = ccf_dict[node].copy()", "new": "clonal_prev = ccf_dict[node]"},
    {"name": "X5-consumer-swapped", "kind": "break", "rule": "X5", "file": _PT, "old": "ccfs, clonal_prev_dict = get_map_node_ccfs_and_clonal_prev_dicts(tree)", "new": "clonal_prev_dict, ccfs = get_map_node_ccfs_and_clonal_prev_dicts(tree)"},
    {"name": "X5-children-not-visited", "kind": "break", "rule": "X5", "file": _M, "old": "        get_map_ccfs(graph, child, result)", "new": "        get_map_ccfs(graph, node, result)"},
    {"name": "X5-traceback-skipped", "kind": "break", "rule": "X5", "file": _M, "old": "    set_max_assignment(graph, root_node_name)\n", "new": ""},
    # ---- benign
    {"name": "benign-np-full-neg-inf", "kind": "benign", "file": _M, "old": "result = np.ones(grid_size) * -np.inf", "new": "result = np.full(grid_size, -np.inf)"},
    {"name": "benign-rename-idxs", "kind": "benign", "edits": [
        {"file": _M, "old": "def _set_max_assignment(graph, idxs, node):", "new": "def _set_max_assignment(graph, parent_index, node):"},
        {"file": _M, "old": "num_dims = len(idxs)", "new": "num_dims = len(parent_index)"},
        {"file": _M, "old": "[d, idxs[d]]", "new": "[d, parent_index[d]]"}]},
    {"name": "benign-split-candidate", "kind": "benign", "file": _M, "old": "            val = child_log_R[j] + prev_log_D_n[i - j]\n\n            if val >= result[i]:", "new": "            a = prev_log_D_n[i - j]\n            b = child_log_R[j]\n            val = a + b\n            cur = result[i]\n            if cur <= val:"},
    {"name": "benign-strict-tie-break", "kind": "benign", "file": _M, "old": "if val >= result[i]:", "new": "if val > result[i]:"},
    {"name": "benign-flip-arms-of-running-max", "kind": "benign", "file": _M,
     "old": "            if log_D[i, j] > log_S[i, j - 1]:\n                log_S[i, j] = log_D[i, j]\n\n                log_S_choice[i, j] = j\n\n            else:\n                log_S[i, j] = log_S[i, j - 1]\n\n                log_S_choice[i, j] = log_S_choice[i, j - 1]\n",
     "new": "            if log_S[i, j - 1] >= log_D[i, j]:\n                log_S_choice[i, j] = log_S_choice[i, j - 1]\n                log_S[i, j] = log_S[i, j - 1]\n            else:\n                log_S_choice[i, j] = j\n                log_S[i, j] = log_D[i, j]\n"},
    {"name": "benign-extract-helper", "kind": "benign", "edits": [
        {"file": _M, "old": "val = child_log_R[j] + prev_log_D_n[i - j]", "new": "val = _candidate(child_log_R, prev_log_D_n, i, j)"},
        {"file": _M, "old": "def get_map_ccfs(graph, node, result):", "new": "def _candidate(c, p, tot, k):\n    return p[tot - k] + c[k]\n\n\ndef get_map_ccfs(graph, node, result):"}]},
    {"name": "benign-print-in-traceback", "kind": "benign", "file": _M, "old": "        child = children[i]\n", "new": "        child = children[i]\n        print(\"tracing\", child)\n"},
    {"name": "benign-reversed-range", "kind": "benign", "file": _M, "old": "for i in range(len(children) - 1, -1, -1):", "new": "for i in reversed(range(len(children))):"},
    {"name": "X5-clonal-prev-less-all-descendants", "kind": "break", "rule": "X5", "edits": [
        {"file": _M, "old": "import numpy as np\n", "new": "import networkx as nx\nimport numpy as np\n"},
        {"file": _M, "old": "    clonal_prev = ccf_dict[node].copy()\n\n    for child in tree.successors(node):\n        clonal_prev -= ccf_dict[child]\n\n        get_map_clonal_prev", "new": "    clonal_prev = ccf_dict[node] - sum(ccf_dict[c] for c in nx.descendants(tree, node))\n\n    for child in tree.successors(node):\n        get_map_clonal_prev"}]},
    {"name": "benign-descendants-counted-not-subtracted", "kind": "benign", "edits": [
        {"file": _M, "old": "import numpy as np\n", "new": "import networkx as nx\nimport numpy as np\n"},
        {"file": _M, "old": "    clonal_prev = ccf_dict[node].copy()\n", "new": "    clonal_prev = ccf_dict[node].copy()\n    assert len(nx.descendants(tree, node)) <= len(ccf_dict) - 1\n"}]},
    {"name": "benign-clonal-prev-as-sum", "kind": "benign", "file": _M, "old": "    clonal_prev = ccf_dict[node].copy()\n\n    for child in tree.successors(node):\n        clonal_prev -= ccf_dict[child]\n\n        get_map_clonal_prev", "new": "    clonal_prev = ccf_dict[node] - sum(ccf_dict[c] for c in tree.successors(node))\n\n    for child in tree.successors(node):\n        get_map_clonal_prev"},
    {"name": "benign-pop-root", "kind": "benign", "file": _M, "old": "    del ccf_dict[root_node_name]\n", "new": "    ccf_dict.pop(root_node_name)\n"},
    {"name": "benign-rows-from-child-shape", "kind": "benign", "file": _M, "old": "        for i in range(num_dims):\n            choice, log_D[i, :]", "new": "        for i in range(child_log_R.shape[0]):\n            choice, log_D[i, :]"},
    {"name": "benign-grid-from-log_p", "kind": "benign", "file": _M, "old": "num_dims = graph.nodes[node][\"log_R\"].shape[1]", "new": "num_dims = graph.nodes[node][\"log_p\"].shape[1]"},
    {"name": "benign-leaf-test-not-children", "kind": "benign", "file": _M, "old": "    if len(children) == 0:\n        node[\"log_S_max\"]", "new": "    if not children:\n        node[\"log_S_max\"]"},
]
